/* Contracts for src/lib/comp/comp.c */
#ifndef CONTRACTS_COMP_H
#define CONTRACTS_COMP_H
#include "spec/ghost.h"

/* configured chunk-size options: a minimum can only exist below an already set maximum (0 = not set; comp_init then
 * applies defaults 1 <= 10 MiB), so that comp_init always ends with chunk_min_size <= chunk_max_size -- the writer units
 * (contracts/writer.h) ASSUME this of their pre-state, comp_ioption's unit proves it is maintained */
#ifndef OPT_WF
#define OPT_WF(z) ((z)->chunk_max_size >= 0 && (z)->chunk_min_size >= 0 && ((z)->chunk_max_size == 0 ? (z)->chunk_min_size == 0 : (z)->chunk_min_size <= (z)->chunk_max_size))
#endif
#define OPT_WF_OLD(z) (V_OLD((z)->chunk_max_size) >= 0 && V_OLD((z)->chunk_min_size) >= 0 && (V_OLD((z)->chunk_max_size) == 0 ? V_OLD((z)->chunk_min_size) == 0 : V_OLD((z)->chunk_min_size) <= V_OLD((z)->chunk_max_size)))

/* comp_ioption as used by the header parser (option == ZCK_COMP_TYPE) and by the option setters */
bool comp_ioption(zckCtx *zck, zck_ioption option, ssize_t value)
V_REQUIRES(__CPROVER_rw_ok(zck, sizeof(*zck)))
V_ASSIGNS(zck->comp, zck->manual_chunk, zck->chunk_min_size, zck->chunk_max_size, zck->error_state)
V_ENSURES(!__CPROVER_return_value || option != ZCK_COMP_TYPE || ((value == ZCK_COMP_NONE || value == ZCK_COMP_ZSTD) && zck->comp.type == (uint8_t)value && zck->comp.started == 0 && zck->comp.init != NULL)) /*@C13,C03.comp_ioption.type_set_and_supported*/
V_ENSURES(!__CPROVER_return_value || V_OLD(zck->error_state) == 0) /*@C03.comp_ioption.needs_clean_ctx*/
V_ENSURES(!OPT_WF_OLD(zck) || OPT_WF(zck)) /*@C01,C16.comp_ioption.minimum_never_set_above_the_maximum_in_force*/
;

/* comp_init in READ mode (temp_fd == 0, no_write == 0): starts the decoder, keeps its type */
bool comp_init(zckCtx *zck)
V_REQUIRES(__CPROVER_rw_ok(zck, sizeof(*zck)))
V_ASSIGNS(zck->comp, zck->chunk_min_size, zck->chunk_max_size, zck->buzhash_width, zck->buzhash_match_bits, zck->buzhash_bitmask, zck->chunk_auto_min, zck->chunk_auto_max, zck->error_state)
V_ENSURES(zck->comp.type == V_OLD(zck->comp.type)) /*@C13.comp_init.keeps_type*/
V_ENSURES(!__CPROVER_return_value || zck->comp.started != 0) /*@C03.comp_init.started*/
V_ENSURES(!__CPROVER_return_value || V_OLD(zck->error_state) == 0) /*@C03.comp_init.needs_clean_ctx*/
;

/* ---- reader side ------------------------------------------------------------------------- */
/* decoder buffer invariant */
#define DC_WF(c) ((c)->dc_data_loc <= (c)->dc_data_size && ((c)->dc_data == NULL ? (c)->dc_data_size == 0 : __CPROVER_rw_ok((c)->dc_data, (c)->dc_data_size)))

#define DATA_WF(c) ((c)->data == NULL ? (c)->data_size == 0 : __CPROVER_rw_ok((c)->data, (c)->data_size))

/* assumed contract of a codec's end-of-chunk hook (zstd: proved against this in units/zstd.c with
 * the ZSTD_* calls by contract; nocomp: units/nocomp.c).  It may append decoded bytes to dc_data. */
#define CONTRACT_END_DCHUNK \
V_REQUIRES(__CPROVER_rw_ok(zck, sizeof(*zck)) && comp == &zck->comp) \
V_REQUIRES(DC_WF(comp) && DATA_WF(comp)) \
V_ASSIGNS(zck->comp.data, zck->comp.data_size, zck->comp.dc_data, zck->comp.dc_data_size, zck->comp.dc_data_loc, zck->error_state) \
V_FREES_HOOK(zck->comp.data, zck->comp.dc_data) \
V_ENSURES(zck->comp.type == ZCK_COMP_ZSTD || (zck->comp.data == V_OLD(zck->comp.data) && zck->comp.data_size == V_OLD(zck->comp.data_size) && zck->comp.dc_data == V_OLD(zck->comp.dc_data) && zck->comp.dc_data_size == V_OLD(zck->comp.dc_data_size) && zck->comp.dc_data_loc == V_OLD(zck->comp.dc_data_loc) && zck->error_state == V_OLD(zck->error_state) && __CPROVER_return_value == (zck->error_state == 0))) \
V_ENSURES(zck->comp.type != ZCK_COMP_ZSTD || V_OLD(zck->error_state) > 0 || (zck->comp.data == NULL && zck->comp.data_size == 0)) \
V_ENSURES(zck->comp.type != ZCK_COMP_ZSTD || zck->comp.dc_data == V_OLD(zck->comp.dc_data) || zck->comp.dc_data == NULL || __CPROVER_is_fresh(zck->comp.dc_data, zck->comp.dc_data_size)) \
V_ENSURES(zck->comp.type != ZCK_COMP_ZSTD || !__CPROVER_return_value || (V_OLD(zck->error_state) == 0 && zck->comp.dc_data != NULL && zck->comp.dc_data != V_OLD(zck->comp.dc_data) && zck->comp.dc_data_loc == 0 && zck->comp.dc_data_size == V_OLD(zck->comp.dc_data_size) - V_OLD(zck->comp.dc_data_loc) + fd_size && zck->comp.dc_data_size >= fd_size)) /*@C02.end_dchunk.appends_exactly_the_declared_size*/ \
V_ENSURES(zck->comp.type != ZCK_COMP_ZSTD || __CPROVER_return_value || (zck->comp.dc_data == V_OLD(zck->comp.dc_data) && zck->comp.dc_data_size == V_OLD(zck->comp.dc_data_size) && zck->comp.dc_data_loc == V_OLD(zck->comp.dc_data_loc))) \
V_ENSURES(!__CPROVER_return_value || (V_OLD(zck->error_state) == 0 && zck->error_state == 0)) /*@C12,C15.end_dchunk.never_succeeds_on_a_context_in_error*/
bool verif_end_dchunk(zckCtx *zck, zckComp *comp, const bool use_dict, const size_t fd_size)
CONTRACT_END_DCHUNK
;



/* codec hooks init / close (stand-ins; zstd: create/free the zstd contexts, nocomp: nothing): they touch
 * only the four opaque codec context pointers and the error state */
bool verif_cinit(zckCtx *zck, zckComp *comp)
V_REQUIRES(__CPROVER_rw_ok(zck, sizeof(*zck)) && comp == &zck->comp)
V_ASSIGNS(zck->comp.cctx, zck->comp.dctx, zck->comp.cdict_ctx, zck->comp.ddict_ctx, zck->error_state)
V_ENSURES(!__CPROVER_return_value || V_OLD(zck->error_state) == 0)
V_ENSURES(__CPROVER_return_value ? zck->error_state == V_OLD(zck->error_state) : zck->error_state > 0)
;
bool verif_cclose(zckCtx *zck, zckComp *comp)
V_REQUIRES(__CPROVER_rw_ok(zck, sizeof(*zck)) && comp == &zck->comp)
V_ASSIGNS(zck->comp.cctx, zck->comp.dctx, zck->comp.cdict_ctx, zck->comp.ddict_ctx)
V_ENSURES(__CPROVER_return_value)
;

/* ---- reader state invariant ------------------------------------------------------------------
 * RD_WF(z): what holds between any two API calls on a context opened for reading, phrased over a
 * chunk list of at most three entries (dictionary entry, one inner entry, last entry) — CBMC
 * contracts cannot express the footprint "every node of an unbounded list"; units that use RD_WF
 * are therefore labelled bounded in the list length (every loop is still closed by its contract,
 * for every buffer and chunk size).
 *  - compressed-side buffer `data` holds data_size bytes, all of them part of the data_loc bytes of
 *    the current chunk consumed so far; data_loc never exceeds the chunk's stored size
 *  - decoded-side buffer: DC_WF
 *  - the running chunk hash (when watched by the ghost model) has been fed exactly data_loc bytes
 *  - the file position is the next unread stored byte of the current chunk (C14/C09)            */
#define CHUNK_WF1(z, c) (__CPROVER_rw_ok((c), sizeof(zckChunk)) && (c)->zck == (z) && (c)->digest_size == (z)->chunk_hash_type.digest_size && (c)->digest != NULL && __CPROVER_r_ok((c)->digest, (c)->digest_size))
/* ghost names of the (at most three) list nodes, set by the harness: keeps the contract expressions
 * small (CBMC's dereferencing cost grows steeply with chains like first->next->next->field) */
#define RD_N1(z) g_n1
#define RD_N2(z) g_n2
#define RD_N3(z) g_n3
#define RD_LIST_WF(z) (SPEC_HASH_VALID((z)->chunk_hash_type.type) && (z)->chunk_hash_type.digest_size == SPEC_DIGEST_SIZE((z)->chunk_hash_type.type) && \
    g_n1 != NULL && (z)->index.first == g_n1 && CHUNK_WF1(z, g_n1) && g_n1->start == 0 && g_n1->next == g_n2 && \
    (g_n2 == NULL ? g_n3 == NULL : (CHUNK_WF1(z, g_n2) && g_n2->start == g_n1->start + g_n1->comp_length && g_n2->next == g_n3 && \
     (g_n3 == NULL || (CHUNK_WF1(z, g_n3) && g_n3->start == g_n2->start + g_n2->comp_length && g_n3->next == NULL)))))
#define RD_IN_LIST(z, p) ((p) == NULL || (p) == g_n1 || (p) == g_n2 || (p) == g_n3)
#define RD_VALID_TARGETS(zck) g_n1 != NULL: g_n1->valid; g_n2 != NULL: g_n2->valid; g_n3 != NULL: g_n3->valid
#define RD_HOOKS(z) ((z)->comp.decompress == verif_decompress && (z)->comp.end_dchunk == verif_end_dchunk && (z)->comp.init == verif_cinit && (z)->comp.close == verif_cclose && ((z)->comp.type == ZCK_COMP_NONE || (z)->comp.type == ZCK_COMP_ZSTD))
#define RD_CUR(z) ((z)->comp.data_idx)
#define RD_F(p, f) ((p) == g_n1 ? g_n1->f : (p) == g_n2 ? g_n2->f : g_n3->f)
#define RD_CUR_F(z, f) RD_F(RD_CUR(z), f)
#ifdef VERIF_CTL
#define RD_CUR_CLEN(z) ((z)->comp.data_idx->comp_length)   /* arbitrary list: the current node itself */
#else
#define RD_CUR_CLEN(z) RD_CUR_F(z, comp_length)
#endif
#define RD_NEXT_OF(p) ((p) == g_n1 ? g_n2 : (p) == g_n2 ? g_n3 : (zckChunk *)NULL)
#define RD_STATE_WF(z) (RD_IN_LIST(z, RD_CUR(z)) && DC_WF(&(z)->comp) && DATA_WF(&(z)->comp) && (z)->comp.data_size <= (z)->comp.data_loc && \
    (RD_CUR(z) == NULL ? (z)->comp.data_loc == 0 : (z)->comp.data_loc <= RD_CUR_F(z, comp_length)) && \
    ((z)->check_chunk_hash.type == NULL || (z)->check_chunk_hash.type == &(z)->chunk_hash_type) && ((z)->check_full_hash.type == NULL || (z)->check_full_hash.type == &(z)->hash_type) && \
    /* C02: bytes hashed into the running chunk hash == stored bytes of the chunk consumed so far */ \
    (g_hu_hash != &(z)->check_chunk_hash || RD_CUR(z) == NULL || ((z)->check_chunk_hash.ctx != NULL ? g_hu_total == (z)->comp.data_loc : (z)->comp.data_loc == 0)) && \
    /* C14/C09: the descriptor is positioned at the next unread stored byte of the current chunk */ \
    (RD_CUR(z) == NULL ? ((z)->comp.data_eof != 0 || g_fpos[G_IX((z)->fd)] == (g_off_t)(z)->data_offset) \
                       : g_fpos[G_IX((z)->fd)] == (g_off_t)(z)->data_offset + (g_off_t)RD_CUR_F(z, start) + (g_off_t)(z)->comp.data_loc))
#define RD_WF(z) (RD_LIST_WF(z) && RD_HOOKS(z) && RD_STATE_WF(z))


/* codec hook `decompress` (stand-in called through the function pointer; the real hooks are proved
 * against this contract in units/codec.c): zstd buffers until the chunk ends (no-op), the
 * uncompressed codec moves the compressed-side buffer to the decoded side */
#define CONTRACT_DECOMPRESS \
V_REQUIRES(__CPROVER_rw_ok(zck, sizeof(*zck)) && comp == &zck->comp) \
V_REQUIRES_WF(DC_WF(comp) && DATA_WF(comp) && comp->data != NULL && comp->data_size > 0) \
V_ASSIGNS(zck->comp.data, zck->comp.data_size, zck->comp.dc_data, zck->comp.dc_data_size, zck->comp.dc_data_loc, zck->error_state) \
V_FREES_HOOK(zck->comp.data, zck->comp.dc_data) \
V_ENSURES(zck->comp.type != ZCK_COMP_ZSTD || (zck->comp.data == V_OLD(zck->comp.data) && zck->comp.data_size == V_OLD(zck->comp.data_size) && zck->comp.dc_data == V_OLD(zck->comp.dc_data) && zck->comp.dc_data_size == V_OLD(zck->comp.dc_data_size) && zck->comp.dc_data_loc == V_OLD(zck->comp.dc_data_loc))) \
V_ENSURES(zck->comp.type != ZCK_COMP_ZSTD || __CPROVER_return_value == (zck->error_state == 0)) \
V_ENSURES(zck->comp.type == ZCK_COMP_ZSTD || zck->comp.dc_data == V_OLD(zck->comp.dc_data) || zck->comp.dc_data == NULL || __CPROVER_is_fresh(zck->comp.dc_data, zck->comp.dc_data_size)) \
V_ENSURES(zck->comp.type == ZCK_COMP_ZSTD || !__CPROVER_return_value || (zck->comp.data == NULL && zck->comp.data_size == 0 && zck->comp.dc_data != NULL && zck->comp.dc_data_loc == 0 && zck->comp.dc_data_size == V_OLD(zck->comp.dc_data_size) - V_OLD(zck->comp.dc_data_loc) + V_OLD(zck->comp.data_size) && zck->comp.dc_data_size >= V_OLD(zck->comp.data_size))) \
V_ENSURES(zck->comp.type == ZCK_COMP_ZSTD || __CPROVER_return_value || zck->error_state > 0 || zck->comp.dc_data_loc <= zck->comp.dc_data_size) \
V_ENSURES(!__CPROVER_return_value || (V_OLD(zck->error_state) == 0 && zck->error_state == 0)) /*@C12,C15.decompress.never_succeeds_on_a_context_in_error*/
bool verif_decompress(zckCtx *zck, zckComp *comp, const bool use_dict)
CONTRACT_DECOMPRESS
;

/* comp_add_to_dc: drops the already-read part of the decoded buffer and appends src (content
 * preservation is asserted by its harness with ghost indices) */
bool comp_add_to_dc(zckCtx *zck, zckComp *comp, const char *src, size_t src_size)
V_REQUIRES(__CPROVER_rw_ok(zck, sizeof(*zck)) && comp == &zck->comp && DC_WF(comp))
V_REQUIRES(src == NULL || src_size == 0 || __CPROVER_r_ok(src, src_size))
V_ASSIGNS(zck->comp.dc_data, zck->comp.dc_data_size, zck->comp.dc_data_loc, zck->error_state)
V_FREES(zck->comp.dc_data)
V_ENSURES(!__CPROVER_return_value || (V_OLD(zck->error_state) == 0 && src != NULL)) /*@C03.comp_add_to_dc.succeeds_only_if_usable*/   /* may also fail for lack of memory */
V_ENSURES(!__CPROVER_return_value || (__CPROVER_is_fresh(zck->comp.dc_data, zck->comp.dc_data_size) && zck->comp.dc_data_loc == 0 && zck->comp.dc_data_size == V_OLD(zck->comp.dc_data_size) - V_OLD(zck->comp.dc_data_loc) + src_size && zck->comp.dc_data_size >= src_size)) /*@C02,C03.comp_add_to_dc.unread_plus_new*/
V_ENSURES(__CPROVER_return_value || (zck->comp.dc_data == V_OLD(zck->comp.dc_data) && zck->comp.dc_data_size == V_OLD(zck->comp.dc_data_size) && zck->comp.dc_data_loc == V_OLD(zck->comp.dc_data_loc))) /*@C03.comp_add_to_dc.untouched_on_failure*/
V_ENSURES(!__CPROVER_return_value || zck->error_state == 0) /*@C12.comp_add_to_dc.success_leaves_no_error*/
;

static size_t comp_read_from_dc(zckCtx *zck, zckComp *comp, char *dst, size_t dst_size)
V_REQUIRES(__CPROVER_rw_ok(zck, sizeof(*zck)) && comp == &zck->comp)
V_REQUIRES_WF(DC_WF(comp))
V_REQUIRES(dst == NULL || dst_size == 0 || __CPROVER_w_ok(dst, dst_size))
V_ASSIGNS(zck->comp.dc_data_loc, zck->error_state; dst != NULL && dst_size > 0: __CPROVER_object_upto(dst, dst_size))
V_ENSURES((V_OLD(zck->error_state) > 0 || dst == NULL) ? (__CPROVER_return_value == (size_t)-1 && zck->comp.dc_data_loc == V_OLD(zck->comp.dc_data_loc)) : (__CPROVER_return_value == (dst_size < (V_OLD(zck->comp.dc_data_size) - V_OLD(zck->comp.dc_data_loc)) ? dst_size : (V_OLD(zck->comp.dc_data_size) - V_OLD(zck->comp.dc_data_loc))) && zck->comp.dc_data_loc == V_OLD(zck->comp.dc_data_loc) + __CPROVER_return_value)) /*@C03,C02.comp_read_from_dc.hands_out_min_of_request_and_buffered*/
V_ENSURES(V_OLD(zck->error_state) > 0 || dst == NULL || zck->error_state == V_OLD(zck->error_state))
;

static bool comp_add_to_data(zckCtx *zck, zckComp *comp, const char *src, size_t src_size)
V_REQUIRES(__CPROVER_rw_ok(zck, sizeof(*zck)) && comp == &zck->comp)
V_REQUIRES_WF(DATA_WF(comp))
V_REQUIRES(src == NULL || src_size == 0 || __CPROVER_r_ok(src, src_size))
V_ASSIGNS(zck->comp.data, zck->comp.data_size, zck->comp.data_loc, zck->error_state)
V_FREES_CALLEE(zck->comp.data)
V_ENSURES(!__CPROVER_return_value || (V_OLD(zck->error_state) == 0 && zck->error_state == 0 && src != NULL && zck->comp.data_size == V_OLD(zck->comp.data_size) + src_size && zck->comp.data_size >= src_size && zck->comp.data_size > 0 && zck->comp.data_loc == V_OLD(zck->comp.data_loc) + src_size)) /*@C02,C03.comp_add_to_data.appends_exactly_the_bytes_given*/
V_ENSURES(!__CPROVER_return_value || __CPROVER_is_fresh(zck->comp.data, zck->comp.data_size)) /*@C03.comp_add_to_data.buffer_holds_data_size_bytes*/
;

#ifdef VERIF_CTL
#define RD_START_OF(ix) ((ix)->start)
#define RD_DICT_LEN(z) ((z)->index.first->length)
#else
#define RD_START_OF(ix) RD_F(ix, start)
#define RD_DICT_LEN(z) (g_n1->length)
#endif
/* scalar part of the decoded-buffer invariant (part of RD_WF, kept in control-only units) */
#define RD_DC_SCALAR(z) (((z)->comp.dc_data != NULL || (z)->comp.dc_data_size == 0) && (z)->comp.dc_data_loc <= (z)->comp.dc_data_size)
/* what the control-only units keep of the reader invariant: the codec hooks are the contract-bearing
 * stand-ins, the two running hashes are closed or typed with the context's own checksum types, and no stored
 * byte has been consumed while no chunk is current (all three are parts of RD_WF) */
#define RD_HASH_TYPES(z) (((z)->check_chunk_hash.type == NULL || (z)->check_chunk_hash.type == &(z)->chunk_hash_type) && ((z)->check_full_hash.type == NULL || (z)->check_full_hash.type == &(z)->hash_type))
#define RD_CTL(z) (RD_HOOKS(z) && RD_HASH_TYPES(z) && ((z)->comp.data_idx != NULL || (z)->comp.data_loc == 0))

bool import_dict(zckCtx *zck)
V_REQUIRES(__CPROVER_rw_ok(zck, sizeof(*zck)))
V_REQUIRES_WF(RD_WF(zck))
V_ASSIGNS(zck->comp, zck->check_chunk_hash.type, zck->check_chunk_hash.ctx, zck->error_state, g_hu_total, g_hu_seen, g_hu_ptr, g_hu_final, g_hu_inits, g_fin_val, g_fin_total, g_fin_seen, g_fin_ptr, g_fpos, g_rd_bytes, g_io_failed, g_last_read, g_watch_seen, g_watch_val; RD_VALID_TARGETS(zck))
V_ENSURES(!__CPROVER_return_value || (V_OLD(zck->error_state) == 0 && zck->error_state == 0)) /*@C12.import_dict.never_succeeds_with_an_error*/
V_ENSURES(!__CPROVER_return_value || RD_DICT_LEN(zck) == 0 || (zck->comp.dict != NULL && zck->comp.dict_size == RD_DICT_LEN(zck) && zck->comp.started != 0)) /*@C14.import_dict.dictionary_loaded*/
V_ENSURES_CTL(!__CPROVER_return_value || RD_DC_SCALAR(zck))
V_ENSURES_WF(!__CPROVER_return_value || (RD_HOOKS(zck) && RD_STATE_WF(zck))) /*@C14.import_dict.keeps_reader_invariant*/
V_ENSURES(!__CPROVER_return_value || RD_CTL(zck)) /*@C14.import_dict.keeps_hooks_and_hash_types*/
/* control-only units: the buffers the context owns after a successful import are separate heap objects (or absent) -- the
 * ownership part of RD_WF, which cannot be carried through the havoc of a replaced callee as a validity predicate */
V_ENSURES_CTL(!__CPROVER_return_value || zck->comp.data == NULL || __CPROVER_is_fresh(zck->comp.data, 1))
V_ENSURES_CTL(!__CPROVER_return_value || zck->comp.dc_data == NULL || __CPROVER_is_fresh(zck->comp.dc_data, 1))
V_ENSURES_CTL(!__CPROVER_return_value || zck->comp.dict == NULL || __CPROVER_is_fresh(zck->comp.dict, 1))
V_ENSURES_CTL(!__CPROVER_return_value || zck->check_chunk_hash.ctx == NULL || __CPROVER_is_fresh(zck->check_chunk_hash.ctx, 1))
V_ENSURES(!__CPROVER_return_value || g_hu_hash != &zck->check_full_hash || (g_hu_final == V_OLD(g_hu_final) && (zck->has_uncompressed_source != 0 || g_hu_total - V_OLD(g_hu_total) == g_rd_bytes[G_IX(zck->fd)] - V_OLD(g_rd_bytes[G_IX(zck->fd)])))) /*@C02.import_dict.every_byte_read_is_fed_to_the_data_checksum*/
;

/* C14: the state in which comp_read must be entered by a random-access request for chunk g_canon_idx:
 * nothing left over from earlier requests (no buffered stored or decoded bytes, position inside the
 * chunk 0, end-of-data flag clear, running chunk hash empty), the descriptor at the first stored
 * byte of the chunk, the dictionary loaded if the file has one.  Checked at the call site only
 * in units that set g_canon_on. */
#ifdef VERIF_CANON
#define V_REQUIRES_CANON(x) V_REQUIRES(x)
#else
#define V_REQUIRES_CANON(x)
#endif
#define RD_CANON(z, ix) ((z)->comp.data == NULL && (z)->comp.data_size == 0 && (z)->comp.data_loc == 0 && (z)->comp.data_eof == 0 && \
    (z)->comp.dc_data_size == (z)->comp.dc_data_loc && (z)->comp.data_idx == (ix) && (z)->comp.started != 0 && \
    ((z)->check_chunk_hash.ctx == NULL || g_hu_hash != &(z)->check_chunk_hash || g_hu_total == 0) && \
    g_fpos[G_IX((z)->fd)] == (g_off_t)(z)->data_offset + (g_off_t)RD_START_OF(ix) && (RD_DICT_LEN(z) == 0 || (z)->comp.dict != NULL))

/* comp_read: the reader's main loop.  Ghost accounting (C02): the whole-data hash is fed exactly the
 * bytes read from the descriptor in this call (unless the file carries the uncompressed-source flag, for
 * which the format defines no data checksum); the running chunk hash is fed exactly the stored bytes
 * of the current chunk (part of RD_WF).  C15/C12: no success value once an error arose. */
ssize_t comp_read(zckCtx *zck, char *dst, size_t dst_size, bool use_dict)
V_REQUIRES(__CPROVER_rw_ok(zck, sizeof(*zck)))
V_REQUIRES(RD_HOOKS(zck))
V_REQUIRES(RD_HASH_TYPES(zck))
V_REQUIRES(zck->comp.data_idx != NULL || zck->comp.data_loc == 0)
V_REQUIRES_WF(RD_WF(zck))
V_REQUIRES(dst != NULL && (dst_size == 0 || __CPROVER_w_ok(dst, dst_size)))   /* every caller passes a buffer (zck_read checks, import_dict allocates) */
V_REQUIRES_CANON(zck->comp.data == NULL && zck->comp.data_size == 0 && zck->comp.data_loc == 0 && zck->comp.data_eof == 0) /*@C14.comp_read.canonical_no_stored_bytes_no_position_no_eof*/
V_REQUIRES_CANON(zck->comp.dc_data_size == zck->comp.dc_data_loc) /*@C14.comp_read.canonical_no_decoded_bytes_left*/
V_REQUIRES_CANON(zck->comp.data_idx == g_canon_idx && zck->comp.started != 0) /*@C14.comp_read.canonical_cursor_is_the_requested_chunk*/
V_REQUIRES_CANON(zck->check_chunk_hash.ctx == NULL || g_hu_hash != &zck->check_chunk_hash || g_hu_total == 0) /*@C14.comp_read.canonical_chunk_hash_empty*/
V_REQUIRES_CANON(g_fpos[G_IX(zck->fd)] == (g_off_t)zck->data_offset + (g_off_t)RD_START_OF(g_canon_idx)) /*@C14.comp_read.canonical_descriptor_at_chunk_start*/
V_REQUIRES_CANON(RD_DICT_LEN(zck) == 0 || zck->comp.dict != NULL) /*@C14.comp_read.canonical_dictionary_loaded*/   /* only in units compiled with -DVERIF_CANON (the random-access units) */
V_ASSIGNS(zck->comp, zck->check_chunk_hash.type, zck->check_chunk_hash.ctx, zck->error_state, g_hu_total, g_hu_seen, g_hu_ptr, g_hu_final, g_hu_inits, g_fin_val, g_fin_total, g_fin_seen, g_fin_ptr, g_fpos, g_rd_bytes, g_io_failed, g_last_read, g_watch_seen, g_watch_val; dst != NULL && dst_size > 0: __CPROVER_object_upto(dst, dst_size); RD_VALID_TARGETS(zck))
V_ENSURES(__CPROVER_return_value >= -2 && (__CPROVER_return_value < 0 || (size_t)__CPROVER_return_value <= dst_size)) /*@C03,C02.comp_read.never_more_than_asked*/
V_ENSURES(__CPROVER_return_value < 0 || (V_OLD(zck->error_state) == 0 && zck->error_state == 0 && zck->mode == ZCK_MODE_READ)) /*@C15,C02,C12.comp_read.no_success_once_an_error_arose*/
V_ENSURES_WF(__CPROVER_return_value < 0 || (RD_HOOKS(zck) && RD_STATE_WF(zck))) /*@C02,C14,C03.comp_read.keeps_reader_invariant*/
V_ENSURES(__CPROVER_return_value < 0 || g_hu_hash != &zck->check_full_hash || zck->has_uncompressed_source != 0 || g_hu_total - V_OLD(g_hu_total) == g_rd_bytes[G_IX(zck->fd)] - V_OLD(g_rd_bytes[G_IX(zck->fd)])) /*@C02.comp_read.every_byte_read_is_fed_to_the_data_checksum*/
V_ENSURES(__CPROVER_return_value < 0 || g_hu_hash != &zck->check_full_hash || g_hu_final == V_OLD(g_hu_final)) /*@C02.comp_read.data_checksum_not_finalised_by_reads*/
V_ENSURES_WF(__CPROVER_return_value < 0 || !use_dict || dst_size == 0 || g_n1->length == 0 || zck->comp.dict != NULL) /*@C14.comp_read.dictionary_loaded_before_any_dictionary_read*/
;

/* ---- random access (C14) --------------------------------------------------------------------- */
/* API-level invariant on top of RD_WF: the data section starts right after the header, and a reader
 * that has not loaded the file's dictionary yet has not consumed anything */
#define RD_API(z) ((z)->data_offset == (z)->lead_size + (z)->header_length && (z)->lead_size + (z)->header_length >= (z)->lead_size && \
    (RD_DICT_LEN(z) == 0 || (z)->comp.dict != NULL || ((z)->comp.data_idx == NULL && (z)->comp.data_loc == 0 && (z)->comp.data_size == 0 && (z)->comp.dc_data_size == (z)->comp.dc_data_loc)))

/* the context of a random-access request: in control-only units simply the chunk's own context (any
 * list), otherwise the context the named list hangs off */
#ifdef VERIF_CTL
#define GCD_Z(idx) ((idx)->zck)
#else
#define GCD_Z(idx) (g_n1->zck)
#endif
ssize_t zck_get_chunk_data(zckChunk *idx, char *dst, size_t dst_size)
V_REQUIRES(idx != NULL && __CPROVER_rw_ok(idx, sizeof(*idx)) && idx->zck != NULL && __CPROVER_rw_ok(idx->zck, sizeof(zckCtx)))
V_REQUIRES_WF((idx == g_n1 || idx == g_n2 || idx == g_n3) && g_n1 != NULL && idx->zck == g_n1->zck)
V_REQUIRES_WF(RD_WF(g_n1->zck))
V_REQUIRES(GCD_Z(idx)->mode == ZCK_MODE_READ)   /* the property is about contexts opened for reading (a writer context is refused by comp_read) */
V_REQUIRES(RD_CTL(GCD_Z(idx)) && RD_API(GCD_Z(idx)) && RD_DC_SCALAR(GCD_Z(idx)))
V_REQUIRES(RD_DICT_LEN(GCD_Z(idx)) <= (size_t)SSIZE_MAX)   /* C14 speaks about valid files: a dictionary of 2^63 bytes or more does not exist (the getter reports sizes as ssize_t) */
V_REQUIRES(dst == NULL || dst_size == 0 || __CPROVER_w_ok(dst, dst_size))
V_ASSIGNS(GCD_Z(idx)->comp, GCD_Z(idx)->check_chunk_hash.type, GCD_Z(idx)->check_chunk_hash.ctx, GCD_Z(idx)->error_state, g_hu_total, g_hu_seen, g_hu_ptr, g_hu_final, g_hu_inits, g_fin_val, g_fin_total, g_fin_seen, g_fin_ptr, g_fpos, g_rd_bytes, g_io_failed, g_last_read, g_watch_seen, g_watch_val; dst != NULL && dst_size > 0: __CPROVER_object_upto(dst, dst_size); RD_VALID_TARGETS(zck))
V_FREES(GCD_Z(idx)->comp.data, GCD_Z(idx)->comp.dc_data, GCD_Z(idx)->check_chunk_hash.ctx)
V_ENSURES(__CPROVER_return_value >= -2 && (__CPROVER_return_value < 0 || (size_t)__CPROVER_return_value <= dst_size)) /*@C03,C14.zck_get_chunk_data.never_more_than_asked*/
V_ENSURES(__CPROVER_return_value < 0 || (size_t)__CPROVER_return_value <= idx->length) /*@C14.zck_get_chunk_data.at_most_the_declared_size*/
V_ENSURES(__CPROVER_return_value <= 0 || (V_OLD(GCD_Z(idx)->error_state) == 0 && GCD_Z(idx)->error_state == 0)) /*@C14,C12.zck_get_chunk_data.no_success_once_an_error_arose*/
;

/* stored (compressed) bytes of one chunk: exactly the bytes of the chunk's extent, never bytes of the
 * following chunk, whatever the buffer size; decoder state untouched */
ssize_t zck_get_chunk_comp_data(zckChunk *idx, char *dst, size_t dst_size)
V_REQUIRES(idx != NULL && (idx == g_n1 || idx == g_n2 || idx == g_n3) && g_n1 != NULL && __CPROVER_rw_ok(g_n1->zck, sizeof(zckCtx)) && idx->zck == g_n1->zck)
V_REQUIRES(RD_LIST_WF(g_n1->zck) && RD_API(g_n1->zck))
V_REQUIRES(dst == NULL || dst_size == 0 || __CPROVER_w_ok(dst, dst_size))
V_ASSIGNS(g_n1->zck->error_state, g_fpos, g_rd_bytes, g_io_failed, g_last_read, g_watch_seen, g_watch_val; dst != NULL && dst_size > 0: __CPROVER_object_upto(dst, dst_size))
V_ENSURES(__CPROVER_return_value >= -1 && (__CPROVER_return_value < 0 || ((size_t)__CPROVER_return_value <= dst_size && (size_t)__CPROVER_return_value <= idx->comp_length))) /*@C14.zck_get_chunk_comp_data.never_beyond_the_chunk*/
V_ENSURES(__CPROVER_return_value <= 0 || g_fpos[G_IX(g_n1->zck->fd)] == (g_off_t)g_n1->zck->data_offset + (g_off_t)idx->start + (g_off_t)__CPROVER_return_value) /*@C14.zck_get_chunk_comp_data.reads_from_the_chunk_start*/
V_ENSURES(__CPROVER_return_value < 0 || (V_OLD(g_n1->zck->error_state) == 0 && g_n1->zck->error_state == 0)) /*@C12.zck_get_chunk_comp_data.no_success_once_an_error_arose*/
;

/* C15/C02: the end of a chunk is accepted (>= 1) only after the bytes fed to the chunk hash since its
 * last init were finalised and found equal to the index digest; on any other outcome the context is
 * put into the sticky (fatal) error state so that no later read can release the chunk's data.
 * Watched hash: &zck->check_chunk_hash. */
static ssize_t comp_end_dchunk(zckCtx *zck, bool use_dict, size_t fd_size)
V_REQUIRES(__CPROVER_rw_ok(zck, sizeof(*zck)))
V_REQUIRES(zck->comp.data_idx != NULL)
V_REQUIRES_WF(RD_LIST_WF(zck) && RD_IN_LIST(zck, zck->comp.data_idx))
V_REQUIRES(zck->check_chunk_hash.type == NULL || zck->check_chunk_hash.type == &zck->chunk_hash_type)
/* C02/C09: a chunk's end is processed only when exactly its stored size has been consumed and hashed */
V_REQUIRES_WF(zck->comp.data_loc == RD_CUR_F(zck, comp_length)) /*@C02.comp_end_dchunk.requires_whole_chunk_consumed*/   /* needs a dereferenceable cursor: not expressible after the loop havoc of a control-only unit */
V_REQUIRES_WF(g_hu_hash != &zck->check_chunk_hash || zck->check_chunk_hash.ctx == NULL || g_hu_total == RD_CUR_F(zck, comp_length))
V_REQUIRES(zck->comp.end_dchunk == verif_end_dchunk)
V_REQUIRES_WF(DC_WF(&zck->comp) && DATA_WF(&zck->comp))
/* a streaming codec has already moved every buffered stored byte to the decoded side (its decompress hook ran) */
V_REQUIRES_WF(zck->comp.type == ZCK_COMP_ZSTD || zck->comp.data_size == 0)
V_ASSIGNS(zck->comp.data, zck->comp.data_size, zck->comp.dc_data, zck->comp.dc_data_size, zck->comp.dc_data_loc, zck->comp.data_loc, zck->comp.data_idx, zck->check_chunk_hash.type, zck->check_chunk_hash.ctx, zck->error_state, g_hu_total, g_hu_seen, g_hu_ptr, g_hu_final, g_hu_inits, g_fin_val, g_fin_total, g_fin_seen, g_fin_ptr; zck->comp.data_idx == g_n1 && g_n1 != NULL: g_n1->valid; zck->comp.data_idx == g_n2 && g_n2 != NULL: g_n2->valid; zck->comp.data_idx == g_n3 && g_n3 != NULL: g_n3->valid)
V_FREES_CALLEE(zck->comp.dc_data, zck->comp.data, zck->check_chunk_hash.ctx)
V_ENSURES(__CPROVER_return_value < 1 || g_hu_hash != &zck->check_chunk_hash || (g_hu_final == V_OLD(g_hu_final) + 1 && g_fin_total == V_OLD(g_hu_total) && g_fin_seen == V_OLD(g_hu_seen))) /*@C15,C02.comp_end_dchunk.accepted_only_after_the_chunk_hash_was_finalised_over_all_its_bytes*/
V_ENSURES_WF(__CPROVER_return_value < 1 || g_hu_hash != &zck->check_chunk_hash || RD_F(V_OLD(zck->comp.data_idx), comp_length) == 0 || !(g_k1 < (size_t)RD_F(V_OLD(zck->comp.data_idx), digest_size)) || g_fin_val == RD_F(V_OLD(zck->comp.data_idx), digest)[g_k1]) /*@C15,C02.comp_end_dchunk.accepted_only_if_every_digest_byte_equal*/
V_ENSURES(__CPROVER_return_value >= 1 || zck->error_state == 2 || ((V_OLD(zck->error_state) > 0 || zck->mode != ZCK_MODE_READ) && zck->error_state > 0)) /*@C15,C02.comp_end_dchunk.rejected_chunk_leaves_sticky_error*/
V_ENSURES_WF(__CPROVER_return_value < 1 || (zck->comp.data_idx == RD_NEXT_OF(V_OLD(zck->comp.data_idx)) && zck->comp.data_loc == 0 && zck->check_chunk_hash.ctx != NULL && zck->check_chunk_hash.type == &zck->chunk_hash_type)) /*@C02,C14.comp_end_dchunk.advances_to_next_chunk_with_fresh_hash*/
V_ENSURES(__CPROVER_return_value < 1 || (zck->comp.data_loc == 0 && zck->check_chunk_hash.ctx != NULL && zck->check_chunk_hash.type == &zck->chunk_hash_type)) /*@C02.comp_end_dchunk.next_chunk_starts_at_zero_with_fresh_hash*/
/* control-only units (no named list): the cursor moves to NULL or to SOME chunk record that is a valid object distinct from
 * everything else in sight -- the one-step unfolding of 'the index is a list of distinct allocated records' (assumed there;
 * the enforcing unit proves the exact successor, clause advances_to_next_chunk_with_fresh_hash) */
V_ENSURES_CTL(__CPROVER_return_value < 1 || zck->comp.data_idx == NULL || __CPROVER_is_fresh(zck->comp.data_idx, sizeof(zckChunk)))
V_ENSURES(__CPROVER_return_value < 1 || (V_OLD(zck->error_state) == 0 && zck->error_state == 0)) /*@C12.comp_end_dchunk.never_succeeds_on_a_context_in_error*/
V_ENSURES(g_hu_hash == &zck->check_chunk_hash || (g_hu_total == V_OLD(g_hu_total) && g_hu_seen == V_OLD(g_hu_seen) && g_hu_ptr == V_OLD(g_hu_ptr) && g_hu_final == V_OLD(g_hu_final) && g_hu_inits == V_OLD(g_hu_inits))) /*@C02.comp_end_dchunk.other_hash_untouched*/
V_ENSURES(zck->comp.dc_data_loc <= zck->comp.dc_data_size) /*@C03.comp_end_dchunk.dc_buffer_cursor_inside*/
V_ENSURES(__CPROVER_return_value < 1 || g_hu_hash != &zck->check_chunk_hash || g_hu_total == 0) /*@C02.comp_end_dchunk.next_chunk_starts_with_empty_hash*/
V_ENSURES_WF(__CPROVER_return_value < 1 || (DC_WF(&zck->comp) && DATA_WF(&zck->comp) && zck->comp.data_size == 0)) /*@C03.comp_end_dchunk.buffers_consistent*/
;
#endif
