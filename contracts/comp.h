/* Contracts for src/lib/comp/comp.c */
#ifndef CONTRACTS_COMP_H
#define CONTRACTS_COMP_H
#include "spec/ghost.h"

/* comp_ioption as used by the header parser (option == ZCK_COMP_TYPE) and by the option setters */
bool comp_ioption(zckCtx *zck, zck_ioption option, ssize_t value)
V_REQUIRES(__CPROVER_rw_ok(zck, sizeof(*zck)))
V_ASSIGNS(zck->comp, zck->manual_chunk, zck->chunk_min_size, zck->chunk_max_size, zck->error_state)
V_ENSURES(!__CPROVER_return_value || option != ZCK_COMP_TYPE || ((value == ZCK_COMP_NONE || value == ZCK_COMP_ZSTD) && zck->comp.type == (uint8_t)value && zck->comp.started == 0 && zck->comp.init != NULL)) /*@C13,C03.comp_ioption.type_set_and_supported*/
V_ENSURES(!__CPROVER_return_value || V_OLD(zck->error_state) == 0) /*@C03.comp_ioption.needs_clean_ctx*/
;

/* comp_init in READ mode (temp_fd == 0, no_write == 0): starts the decoder, keeps its type */
bool comp_init(zckCtx *zck)
V_REQUIRES(__CPROVER_rw_ok(zck, sizeof(*zck)))
V_ASSIGNS(zck->comp, zck->chunk_min_size, zck->chunk_max_size, zck->buzhash_width, zck->buzhash_match_bits, zck->buzhash_bitmask, zck->chunk_auto_min, zck->chunk_auto_max, zck->error_state)
V_ENSURES(zck->comp.type == V_OLD(zck->comp.type)) /*@C13.comp_init.keeps_type*/
V_ENSURES(!__CPROVER_return_value || zck->comp.started != 0) /*@C03.comp_init.started*/
V_ENSURES(!__CPROVER_return_value || V_OLD(zck->error_state) == 0) /*@C03.comp_init.needs_clean_ctx*/
;

/* ---- reader side ------------------------------------------------------------------------- */
/* decoder buffer invariant */
#define DC_WF(c) ((c)->dc_data_loc <= (c)->dc_data_size && ((c)->dc_data == NULL ? (c)->dc_data_size == 0 : __CPROVER_rw_ok((c)->dc_data, (c)->dc_data_size)))

/* assumed contract of a codec's end-of-chunk hook (zstd: proved against this in units/zstd.c with
 * the ZSTD_* calls by contract; nocomp: units/nocomp.c).  It may append decoded bytes to dc_data. */
bool verif_end_dchunk(zckCtx *zck, zckComp *comp, const bool use_dict, const size_t fd_size)
V_REQUIRES(__CPROVER_rw_ok(zck, sizeof(*zck)) && comp == &zck->comp)
V_ASSIGNS(zck->comp.data, zck->comp.data_size, zck->comp.dc_data, zck->comp.dc_data_size, zck->comp.dc_data_loc, zck->error_state)
/* (the stand-in does not free the old buffers: a leak in the model only; the real hooks' own units check their frees) */
V_ENSURES(zck->comp.dc_data == NULL || __CPROVER_is_fresh(zck->comp.dc_data, zck->comp.dc_data_size))
V_ENSURES(zck->comp.dc_data != NULL || zck->comp.dc_data_size == 0)
V_ENSURES(zck->comp.dc_data_loc <= zck->comp.dc_data_size)
V_ENSURES(__CPROVER_return_value || V_OLD(zck->error_state) > 0 || zck->error_state >= 0)
;

/* C15/C02: the end of a chunk is accepted (>= 1) only after the bytes fed to the chunk hash since its
 * last init were finalised and found equal to the index digest; on any other outcome the context is
 * put into the sticky (fatal) error state so that no later read can release the chunk's data.
 * Watched hash: &zck->check_chunk_hash. */
static ssize_t comp_end_dchunk(zckCtx *zck, bool use_dict, size_t fd_size)
V_REQUIRES(__CPROVER_rw_ok(zck, sizeof(*zck)))
V_REQUIRES(zck->comp.data_idx != NULL && CHUNK_WF(zck->comp.data_idx) && zck->comp.data_idx->zck == zck)
V_REQUIRES(zck->comp.data_idx->next == NULL || __CPROVER_rw_ok(zck->comp.data_idx->next, sizeof(zckChunk)))
V_REQUIRES(CHUNK_HASH_WF(zck) && g_hu_hash == &zck->check_chunk_hash)
V_REQUIRES(zck->comp.end_dchunk == verif_end_dchunk)
V_ASSIGNS(zck->comp.data, zck->comp.data_size, zck->comp.dc_data, zck->comp.dc_data_size, zck->comp.dc_data_loc, zck->comp.data_loc, zck->comp.data_idx, zck->comp.data_idx->valid, zck->check_chunk_hash.type, zck->check_chunk_hash.ctx, zck->error_state, g_hu_total, g_hu_seen, g_hu_ptr, g_hu_final, g_hu_inits, g_fin_val, g_fin_total, g_fin_seen, g_fin_ptr)
V_FREES(zck->comp.dc_data, zck->check_chunk_hash.ctx)
V_ENSURES(__CPROVER_return_value < 1 || (g_hu_final == V_OLD(g_hu_final) + 1 && g_fin_total == V_OLD(g_hu_total) && g_fin_seen == V_OLD(g_hu_seen))) /*@C15,C02.comp_end_dchunk.accepted_only_after_the_chunk_hash_was_finalised_over_all_its_bytes*/
V_ENSURES(__CPROVER_return_value < 1 || V_OLD(zck->comp.data_idx)->comp_length == 0 || !(g_k1 < (size_t)V_OLD(zck->comp.data_idx)->digest_size) || g_fin_val == V_OLD(zck->comp.data_idx)->digest[g_k1]) /*@C15,C02.comp_end_dchunk.accepted_only_if_every_digest_byte_equal*/
V_ENSURES(__CPROVER_return_value >= 1 || zck->error_state == 2 || ((V_OLD(zck->error_state) > 0 || zck->mode != ZCK_MODE_READ) && zck->error_state > 0)) /*@C15,C02.comp_end_dchunk.rejected_chunk_leaves_sticky_error*/
V_ENSURES(__CPROVER_return_value < 1 || (zck->comp.data_idx == V_OLD(zck->comp.data_idx)->next && zck->comp.data_loc == 0 && zck->check_chunk_hash.ctx != NULL && zck->check_chunk_hash.type == &zck->chunk_hash_type)) /*@C02,C14.comp_end_dchunk.advances_to_next_chunk_with_fresh_hash*/
V_ENSURES(__CPROVER_return_value < 1 || V_OLD(zck->error_state) == 0) /*@C12.comp_end_dchunk.never_succeeds_on_a_context_in_error*/
V_ENSURES(zck->comp.dc_data_loc <= zck->comp.dc_data_size) /*@C03.comp_end_dchunk.dc_buffer_cursor_inside*/
;
#endif
