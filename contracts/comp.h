/* Contracts for src/lib/comp/comp.c */
#ifndef CONTRACTS_COMP_H
#define CONTRACTS_COMP_H
#include "spec/ghost.h"

/* comp_ioption as used by the header parser (option == ZCK_COMP_TYPE) and by the option setters */
bool comp_ioption(zckCtx *zck, zck_ioption option, ssize_t value)
V_REQUIRES(__CPROVER_rw_ok(zck, sizeof(*zck)))
V_ASSIGNS(zck->comp, zck->manual_chunk, zck->chunk_min_size, zck->chunk_max_size, zck->error_state)
V_ENSURES(!__CPROVER_return_value || option != ZCK_COMP_TYPE || ((value == ZCK_COMP_NONE || value == ZCK_COMP_ZSTD) && zck->comp.type == (uint8_t)value && zck->comp.started == 0 && zck->comp.init != NULL)) /*@C13,C03.comp_ioption.type_set_and_supported*/
V_ENSURES(!__CPROVER_return_value || V_OLD(zck->error_state) == 0) /*@C03.comp_ioption.needs_clean_ctx*/
;

/* comp_init in READ mode (temp_fd == 0, no_write == 0): starts the decoder, keeps its type */
bool comp_init(zckCtx *zck)
V_REQUIRES(__CPROVER_rw_ok(zck, sizeof(*zck)))
V_ASSIGNS(zck->comp, zck->chunk_min_size, zck->chunk_max_size, zck->buzhash_width, zck->buzhash_match_bits, zck->buzhash_bitmask, zck->chunk_auto_min, zck->chunk_auto_max, zck->error_state)
V_ENSURES(zck->comp.type == V_OLD(zck->comp.type)) /*@C13.comp_init.keeps_type*/
V_ENSURES(!__CPROVER_return_value || zck->comp.started != 0) /*@C03.comp_init.started*/
V_ENSURES(!__CPROVER_return_value || V_OLD(zck->error_state) == 0) /*@C03.comp_init.needs_clean_ctx*/
;
#endif
