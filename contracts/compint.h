/* Contracts for src/lib/compint.c, attached to declarations (merged by CBMC with the real
 * definitions).  Top-level postconditions are taken from property C20. */
#ifndef CONTRACTS_COMPINT_H
#define CONTRACTS_COMPINT_H
#include "spec/spec_compint.h"

/* contexts are never NULL at the library-internal call sites; the VALIDATE_* NULL branch is
 * defensive code outside the contracts */
#define ZCK_OK_OLD(z) (V_OLD((z)->error_state) == 0)
/* bytes available to the decoder: the callers pass (header+off, &off, total) */
#define CI_AVAIL(len, max) ((max) - (len))

int compint_to_size(zckCtx *zck, size_t *val, const char *compint, size_t *length,
                    size_t max_length)
V_REQUIRES(__CPROVER_rw_ok(zck, sizeof(*zck)))
V_REQUIRES(__CPROVER_rw_ok(val, sizeof(*val)) && __CPROVER_rw_ok(length, sizeof(*length)))
V_REQUIRES(*length <= max_length)
V_REQUIRES(__CPROVER_r_ok(compint, CI_AVAIL(*length, max_length)))
V_ASSIGNS(*val, *length, zck->error_state)
V_ENSURES(__CPROVER_return_value == 0 || __CPROVER_return_value == 1) /*@C20.to_size.ret01*/
V_ENSURES((__CPROVER_return_value == 1) == (ZCK_OK_OLD(zck) && SPEC_CI_LEN(compint, CI_AVAIL(V_OLD(*length), max_length)) >= 1 && SPEC_CI_FITS64(compint, SPEC_CI_LEN(compint, CI_AVAIL(V_OLD(*length), max_length))))) /*@C20.to_size.accept_iff_valid*/
V_ENSURES(__CPROVER_return_value != 1 || *val == (size_t)SPEC_CI_VAL(compint, SPEC_CI_LEN(compint, CI_AVAIL(V_OLD(*length), max_length)))) /*@C20.to_size.value*/
V_ENSURES(__CPROVER_return_value != 1 || *length == V_OLD(*length) + SPEC_CI_LEN(compint, CI_AVAIL(V_OLD(*length), max_length))) /*@C20.to_size.length*/
;

int compint_to_int(zckCtx *zck, int *val, const char *compint, size_t *length,
                   size_t max_length)
V_REQUIRES(__CPROVER_rw_ok(zck, sizeof(*zck)))
V_REQUIRES(__CPROVER_rw_ok(val, sizeof(*val)) && __CPROVER_rw_ok(length, sizeof(*length)))
V_REQUIRES(*length <= max_length)
V_REQUIRES(__CPROVER_r_ok(compint, CI_AVAIL(*length, max_length)))
V_ASSIGNS(*val, *length, zck->error_state)
V_ENSURES(__CPROVER_return_value == 0 || __CPROVER_return_value == 1) /*@C20.to_int.ret01*/
V_ENSURES((__CPROVER_return_value == 1) == (ZCK_OK_OLD(zck) && SPEC_CI_LEN(compint, CI_AVAIL(V_OLD(*length), max_length)) >= 1 && SPEC_CI_FITSINT(compint, SPEC_CI_LEN(compint, CI_AVAIL(V_OLD(*length), max_length))))) /*@C20.to_int.accept_iff_fits_int*/
V_ENSURES(__CPROVER_return_value != 1 || (*val >= 0 && (v_u128)*val == SPEC_CI_VAL(compint, SPEC_CI_LEN(compint, CI_AVAIL(V_OLD(*length), max_length))))) /*@C20.to_int.value*/
V_ENSURES(__CPROVER_return_value != 1 || *length == V_OLD(*length) + SPEC_CI_LEN(compint, CI_AVAIL(V_OLD(*length), max_length))) /*@C20.to_int.length*/
;

/* Encoder: writes the minimal encoding of val (n = SPEC_CI_ENCLEN(val) <= 10 bytes) at
 * compint[0..n) and advances *length by n.  The caller must provide MAX_COMP_SIZE bytes. */
void compint_from_size(char *compint, size_t val, size_t *length)
V_REQUIRES(__CPROVER_rw_ok(length, sizeof(*length)))
V_REQUIRES(__CPROVER_w_ok(compint, MAX_COMP_SIZE))
V_ASSIGNS(*length, __CPROVER_object_upto(compint, MAX_COMP_SIZE))
V_ENSURES(*length == V_OLD(*length) + SPEC_CI_ENCLEN(val)) /*@C20.from_size.length*/
V_ENSURES(SPEC_CI_LEN(compint, MAX_COMP_SIZE) == SPEC_CI_ENCLEN(val)) /*@C20.from_size.terminated_at_n*/
V_ENSURES(SPEC_CI_VAL(compint, SPEC_CI_ENCLEN(val)) == (v_u128)val) /*@C20.from_size.value*/
;

int compint_from_int(zckCtx *zck, char *compint, int val, size_t *length)
V_REQUIRES(__CPROVER_rw_ok(zck, sizeof(*zck)))
V_REQUIRES(__CPROVER_rw_ok(length, sizeof(*length)))
V_REQUIRES(__CPROVER_w_ok(compint, MAX_COMP_SIZE))
V_ASSIGNS(*length, __CPROVER_object_upto(compint, MAX_COMP_SIZE), zck->error_state)
V_ENSURES((__CPROVER_return_value == 1) == (ZCK_OK_OLD(zck) && val >= 0)) /*@C20.from_int.accept_iff_nonneg*/
V_ENSURES(__CPROVER_return_value == 1 || __CPROVER_return_value == 0) /*@C20.from_int.ret01*/
V_ENSURES(__CPROVER_return_value != 1 || (*length == V_OLD(*length) + SPEC_CI_ENCLEN(val) && SPEC_CI_LEN(compint, MAX_COMP_SIZE) == SPEC_CI_ENCLEN(val) && SPEC_CI_VAL(compint, SPEC_CI_ENCLEN(val)) == (v_u128)val)) /*@C20.from_int.encoding*/
V_ENSURES(__CPROVER_return_value == 1 || *length == V_OLD(*length)) /*@C20.from_int.fail_no_advance*/
;
#endif
