/* Contracts for src/lib/compint.c, attached to declarations (merged by CBMC with the real
 * definitions).  Top-level postconditions are taken from property C20. */
#ifndef CONTRACTS_COMPINT_H
#define CONTRACTS_COMPINT_H
#include "spec/spec_compint.h"

/* contexts are never NULL at the library-internal call sites; the VALIDATE_* NULL branch is
 * defensive code outside the contracts */
#define ZCK_OK_OLD(z) (V_OLD((z)->error_state) == 0)
/* bytes available to the decoder: the callers pass (header+off, &off, total) */
/* a cursor at or beyond the limit leaves nothing to read: the decoder must fail without reading */
#define CI_AVAIL(len, max) ((len) <= (max) ? (max) - (len) : (size_t)0)

/* Decoder postcondition, evaluated once per call (spec functions read up to 10 bytes each; nesting
 * them in several clauses multiplies the symbolic reads and makes caller units slow):
 *   accepted  <=>  context clean  and  an encoding terminates within min(avail,10) bytes  and  its
 *                  mathematical value fits the destination;
 *   then *val is that value and *length advanced by exactly the encoding's length.
 * On failure nothing more than the return value is demanded (property C20 only says "fails"). */
static inline bool post_compint_decode(int ret, bool ok_old, const char *compint, size_t old_len,
                                       size_t max_length, size_t new_len, v_u128 val, v_u128 limit) {
    size_t n = spec_ci_len(compint, CI_AVAIL(old_len, max_length));
    v_u128 v = spec_ci_val(compint, n);
    bool valid = ok_old && n >= 1 && v <= limit;
    if((ret == 1) != valid) return false;
    if(ret != 1) return ret == 0;
    return val == v && new_len == old_len + n;
}

int compint_to_size(zckCtx *zck, size_t *val, const char *compint, size_t *length,
                    size_t max_length)
V_REQUIRES(__CPROVER_rw_ok(zck, sizeof(*zck)))
V_REQUIRES(__CPROVER_rw_ok(val, sizeof(*val)) && __CPROVER_rw_ok(length, sizeof(*length)))
V_REQUIRES(__CPROVER_r_ok(compint, CI_AVAIL(*length, max_length)))
V_ASSIGNS(*val, *length, zck->error_state)
V_ENSURES(post_compint_decode(__CPROVER_return_value, ZCK_OK_OLD(zck), compint, V_OLD(*length), max_length, *length, (v_u128)*val, (v_u128)UINT64_MAX)) /*@C20,C13.to_size.accepts_iff_valid_and_decodes_the_exact_value_and_length*/
;

int compint_to_int(zckCtx *zck, int *val, const char *compint, size_t *length,
                   size_t max_length)
V_REQUIRES(__CPROVER_rw_ok(zck, sizeof(*zck)))
V_REQUIRES(__CPROVER_rw_ok(val, sizeof(*val)) && __CPROVER_rw_ok(length, sizeof(*length)))
V_REQUIRES(__CPROVER_r_ok(compint, CI_AVAIL(*length, max_length)))
V_ASSIGNS(*val, *length, zck->error_state)
V_ENSURES(__CPROVER_return_value != 1 || *val >= 0) /*@C20,C13.to_int.nonnegative*/
V_ENSURES(post_compint_decode(__CPROVER_return_value, ZCK_OK_OLD(zck), compint, V_OLD(*length), max_length, *length, (v_u128)(unsigned)*val, (v_u128)INT_MAX)) /*@C20,C13.to_int.accepts_iff_fits_int_and_decodes_the_exact_value_and_length*/
;

/* Encoder: writes the minimal encoding of val (n = SPEC_CI_ENCLEN(val) <= 10 bytes) at
 * compint[0..n) and advances *length by n.  The caller must provide MAX_COMP_SIZE bytes. */
void compint_from_size(char *compint, size_t val, size_t *length)
V_REQUIRES(__CPROVER_rw_ok(length, sizeof(*length)))
V_REQUIRES(__CPROVER_w_ok(compint, MAX_COMP_SIZE))
V_ASSIGNS(*length, __CPROVER_object_upto(compint, MAX_COMP_SIZE))
V_ENSURES(*length == V_OLD(*length) + SPEC_CI_ENCLEN(val)) /*@C20.from_size.length*/
V_ENSURES(SPEC_CI_LEN(compint, MAX_COMP_SIZE) == SPEC_CI_ENCLEN(val)) /*@C20.from_size.terminated_at_n*/
V_ENSURES(SPEC_CI_VAL(compint, SPEC_CI_ENCLEN(val)) == (v_u128)val) /*@C20.from_size.value*/
;

int compint_from_int(zckCtx *zck, char *compint, int val, size_t *length)
V_REQUIRES(__CPROVER_rw_ok(zck, sizeof(*zck)))
V_REQUIRES(__CPROVER_rw_ok(length, sizeof(*length)))
V_REQUIRES(__CPROVER_w_ok(compint, MAX_COMP_SIZE))
V_ASSIGNS(*length, __CPROVER_object_upto(compint, MAX_COMP_SIZE), zck->error_state)
V_ENSURES((__CPROVER_return_value == 1) == (ZCK_OK_OLD(zck) && val >= 0)) /*@C20.from_int.accept_iff_nonneg*/
V_ENSURES(__CPROVER_return_value == 1 || __CPROVER_return_value == 0) /*@C20.from_int.ret01*/
V_ENSURES(__CPROVER_return_value != 1 || (*length == V_OLD(*length) + SPEC_CI_ENCLEN(val) && SPEC_CI_LEN(compint, MAX_COMP_SIZE) == SPEC_CI_ENCLEN(val) && SPEC_CI_VAL(compint, SPEC_CI_ENCLEN(val)) == (v_u128)val)) /*@C20.from_int.encoding*/
V_ENSURES(__CPROVER_return_value == 1 || *length == V_OLD(*length)) /*@C20.from_int.fail_no_advance*/
V_ENSURES(__CPROVER_return_value != 1 || zck->error_state == V_OLD(zck->error_state)) /*@C12.from_int.success_keeps_error_state*/
;
#endif
