/* Contracts for src/lib/dl/dl.c (C05: range reassembly verified and confined; C17: clean failure).
 * File model: g_fpos (set by seek_data, advanced by write_data) and the watched file byte of
 * spec/ghost_dl.h — g_ww_off is a solver-chosen file offset, so "offset g_ww_off was (not) written"
 * stands for "every file offset".  Hash model: contracts/hashfn.h (g_hu_k = every stream offset). */
#ifndef CONTRACTS_DL_H
#define CONTRACTS_DL_H
#include "spec/ghost_dl.h"
#include "contracts/dl_range.h"

/* Write length or to end of current chunk, whichever comes first (C05: wb == min(write_in_chunk, length),
 * the bytes go to the file in order at the current position, the same bytes are hashed, failure is reported) */
static int dl_write(zckDL *dl, const char *at, size_t length)
V_REQUIRES(DL_BASE(dl))
V_REQUIRES_WF(DL_CTX_WF(dl))
V_REQUIRES(DL_WIN(dl))
V_REQUIRES(length <= INT_MAX && (length == 0 || __CPROVER_r_ok(at, length)))
V_ASSIGNS(dl->write_in_chunk, dl->dl_chunk_data, dl->zck->error_state, g_fpos, g_wr_bytes, g_io_failed, g_win_bad, g_ww_hit, g_ww_val, g_hu_total, g_hu_seen, g_hu_ptr)
V_ENSURES(__CPROVER_return_value == -1 || (size_t)__CPROVER_return_value == DL_MIN(V_OLD(dl->write_in_chunk), length)) /*@C05.dl_write.writes_min_of_remaining_and_length*/
V_ENSURES(__CPROVER_return_value < 0 || (dl->write_in_chunk == V_OLD(dl->write_in_chunk) - (size_t)__CPROVER_return_value && dl->dl_chunk_data == V_OLD(dl->dl_chunk_data) + (size_t)__CPROVER_return_value)) /*@C05.dl_write.accounting_advances_by_the_result*/
V_ENSURES(__CPROVER_return_value < 0 || (DL_POS(dl) == V_OLD(DL_POS(dl)) + (g_off_t)__CPROVER_return_value && g_wr_bytes[G_IX(DL_FD(dl))] == V_OLD(g_wr_bytes[G_IX(DL_FD(dl))]) + (size_t)__CPROVER_return_value)) /*@C05,C12.dl_write.success_means_every_byte_was_accepted_at_the_position*/
V_ENSURES(__CPROVER_return_value != -1 || dl->zck->error_state > 0) /*@C05,C12.dl_write.failure_is_reported*/
V_ENSURES(__CPROVER_return_value < 0 || V_OLD(dl->zck->error_state) == 0) /*@C05,C12.dl_write.no_success_on_a_context_in_error*/
V_ENSURES(__CPROVER_return_value < 0 || dl->zck->error_state == V_OLD(dl->zck->error_state)) /*@C12.dl_write.success_keeps_error_state*/
V_ENSURES(__CPROVER_return_value <= 0 || !WW_IN(DL_FD(dl), V_OLD(DL_POS(dl)), __CPROVER_return_value) || (g_ww_hit == V_OLD(g_ww_hit) + 1 && g_ww_val == at[g_ww_off - V_OLD(DL_POS(dl))])) /*@C05.dl_write.file_receives_the_bytes_in_order*/
V_ENSURES(WW_IN(DL_FD(dl), V_OLD(DL_POS(dl)), DL_MIN(V_OLD(dl->write_in_chunk), length)) || WW_SAME) /*@C05,C17.dl_write.nothing_outside_the_span_is_written*/
V_ENSURES(__CPROVER_return_value <= 0 || !DL_WATCHED(dl) || g_hu_total == V_OLD(g_hu_total) + (size_t)__CPROVER_return_value) /*@C05.dl_write.hash_stream_grows_by_the_bytes_written*/
V_ENSURES(__CPROVER_return_value <= 0 || !HU_HIT(&dl->zck->check_chunk_hash, (size_t)__CPROVER_return_value) || (g_hu_seen == V_OLD(g_hu_seen) + 1 && g_hu_ptr == at + (g_hu_k - V_OLD(g_hu_total)))) /*@C05.dl_write.hashes_exactly_the_bytes_written*/
V_ENSURES(__CPROVER_return_value != 0 || (WW_SAME && g_hu_total == V_OLD(g_hu_total) && g_hu_seen == V_OLD(g_hu_seen) && g_hu_ptr == V_OLD(g_hu_ptr) && DL_POS(dl) == V_OLD(DL_POS(dl)))) /*@C05.dl_write.zero_means_nothing_happened*/
V_ENSURES(__CPROVER_return_value <= 0 || dl->zck->check_chunk_hash.ctx != NULL) /*@C05.dl_write.needs_running_hash*/
V_ENSURES(WW_SAME || (dl->tgt_check != NULL && dl->tgt_check->valid != 1 && WW_IN(DL_FD(dl), SV_LO(dl), dl->tgt_check->comp_length))) /*@C05,C17.dl_write.only_the_extent_of_the_chunk_being_filled_is_written_and_that_chunk_is_not_valid*/
;

/* Write zeros to tgt->fd in location of tgt_idx (C05/C08: the whole extent, only the extent, only zeros).
 * NOTE: with a context already in error seek_data/write_data return -1, which the function takes for
 * success: it then returns true without writing (stated by the clauses below; the callers in dl.c
 * report failure in that situation anyway). */
static bool zero_chunk(zckCtx *tgt, zckChunk *tgt_idx)
V_REQUIRES(__CPROVER_rw_ok(tgt, sizeof(*tgt)) && __CPROVER_r_ok(tgt_idx, sizeof(*tgt_idx)))
V_ASSIGNS(tgt->error_state, g_fpos, g_wr_bytes, g_io_failed, g_win_bad, g_ww_hit, g_ww_val)
V_ENSURES(__CPROVER_return_value || tgt->error_state > 0) /*@C05,C08,C12.zero_chunk.failure_is_reported*/
V_ENSURES(!__CPROVER_return_value || V_OLD(tgt->error_state) > 0 || (tgt->error_state == 0 && g_fpos[G_IX(tgt->fd)] == EXT_LO(tgt, tgt_idx) + (g_off_t)tgt_idx->comp_length && g_wr_bytes[G_IX(tgt->fd)] == V_OLD(g_wr_bytes[G_IX(tgt->fd)]) + tgt_idx->comp_length)) /*@C05,C08.zero_chunk.success_means_the_whole_extent_was_written*/
V_ENSURES(!__CPROVER_return_value || V_OLD(tgt->error_state) > 0 || !WW_IN(tgt->fd, EXT_LO(tgt, tgt_idx), tgt_idx->comp_length) || (g_ww_hit == V_OLD(g_ww_hit) + 1 && g_ww_val == 0)) /*@C05,C08.zero_chunk.every_byte_of_the_extent_is_zeroed*/
V_ENSURES(WW_IN(tgt->fd, EXT_LO(tgt, tgt_idx), tgt_idx->comp_length) || WW_SAME) /*@C05,C08,C17.zero_chunk.nothing_outside_the_extent_is_written*/
V_ENSURES(WW_SAME || g_ww_val == 0) /*@C05,C08.zero_chunk.only_zeros_are_written*/
V_ENSURES(V_OLD(tgt->error_state) == 0 || (WW_SAME && tgt->error_state > 0)) /*@C05.zero_chunk.context_in_error_writes_nothing*/
;

/* Check whether last downloaded chunk is valid and zero it out if it isn't.
 * C05: valid = 1 only by the verdict of validate_chunk over everything hashed since the chunk was matched;
 * any other verdict: the extent is zero-filled, the chunk is marked failed (-1) and false is returned. */
static bool set_chunk_valid(zckDL *dl)
V_REQUIRES(DL_BASE(dl))
V_REQUIRES_WF(DL_CTX_WF(dl))
V_REQUIRES(dl->tgt_check != NULL && __CPROVER_rw_ok(dl->tgt_check, sizeof(zckChunk)) && dl->tgt_check->valid != 1)
V_REQUIRES_WF(CHUNK_WF(dl->tgt_check) && dl->tgt_check->zck == dl->zck)
V_REQUIRES(SV_COMPLETE(dl))
V_ASSIGNS(dl->tgt_check, dl->tgt_check->valid, dl->zck->check_chunk_hash.type, dl->zck->check_chunk_hash.ctx, dl->zck->error_state, g_hu_final, g_fin_val, g_fin_total, g_fin_seen, g_fin_ptr, g_fpos, g_wr_bytes, g_io_failed, g_win_bad, g_ww_hit, g_ww_val)
V_FREES(dl->zck->check_chunk_hash.ctx)
V_ENSURES(!__CPROVER_return_value || (V_OLD(dl->tgt_check)->valid == 1 && dl->tgt_check == NULL && V_OLD(dl->zck->error_state) == 0)) /*@C05.set_chunk_valid.true_means_marked_valid_and_released*/
V_ENSURES(!__CPROVER_return_value || dl->zck->error_state == 0) /*@C05,C12.set_chunk_valid.true_leaves_no_error*/
V_ENSURES(!__CPROVER_return_value || !DL_WATCHED(dl) || (g_hu_final == V_OLD(g_hu_final) + 1 && g_fin_total == V_OLD(g_hu_total) && g_fin_seen == V_OLD(g_hu_seen) && g_fin_ptr == V_OLD(g_hu_ptr))) /*@C05.set_chunk_valid.verdict_is_over_everything_hashed_since_the_chunk_was_matched*/
V_ENSURES(!__CPROVER_return_value || !DL_WATCHED(dl) || V_OLD(dl->tgt_check)->comp_length == 0 || !(g_k1 < (size_t)V_OLD(dl->tgt_check)->digest_size) || g_fin_val == V_OLD(dl->tgt_check)->digest[g_k1]) /*@C05.set_chunk_valid.valid_only_if_every_digest_byte_equals_the_index_digest*/
V_ENSURES(!__CPROVER_return_value || (WW_SAME && g_wr_bytes[G_IX(DL_FD(dl))] == V_OLD(g_wr_bytes[G_IX(DL_FD(dl))]) && DL_POS(dl) == V_OLD(DL_POS(dl)))) /*@C05.set_chunk_valid.a_verified_chunk_is_not_touched*/
V_ENSURES(__CPROVER_return_value || (dl->tgt_check == V_OLD(dl->tgt_check) && V_OLD(dl->tgt_check)->valid != 1)) /*@C05.set_chunk_valid.false_means_not_marked_valid*/
V_ENSURES(__CPROVER_return_value || dl->zck->error_state > 0 || (V_OLD(dl->tgt_check)->valid == -1 && DL_POS(dl) == EXT_LO(dl->zck, V_OLD(dl->tgt_check)) + (g_off_t)V_OLD(dl->tgt_check)->comp_length && (!WW_IN(DL_FD(dl), EXT_LO(dl->zck, V_OLD(dl->tgt_check)), V_OLD(dl->tgt_check)->comp_length) || (g_ww_hit == V_OLD(g_ww_hit) + 1 && g_ww_val == 0)))) /*@C05.set_chunk_valid.mismatch_means_zero_filled_and_marked_failed*/
V_ENSURES(WW_IN(DL_FD(dl), EXT_LO(dl->zck, V_OLD(dl->tgt_check)), V_OLD(dl->tgt_check)->comp_length) || WW_SAME) /*@C05,C17.set_chunk_valid.nothing_outside_the_chunk_extent_is_written*/
V_ENSURES(WW_SAME || g_ww_val == 0) /*@C05.set_chunk_valid.only_zeros_are_written*/
V_ENSURES((!__CPROVER_return_value && dl->zck->check_chunk_hash.ctx == V_OLD(dl->zck->check_chunk_hash.ctx) && dl->zck->check_chunk_hash.type == V_OLD(dl->zck->check_chunk_hash.type)) || (dl->zck->check_chunk_hash.ctx == NULL && dl->zck->check_chunk_hash.type == NULL)) /*@C05.set_chunk_valid.running_hash_closed_or_untouched_on_failure*/   /* untouched: context in error, or hash_finalize out of memory (12.2) */
;


/* NOTE: the three callbacks are specified for dl_v != NULL only (with NULL they return 0 at once): CBMC evaluates
 * history expressions (V_OLD) unconditionally at entry, so clauses about dl_v's old state cannot be guarded. */
/* ---- the three transport callbacks (C05: the callback reports an error; C17: every invocation returns; C12) ------
 * A client callback chained behind the library's (dl->write_cb / dl->header_cb) is represented by the stand-in
 * verif_user_wcb: any return value, touches nothing of the library's state (assumed).                          */
#include "contracts/multipart.h"
size_t verif_user_wcb(void *ptr, size_t l, size_t c, void *data)
V_ASSIGNS()
V_ENSURES(1)
;
ssize_t tell_data(zckCtx *zck)
V_REQUIRES(__CPROVER_rw_ok(zck, sizeof(*zck)))
V_ASSIGNS(g_fpos, g_io_failed)
V_ENSURES(__CPROVER_return_value >= -1) /*@C12.tell_data.ret*/
V_ENSURES(g_fpos[G_IX(zck->fd)] == V_OLD(g_fpos[G_IX(zck->fd)])) /*@C12,C05.tell_data.position_unchanged*/
;
#define CBD ((zckDL *)dl_v)
#define CB_LEN_OK(l, c) ((l) <= MPX_LMAX && (c) <= MPX_LMAX && (l) * (c) <= MPX_LMAX)
#define CB_HOOKS(dl) (((dl)->write_cb == NULL || (dl)->write_cb == verif_user_wcb) && ((dl)->header_cb == NULL || (dl)->header_cb == verif_user_wcb))
#define CB_DL(dl) (DL_MP_CTX(dl) && (dl)->zck != NULL && (dl)->mp != NULL && ((dl)->boundary == NULL || STR_TERMINATED((dl)->boundary)) && MPX_DL(dl) && CB_HOOKS(dl))
/* a chunk newly marked failed (-1) during the invocation => the callback does not report "all n bytes taken" */
#define CB_FAIL_REPORTED1(r, ret, n) (DR_ABSENT(r) || DR_VALID0(r) == -1 || (r)->src->valid != -1 || (ret) != (n))
size_t zck_write_chunk_cb(void *ptr, size_t l, size_t c, void *dl_v)
V_REQUIRES(dl_v != NULL && CB_DL(CBD))
V_REQUIRES(CB_LEN_OK(l, c) && (l * c == 0 || __CPROVER_rw_ok(ptr, l * c)))
V_ASSIGNS(CBD->dl; CBD->dl_regex; CBD->end_regex; *CBD->mp; l * c > 0: __CPROVER_object_upto((char *)ptr, l * c); DL_RANGE_ASSIGNS(CBD))
V_FREES(CBD->mp->buffer; CBD->zck->check_chunk_hash.ctx)
V_ENSURES(CB_DL(CBD)) /*@C05,C17.zck_write_chunk_cb.parser_and_download_state_invariants_kept_on_every_return*/
V_ENSURES(l * c == 0 || (CB_FAIL_REPORTED1(g_dr1, __CPROVER_return_value, l * c) && CB_FAIL_REPORTED1(g_dr2, __CPROVER_return_value, l * c) && CB_FAIL_REPORTED1(g_dr3, __CPROVER_return_value, l * c))) /*@C05.zck_write_chunk_cb.a_checksum_mismatch_is_reported_by_the_callback*/
V_ENSURES(l * c == 0 || V_OLD(CBD->zck->error_state) == 0 || __CPROVER_return_value != l * c) /*@C05,C12,C17.zck_write_chunk_cb.a_context_in_error_is_reported_by_the_callback*/
V_ENSURES(V_OLD(CBD->zck->error_state) == 0 || WW_SAME) /*@C05,C17.zck_write_chunk_cb.nothing_is_written_on_a_context_in_error*/
V_ENSURES(l * c == 0 || CBD->boundary != NULL || CBD->zck->error_state == 0 || V_OLD(CBD->zck->error_state) > 0 || __CPROVER_return_value != l * c) /*@C05,C12.zck_write_chunk_cb.an_error_raised_while_writing_a_plain_range_body_is_reported_by_the_callback*/
V_ENSURES(DR_VALID_KEPT1(g_dr1) && DR_VALID_KEPT1(g_dr2) && DR_VALID_KEPT1(g_dr3)) /*@C05.zck_write_chunk_cb.valid_chunks_stay_valid*/
;
/* header download: the bytes go straight to the target descriptor (C12: accepting means every byte was written) */
size_t zck_write_zck_header_cb(void *ptr, size_t l, size_t c, void *dl_v)
V_REQUIRES(dl_v != NULL && __CPROVER_rw_ok(CBD, sizeof(zckDL)) && CBD->zck != NULL && __CPROVER_rw_ok(CBD->zck, sizeof(zckCtx)) && CB_HOOKS(CBD))
V_REQUIRES(CB_LEN_OK(l, c) && (l * c == 0 || __CPROVER_r_ok(ptr, l * c)))
V_ASSIGNS(CBD->dl; g_fpos, g_wr_bytes, g_io_failed, g_win_bad, g_ww_hit, g_ww_val)
V_ENSURES(__CPROVER_return_value != l * c || g_wr_bytes[G_IX(CBD->zck->fd)] == V_OLD(g_wr_bytes[G_IX(CBD->zck->fd)]) + l * c) /*@C12.zck_write_zck_header_cb.accepting_means_every_byte_was_written*/
V_ENSURES(WW_SAME || WW_IN(CBD->zck->fd, V_OLD(g_fpos[G_IX(CBD->zck->fd)]), l * c)) /*@C05.zck_write_zck_header_cb.writes_only_the_span_at_the_current_position*/
;
size_t zck_header_cb(char *b, size_t l, size_t c, void *dl_v)
V_REQUIRES(dl_v != NULL && DL_MP_CTX(CBD) && CB_HOOKS(CBD))
V_REQUIRES(CB_LEN_OK(l, c) && (l * c == 0 || __CPROVER_r_ok(b, l * c)))
V_ASSIGNS(CBD->hdr_regex; CBD->boundary; CBD->mp != NULL: *CBD->mp; CBD->zck != NULL: CBD->zck->error_state)
V_FREES(CBD->mp != NULL: CBD->mp->buffer)
V_ENSURES(DL_RX_INV(CBD)) /*@C17.zck_header_cb.no_uncompiled_pattern_left_behind_on_any_return*/
V_ENSURES(CBD->boundary == V_OLD(CBD->boundary) || STR_TERMINATED(CBD->boundary)) /*@C17.zck_header_cb.boundary_is_nul_terminated*/
V_ENSURES(CBD->mp == NULL || MP_WF(CBD->mp)) /*@C17.zck_header_cb.parser_state_well_formed*/
V_ENSURES(CBD->header_cb != NULL || __CPROVER_return_value == c * l) /*@C17.zck_header_cb.header_lines_are_always_accepted*/
;

/* ---- life-cycle of the patterns (C17 typestate: regfree only on compiled patterns, every object freed once) ---- */
#define RX_TARGETS(dl) (dl) != NULL && (dl)->hdr_regex != NULL: *(dl)->hdr_regex; (dl) != NULL && (dl)->dl_regex != NULL: *(dl)->dl_regex; (dl) != NULL && (dl)->end_regex != NULL: *(dl)->end_regex
#define RX_FREES(dl) (dl) != NULL: (dl)->hdr_regex; (dl) != NULL: (dl)->dl_regex; (dl) != NULL: (dl)->end_regex
static void clear_dl_regex(zckDL *dl)
V_REQUIRES(dl == NULL || (__CPROVER_rw_ok(dl, sizeof(zckDL)) && DL_RX_INV(dl)))
V_ASSIGNS(dl != NULL: dl->hdr_regex; dl != NULL: dl->dl_regex; dl != NULL: dl->end_regex; RX_TARGETS(dl))
V_FREES(RX_FREES(dl))
V_ENSURES(dl == NULL || (dl->hdr_regex == NULL && dl->dl_regex == NULL && dl->end_regex == NULL)) /*@C17.clear_dl_regex.no_pattern_pointer_survives*/
;
void zck_dl_reset(zckDL *dl)
V_REQUIRES(dl == NULL || (DL_MP_CTX(dl) && (dl->boundary == NULL || STR_TERMINATED(dl->boundary))))
V_ASSIGNS(dl != NULL: *dl; dl != NULL && dl->mp != NULL: *dl->mp; RX_TARGETS(dl))
V_FREES(RX_FREES(dl); dl != NULL: dl->boundary; dl != NULL && dl->mp != NULL: dl->mp->buffer)
V_ENSURES(dl == NULL || (dl->hdr_regex == NULL && dl->dl_regex == NULL && dl->end_regex == NULL && dl->boundary == NULL)) /*@C17.zck_dl_reset.no_pattern_or_boundary_pointer_survives*/
V_ENSURES(dl == NULL || (dl->zck == V_OLD(dl->zck) && dl->mp == V_OLD(dl->mp) && dl->dl == V_OLD(dl->dl) && dl->ul == V_OLD(dl->ul))) /*@C17.zck_dl_reset.keeps_context_parser_object_and_statistics*/
V_ENSURES(dl == NULL || (dl->range == NULL && dl->tgt_check == NULL && dl->write_in_chunk == 0 && dl->dl_chunk_data == 0 && dl->write_cb == NULL && dl->header_cb == NULL)) /*@C05,C17.zck_dl_reset.download_state_back_to_idle*/
V_ENSURES(dl == NULL || dl->mp == NULL || (dl->mp->buffer == NULL && dl->mp->buffer_len == 0 && dl->mp->state == 0 && dl->mp->length == 0)) /*@C17.zck_dl_reset.parser_back_to_start*/
;
/* NOTE: zck_dl_free(&p) with p == NULL dereferences NULL ((*dl)->mp after zck_dl_reset(NULL)); required away here, see notes */
void zck_dl_free(zckDL **dl)
V_REQUIRES(__CPROVER_rw_ok(dl, sizeof(*dl)) && *dl != NULL && DL_MP_CTX(*dl) && ((*dl)->boundary == NULL || STR_TERMINATED((*dl)->boundary)))
V_REQUIRES(__CPROVER_POINTER_OFFSET(*dl) == 0 && ((*dl)->mp == NULL || __CPROVER_POINTER_OFFSET((*dl)->mp) == 0))
V_ASSIGNS(*dl, **dl; (*dl)->mp != NULL: *(*dl)->mp; RX_TARGETS(*dl))
V_FREES(*dl, (*dl)->mp; RX_FREES(*dl); (*dl)->boundary; (*dl)->mp != NULL: (*dl)->mp->buffer)
V_ENSURES(*dl == NULL) /*@C17.zck_dl_free.pointer_cleared*/
;
#endif
