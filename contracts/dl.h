/* Contracts for src/lib/dl/dl.c (C05: range reassembly verified and confined; C17: clean failure).
 * File model: g_fpos (set by seek_data, advanced by write_data) and the watched file byte of
 * spec/ghost_dl.h — g_ww_off is a solver-chosen file offset, so "offset g_ww_off was (not) written"
 * stands for "every file offset".  Hash model: contracts/hashfn.h (g_hu_k = every stream offset). */
#ifndef CONTRACTS_DL_H
#define CONTRACTS_DL_H
#include "spec/ghost_dl.h"

#define DL_MIN(a, b) ((a) < (b) ? (a) : (b))
/* file offset of the first stored byte of chunk c of context z (modular, see WW_IN) */
#define EXT_LO(z, c) ((g_off_t)(z)->data_offset + (g_off_t)(c)->start)
#define DL_FD(dl) ((dl)->zck->fd)
#define DL_POS(dl) g_fpos[G_IX((dl)->zck->fd)]
#define DL_WATCHED(dl) (&(dl)->zck->check_chunk_hash == g_hu_hash)
#define DL_CTX_WF(dl) (__CPROVER_rw_ok((dl), sizeof(zckDL)) && (dl)->zck != NULL && __CPROVER_rw_ok((dl)->zck, sizeof(zckCtx)) && CHUNK_HASH_WF((dl)->zck) && \
    SPEC_HASH_VALID((dl)->zck->chunk_hash_type.type) && (dl)->zck->chunk_hash_type.digest_size == SPEC_DIGEST_SIZE((dl)->zck->chunk_hash_type.type))

/* Write length or to end of current chunk, whichever comes first (C05: wb == min(write_in_chunk, length),
 * the bytes go to the file in order at the current position, the same bytes are hashed, failure is reported) */
static int dl_write(zckDL *dl, const char *at, size_t length)
V_REQUIRES(DL_CTX_WF(dl))
V_REQUIRES(length <= INT_MAX && (length == 0 || __CPROVER_r_ok(at, length)))
V_ASSIGNS(dl->write_in_chunk, dl->dl_chunk_data, dl->zck->error_state, g_fpos, g_wr_bytes, g_io_failed, g_win_bad, g_ww_hit, g_ww_val, g_hu_total, g_hu_seen, g_hu_ptr)
V_ENSURES(__CPROVER_return_value == -1 || (size_t)__CPROVER_return_value == DL_MIN(V_OLD(dl->write_in_chunk), length)) /*@C05.dl_write.writes_min_of_remaining_and_length*/
V_ENSURES(__CPROVER_return_value < 0 || (dl->write_in_chunk == V_OLD(dl->write_in_chunk) - (size_t)__CPROVER_return_value && dl->dl_chunk_data == V_OLD(dl->dl_chunk_data) + (size_t)__CPROVER_return_value)) /*@C05.dl_write.accounting_advances_by_the_result*/
V_ENSURES(__CPROVER_return_value < 0 || (DL_POS(dl) == V_OLD(DL_POS(dl)) + (g_off_t)__CPROVER_return_value && g_wr_bytes[G_IX(DL_FD(dl))] == V_OLD(g_wr_bytes[G_IX(DL_FD(dl))]) + (size_t)__CPROVER_return_value)) /*@C05,C12.dl_write.success_means_every_byte_was_accepted_at_the_position*/
V_ENSURES(__CPROVER_return_value != -1 || dl->zck->error_state > 0) /*@C05,C12.dl_write.failure_is_reported*/
V_ENSURES(__CPROVER_return_value < 0 || V_OLD(dl->zck->error_state) == 0) /*@C05,C12.dl_write.no_success_on_a_context_in_error*/
V_ENSURES(__CPROVER_return_value <= 0 || !WW_IN(DL_FD(dl), V_OLD(DL_POS(dl)), __CPROVER_return_value) || (g_ww_hit == V_OLD(g_ww_hit) + 1 && g_ww_val == at[g_ww_off - V_OLD(DL_POS(dl))])) /*@C05.dl_write.file_receives_the_bytes_in_order*/
V_ENSURES(WW_IN(DL_FD(dl), V_OLD(DL_POS(dl)), DL_MIN(V_OLD(dl->write_in_chunk), length)) || WW_SAME) /*@C05,C17.dl_write.nothing_outside_the_span_is_written*/
V_ENSURES(__CPROVER_return_value <= 0 || !DL_WATCHED(dl) || g_hu_total == V_OLD(g_hu_total) + (size_t)__CPROVER_return_value) /*@C05.dl_write.hash_stream_grows_by_the_bytes_written*/
V_ENSURES(__CPROVER_return_value <= 0 || !HU_HIT(&dl->zck->check_chunk_hash, (size_t)__CPROVER_return_value) || (g_hu_seen == V_OLD(g_hu_seen) + 1 && g_hu_ptr == at + (g_hu_k - V_OLD(g_hu_total)))) /*@C05.dl_write.hashes_exactly_the_bytes_written*/
V_ENSURES(__CPROVER_return_value != 0 || (WW_SAME && g_hu_total == V_OLD(g_hu_total) && g_hu_seen == V_OLD(g_hu_seen) && g_hu_ptr == V_OLD(g_hu_ptr) && DL_POS(dl) == V_OLD(DL_POS(dl)))) /*@C05.dl_write.zero_means_nothing_happened*/
V_ENSURES(__CPROVER_return_value <= 0 || dl->zck->check_chunk_hash.ctx != NULL) /*@C05.dl_write.needs_running_hash*/
;

/* Write zeros to tgt->fd in location of tgt_idx (C05/C08: the whole extent, only the extent, only zeros).
 * NOTE: with a context already in error seek_data/write_data return -1, which the function takes for
 * success: it then returns true without writing (stated by the clauses below; the callers in dl.c
 * report failure in that situation anyway). */
static bool zero_chunk(zckCtx *tgt, zckChunk *tgt_idx)
V_REQUIRES(__CPROVER_rw_ok(tgt, sizeof(*tgt)) && __CPROVER_r_ok(tgt_idx, sizeof(*tgt_idx)))
V_ASSIGNS(tgt->error_state, g_fpos, g_wr_bytes, g_io_failed, g_win_bad, g_ww_hit, g_ww_val)
V_ENSURES(__CPROVER_return_value || tgt->error_state > 0) /*@C05,C08,C12.zero_chunk.failure_is_reported*/
V_ENSURES(!__CPROVER_return_value || V_OLD(tgt->error_state) > 0 || (tgt->error_state == 0 && g_fpos[G_IX(tgt->fd)] == EXT_LO(tgt, tgt_idx) + (g_off_t)tgt_idx->comp_length && g_wr_bytes[G_IX(tgt->fd)] == V_OLD(g_wr_bytes[G_IX(tgt->fd)]) + tgt_idx->comp_length)) /*@C05,C08.zero_chunk.success_means_the_whole_extent_was_written*/
V_ENSURES(!__CPROVER_return_value || V_OLD(tgt->error_state) > 0 || !WW_IN(tgt->fd, EXT_LO(tgt, tgt_idx), tgt_idx->comp_length) || (g_ww_hit == V_OLD(g_ww_hit) + 1 && g_ww_val == 0)) /*@C05,C08.zero_chunk.every_byte_of_the_extent_is_zeroed*/
V_ENSURES(WW_IN(tgt->fd, EXT_LO(tgt, tgt_idx), tgt_idx->comp_length) || WW_SAME) /*@C05,C08,C17.zero_chunk.nothing_outside_the_extent_is_written*/
V_ENSURES(WW_SAME || g_ww_val == 0) /*@C05,C08.zero_chunk.only_zeros_are_written*/
V_ENSURES(V_OLD(tgt->error_state) == 0 || (WW_SAME && tgt->error_state > 0)) /*@C05.zero_chunk.context_in_error_writes_nothing*/
;

/* Check whether last downloaded chunk is valid and zero it out if it isn't.
 * C05: valid = 1 only by the verdict of validate_chunk over everything hashed since the chunk was matched;
 * any other verdict: the extent is zero-filled, the chunk is marked failed (-1) and false is returned. */
#define SV_TGT(dl) ((dl)->tgt_check)
#define SV_LO(dl) EXT_LO((dl)->zck, (dl)->tgt_check)
/* the verdict is only asked for once every byte of the chunk has been written to its extent and hashed */
#define SV_COMPLETE(dl) ((dl)->zck->check_chunk_hash.ctx == NULL || (dl)->zck->error_state > 0 || \
    ((dl)->write_in_chunk == 0 && DL_POS(dl) == SV_LO(dl) + (g_off_t)(dl)->tgt_check->comp_length && (!DL_WATCHED(dl) || g_hu_total == (dl)->tgt_check->comp_length)))
static bool set_chunk_valid(zckDL *dl)
V_REQUIRES(DL_CTX_WF(dl))
V_REQUIRES(dl->tgt_check != NULL && CHUNK_WF(dl->tgt_check) && dl->tgt_check->zck == dl->zck && dl->tgt_check->valid != 1)
V_REQUIRES(SV_COMPLETE(dl))
V_ASSIGNS(dl->tgt_check, dl->tgt_check->valid, dl->zck->check_chunk_hash.type, dl->zck->check_chunk_hash.ctx, dl->zck->error_state, g_hu_final, g_fin_val, g_fin_total, g_fin_seen, g_fin_ptr, g_fpos, g_wr_bytes, g_io_failed, g_win_bad, g_ww_hit, g_ww_val)
V_FREES(dl->zck->check_chunk_hash.ctx)
V_ENSURES(!__CPROVER_return_value || (V_OLD(dl->tgt_check)->valid == 1 && dl->tgt_check == NULL && V_OLD(dl->zck->error_state) == 0)) /*@C05.set_chunk_valid.true_means_marked_valid_and_released*/
V_ENSURES(!__CPROVER_return_value || !DL_WATCHED(dl) || (g_hu_final == V_OLD(g_hu_final) + 1 && g_fin_total == V_OLD(g_hu_total) && g_fin_seen == V_OLD(g_hu_seen) && g_fin_ptr == V_OLD(g_hu_ptr))) /*@C05.set_chunk_valid.verdict_is_over_everything_hashed_since_the_chunk_was_matched*/
V_ENSURES(!__CPROVER_return_value || !DL_WATCHED(dl) || V_OLD(dl->tgt_check)->comp_length == 0 || !(g_k1 < (size_t)V_OLD(dl->tgt_check)->digest_size) || g_fin_val == V_OLD(dl->tgt_check)->digest[g_k1]) /*@C05.set_chunk_valid.valid_only_if_every_digest_byte_equals_the_index_digest*/
V_ENSURES(!__CPROVER_return_value || (WW_SAME && g_wr_bytes[G_IX(DL_FD(dl))] == V_OLD(g_wr_bytes[G_IX(DL_FD(dl))]) && DL_POS(dl) == V_OLD(DL_POS(dl)))) /*@C05.set_chunk_valid.a_verified_chunk_is_not_touched*/
V_ENSURES(__CPROVER_return_value || (dl->tgt_check == V_OLD(dl->tgt_check) && dl->tgt_check->valid != 1)) /*@C05.set_chunk_valid.false_means_not_marked_valid*/
V_ENSURES(__CPROVER_return_value || dl->zck->error_state > 0 || (dl->tgt_check->valid == -1 && DL_POS(dl) == SV_LO(dl) + (g_off_t)dl->tgt_check->comp_length && (!WW_IN(DL_FD(dl), SV_LO(dl), dl->tgt_check->comp_length) || (g_ww_hit == V_OLD(g_ww_hit) + 1 && g_ww_val == 0)))) /*@C05.set_chunk_valid.mismatch_means_zero_filled_and_marked_failed*/
V_ENSURES(WW_IN(DL_FD(dl), EXT_LO(dl->zck, V_OLD(dl->tgt_check)), V_OLD(dl->tgt_check)->comp_length) || WW_SAME) /*@C05,C17.set_chunk_valid.nothing_outside_the_chunk_extent_is_written*/
V_ENSURES(WW_SAME || g_ww_val == 0) /*@C05.set_chunk_valid.only_zeros_are_written*/
V_ENSURES((V_OLD(dl->zck->error_state) > 0 && dl->zck->check_chunk_hash.ctx == V_OLD(dl->zck->check_chunk_hash.ctx) && dl->zck->check_chunk_hash.type == V_OLD(dl->zck->check_chunk_hash.type)) || (dl->zck->check_chunk_hash.ctx == NULL && dl->zck->check_chunk_hash.type == NULL)) /*@C05.set_chunk_valid.running_hash_closed*/
;

/* ---- state of a range download between two callback invocations --------------------------------
 * The requested-range list (dl->range->index) has at most three entries with ghost names g_dr1..3
 * (bounded in the list length, as RD_WF in contracts/comp.h); entry->src is the target chunk.       */
#define DR_NODE_WF(dl, r) (__CPROVER_rw_ok((r), sizeof(zckChunk)) && (r)->digest_size == (dl)->zck->chunk_hash_type.digest_size && (r)->digest != NULL && __CPROVER_r_ok((r)->digest, (r)->digest_size) && \
    (r)->src != NULL && CHUNK_WF((r)->src) && (r)->src->zck == (dl)->zck)
#define DR_IN_LIST(p) ((p) == NULL || (p) == g_dr1 || (p) == g_dr2 || (p) == g_dr3)
#define DR_LIST_WF(dl) ((dl)->range != NULL && __CPROVER_rw_ok((dl)->range, sizeof(zckRange)) && g_dr1 != NULL && (dl)->range->index.first == g_dr1 && DR_NODE_WF(dl, g_dr1) && g_dr1->next == g_dr2 && \
    (g_dr2 == NULL ? g_dr3 == NULL : (DR_NODE_WF(dl, g_dr2) && g_dr2->next == g_dr3 && (g_dr3 == NULL || (DR_NODE_WF(dl, g_dr3) && g_dr3->next == NULL)))) && DR_IN_LIST((dl)->range->index.current))
#define DR_IS_TGT(p) ((p) == g_dr1->src || (g_dr2 != NULL && (p) == g_dr2->src) || (g_dr3 != NULL && (p) == g_dr3->src))
#define DL_SHAPE(dl) (DL_CTX_WF(dl) && DR_LIST_WF(dl) && (dl)->zck->index.first != NULL && ((dl)->tgt_check == NULL || DR_IS_TGT((dl)->tgt_check)))
/* positional part (C05): while a chunk is being filled, the descriptor stands at the next byte of its
 * extent, the running hash has been fed exactly the bytes written so far, and the chunk is not valid */
#define DL_STATE(dl) ((dl)->tgt_check == NULL ? (dl)->write_in_chunk == 0 : \
    ((dl)->tgt_check->valid != 1 && (dl)->write_in_chunk <= (dl)->tgt_check->comp_length && ((dl)->write_in_chunk == 0 || (dl)->zck->check_chunk_hash.ctx != NULL) && \
     ((dl)->zck->check_chunk_hash.ctx == NULL || (DL_POS(dl) == SV_LO(dl) + (g_off_t)((dl)->tgt_check->comp_length - (dl)->write_in_chunk) && (!DL_WATCHED(dl) || g_hu_total == (dl)->tgt_check->comp_length - (dl)->write_in_chunk)))))
#define DL_INV(dl) (DL_SHAPE(dl) && ((dl)->zck->error_state > 0 || DL_STATE(dl)))
/* the watched file offset lies in the extent of a requested chunk that was not valid when the call began */
#define DR_OPEN1(dl, r) ((r) != NULL && V_OLD((r)->src->valid) != 1 && WW_IN(DL_FD(dl), EXT_LO((dl)->zck, (r)->src), (r)->src->comp_length))
#define DR_OFF_IN_OPEN_EXTENT(dl) (DR_OPEN1(dl, g_dr1) || DR_OPEN1(dl, g_dr2) || DR_OPEN1(dl, g_dr3))
#define DR_VALID_KEPT1(r) ((r) == NULL || V_OLD((r)->src->valid) != 1 || (r)->src->valid == 1)
#define DL_RANGE_ASSIGNS(dl) dl->write_in_chunk, dl->dl_chunk_data, dl->tgt_check, dl->tgt_number, dl->range->index.current, dl->zck->error_state, dl->zck->check_chunk_hash.type, dl->zck->check_chunk_hash.ctx, \
    g_dr1->src->valid; g_dr2 != NULL: g_dr2->src->valid; g_dr3 != NULL: g_dr3->src->valid; \
    g_fpos, g_wr_bytes, g_io_failed, g_win_bad, g_ww_hit, g_ww_val, g_hu_total, g_hu_seen, g_hu_ptr, g_hu_final, g_hu_inits, g_fin_val, g_fin_total, g_fin_seen, g_fin_ptr, g_mc_diff

/* Split current read into the appropriate chunks and write appropriately */
int dl_write_range(zckDL *dl, const char *at, size_t length)
V_REQUIRES(DL_INV(dl))
V_REQUIRES(length <= INT_MAX && (length == 0 || __CPROVER_r_ok(at, length)))
V_ASSIGNS(DL_RANGE_ASSIGNS(dl))
V_FREES(dl->zck->check_chunk_hash.ctx)
V_ENSURES(__CPROVER_return_value >= 0 && (size_t)__CPROVER_return_value <= length) /*@C05,C17.dl_write_range.consumes_at_most_length*/
V_ENSURES(WW_SAME || DR_OFF_IN_OPEN_EXTENT(dl)) /*@C05,C17.dl_write_range.only_extents_of_requested_chunks_that_are_not_valid_are_written*/
V_ENSURES(DR_VALID_KEPT1(g_dr1) && DR_VALID_KEPT1(g_dr2) && DR_VALID_KEPT1(g_dr3)) /*@C05.dl_write_range.valid_chunks_stay_valid*/
V_ENSURES(DL_INV(dl)) /*@C05,C17.dl_write_range.state_invariant_kept_on_every_return*/
V_ENSURES(V_OLD(dl->zck->error_state) == 0 || (__CPROVER_return_value == 0 && WW_SAME)) /*@C05,C12.dl_write_range.context_in_error_is_refused*/
V_ENSURES(__CPROVER_return_value != 0 || length == 0 || dl->zck->error_state > 0 || dl->write_in_chunk == 0) /*@C05.dl_write_range.zero_means_error_or_no_chunk_expects_these_bytes*/
;
#endif
