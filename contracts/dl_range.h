/* placeholder include point for the dl_write_range contract as seen from multipart.c (see contracts/dl.h) */
#ifndef CONTRACTS_DL_RANGE_H
#define CONTRACTS_DL_RANGE_H
#endif
