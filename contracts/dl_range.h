/* Contract of dl_write_range (src/lib/dl/dl.c) and the state predicates of a range download, in a header of
 * their own because the function has callers in two files: dl.c (zck_write_chunk_cb, its own recursion) and
 * multipart.c (multipart_extract).  ONE contract text, three kinds of unit:
 *   - dl_write_range_ctl (-DVERIF_CTL): the control / confinement / accounting clauses on a requested-range
 *     list whose nodes have ARBITRARY contents and links (no shape assumed, cycles included; the list scan is
 *     closed by a loop contract); the V_*_WF clauses (list shape, memory well-formedness) are compiled out;
 *   - dl_write_range (bounded companion): everything, list of at most two entries;
 *   - callers (multipart_extract, zck_write_chunk_cb; -DVERIF_CTL): as the first, the clauses are checked at
 *     the call sites as preconditions.                                                                      */
#ifndef CONTRACTS_DL_RANGE_H
#define CONTRACTS_DL_RANGE_H
#include "spec/ghost_dl.h"
#include "stubs/libc_mem.h"
#include "contracts/hashfn.h"

#define DL_MIN(a, b) ((a) < (b) ? (a) : (b))
/* file offset of the first stored byte of chunk c of context z (modular, see WW_IN) */
#define EXT_LO(z, c) ((g_off_t)(z)->data_offset + (g_off_t)(c)->start)
#define DL_FD(dl) ((dl)->zck->fd)
#define DL_POS(dl) g_fpos[G_IX((dl)->zck->fd)]
#define DL_WATCHED(dl) (&(dl)->zck->check_chunk_hash == g_hu_hash)
#define DL_CTX_WF(dl) (__CPROVER_rw_ok((dl), sizeof(zckDL)) && (dl)->zck != NULL && __CPROVER_rw_ok((dl)->zck, sizeof(zckCtx)) && CHUNK_HASH_WF((dl)->zck) && \
    SPEC_HASH_VALID((dl)->zck->chunk_hash_type.type) && (dl)->zck->chunk_hash_type.digest_size == SPEC_DIGEST_SIZE((dl)->zck->chunk_hash_type.type))

#define SV_TGT(dl) ((dl)->tgt_check)
#define SV_LO(dl) EXT_LO((dl)->zck, (dl)->tgt_check)
/* the verdict is only asked for once every byte of the chunk has been written to its extent and hashed */
#define SV_COMPLETE(dl) ((dl)->zck->check_chunk_hash.ctx == NULL || (dl)->zck->error_state > 0 || \
    ((dl)->write_in_chunk == 0 && DL_POS(dl) == SV_LO(dl) + (g_off_t)(dl)->tgt_check->comp_length && (!DL_WATCHED(dl) || g_hu_total == (dl)->tgt_check->comp_length)))

/* ---- state of a range download between two callback invocations --------------------------------
 * The requested-range list (dl->range->index) has at most three entries with ghost names g_dr1..3
 * (as RD_WF in contracts/comp.h); entry->src is the target chunk.                                   */
#define DL_BASE(dl) (__CPROVER_rw_ok((dl), sizeof(zckDL)) && (dl)->zck != NULL && __CPROVER_rw_ok((dl)->zck, sizeof(zckCtx)) && ((dl)->range == NULL || __CPROVER_rw_ok((dl)->range, sizeof(zckRange))))
#define DR_NODE_WF(dl, r) (__CPROVER_rw_ok((r), sizeof(zckChunk)) && (r)->digest_size == (dl)->zck->chunk_hash_type.digest_size && (r)->digest != NULL && __CPROVER_r_ok((r)->digest, (r)->digest_size) && \
    (r)->src != NULL && CHUNK_WF((r)->src) && (r)->src->zck == (dl)->zck)
#define DR_IN_LIST(p) ((p) == NULL || ((p) != DR_NONE && ((p) == g_dr1 || (p) == g_dr2 || (p) == g_dr3)))
#define DR_LIST_WF(dl) ((dl)->range != NULL && __CPROVER_rw_ok((dl)->range, sizeof(zckRange)) && !DR_ABSENT(g_dr1) && (dl)->range->index.first == g_dr1 && DR_NODE_WF(dl, g_dr1) && g_dr1->next == DR_PTR(g_dr2) && \
    (DR_ABSENT(g_dr2) ? DR_ABSENT(g_dr3) : (DR_NODE_WF(dl, g_dr2) && g_dr2->next == DR_PTR(g_dr3) && (DR_ABSENT(g_dr3) || (DR_NODE_WF(dl, g_dr3) && g_dr3->next == NULL)))) && DR_IN_LIST((dl)->range->index.current))
#define DR_IS_TGT(p) ((!DR_ABSENT(g_dr1) && (p) == g_dr1->src) || (!DR_ABSENT(g_dr2) && (p) == g_dr2->src) || (!DR_ABSENT(g_dr3) && (p) == g_dr3->src))
#define DL_SHAPE(dl) (DL_CTX_WF(dl) && DR_LIST_WF(dl) && (dl)->zck->index.first != NULL)
/* what the control-only units keep of the list: its nodes and their target chunks are allocated objects that have
 * ghost names, and every link stays among the named nodes -- nothing about order, length, cycles, sizes, digests */
#define DR_NODE_NAMED(r) (DR_ABSENT(r) || (__CPROVER_rw_ok((r), sizeof(zckChunk)) && DR_IN_LIST((r)->next) && (r)->src != NULL && __CPROVER_rw_ok((r)->src, sizeof(zckChunk))))
#define DR_NAMED(dl) (DR_NONE->src == &g_dr_none_tgt && DR_NODE_NAMED(g_dr1) && DR_NODE_NAMED(g_dr2) && DR_NODE_NAMED(g_dr3) && ((dl)->range == NULL || (DR_IN_LIST((dl)->range->index.first) && DR_IN_LIST((dl)->range->index.current))))
/* a live running chunk hash has the chunk checksum type (hash_init's contract says nothing about the type field
 * after a failed initialisation, so nothing is claimed about it while there is no context) */
#define DL_HASH_T(dl) ((dl)->zck->check_chunk_hash.ctx == NULL || (dl)->zck->check_chunk_hash.type == &(dl)->zck->chunk_hash_type)
#define DL_CTL(dl) (DL_BASE(dl) && DL_HASH_T(dl) && DR_NAMED(dl) && ((dl)->tgt_check == NULL || DR_IS_TGT((dl)->tgt_check)))
/* positional part (C05): while a chunk is being filled, the descriptor stands at the next byte of its
 * extent, the running hash has been fed exactly the bytes written so far, and the chunk is not valid */
/* NOTE (CBMC): the chunk being filled is reached through the ghost NAMES (g_drK->src), never through dl->tgt_check:
 * where this predicate is an ASSUMED postcondition, dl->tgt_check has just been havocked and a dereference through
 * it reads a phantom object (silently so when pointer checks are off) instead of the named chunk. */
#define DL_STATE_T(dl, t) ((t)->valid != 1 && (dl)->write_in_chunk <= (t)->comp_length && ((dl)->write_in_chunk == 0 || (dl)->zck->check_chunk_hash.ctx != NULL) && \
     ((dl)->zck->check_chunk_hash.ctx == NULL || (DL_POS(dl) == EXT_LO((dl)->zck, t) + (g_off_t)((t)->comp_length - (dl)->write_in_chunk) && (!DL_WATCHED(dl) || g_hu_total == (t)->comp_length - (dl)->write_in_chunk))))
#define DL_STATE_N(dl, r) (!DR_ABSENT(r) && (dl)->tgt_check == (r)->src && DL_STATE_T(dl, (r)->src))
#define DL_STATE(dl) ((dl)->tgt_check == NULL ? (dl)->write_in_chunk == 0 : (DL_STATE_N(dl, g_dr1) || DL_STATE_N(dl, g_dr2) || DL_STATE_N(dl, g_dr3)))
#define DL_STATE_OR_ERR(dl) ((dl)->zck->error_state > 0 || DL_STATE(dl))
#define DL_INV(dl) (DL_SHAPE(dl) && DL_CTL(dl) && DL_STATE_OR_ERR(dl))
/* C05 confinement, call-site form: bytes are handed to dl_write only while the descriptor stands inside the
 * extent of the chunk being filled (dl->tgt_check), that chunk is not valid, and at most the rest of its extent
 * is still expected -- so whatever dl_write writes (at most write_in_chunk bytes at the position) stays in it */
#define DL_WIN(dl) ((dl)->write_in_chunk == 0 || (dl)->zck->error_state > 0 || ((dl)->tgt_check != NULL && __CPROVER_r_ok((dl)->tgt_check, sizeof(zckChunk)) && (dl)->tgt_check->valid != 1 && \
    (dl)->write_in_chunk <= (dl)->tgt_check->comp_length && DL_POS(dl) == SV_LO(dl) + (g_off_t)((dl)->tgt_check->comp_length - (dl)->write_in_chunk)))
/* the watched file offset lies in the extent of a requested chunk that was not valid when the call began */
/* history expressions are evaluated unconditionally at entry: absent entries are named by DR_NONE (spec/ghost_dl.h) */
#define DR_VALID0(r) V_OLD((r)->src->valid)
#define DR_OPEN1(dl, r) (!DR_ABSENT(r) && DR_VALID0(r) != 1 && WW_IN(DL_FD(dl), EXT_LO((dl)->zck, (r)->src), (r)->src->comp_length))
#define DR_OFF_IN_OPEN_EXTENT(dl) (DR_OPEN1(dl, g_dr1) || DR_OPEN1(dl, g_dr2) || DR_OPEN1(dl, g_dr3))
#define DR_VALID_KEPT1(r) (DR_ABSENT(r) || DR_VALID0(r) != 1 || (r)->src->valid == 1)
/* a chunk is newly marked failed (-1) only by a call that reports 0 */
#define DR_FAIL_REPORTED1(r, ret) (DR_ABSENT(r) || DR_VALID0(r) == -1 || (r)->src->valid != -1 || (ret) == 0)
/* a chunk that was valid when the call began is not newly selected as the chunk being filled (a context in error
 * may carry any tgt_check in and out: the state invariant is only required of error-free contexts) */
#define DR_VALID_NOT_SELECTED1(dl, r) (DR_ABSENT(r) || DR_VALID0(r) != 1 || (dl)->tgt_check != (r)->src || (dl)->tgt_check == V_OLD((dl)->tgt_check))
#define DL_RANGE_ASSIGNS(dl) dl->write_in_chunk, dl->dl_chunk_data, dl->tgt_check, dl->tgt_number, dl->zck->error_state, dl->zck->check_chunk_hash.type, dl->zck->check_chunk_hash.ctx; \
    dl->range != NULL: dl->range->index.current; g_dr1->src->valid, g_dr2->src->valid, g_dr3->src->valid; \
    g_fpos, g_wr_bytes, g_io_failed, g_win_bad, g_ww_hit, g_ww_val, g_hu_total, g_hu_seen, g_hu_ptr, g_hu_final, g_hu_inits, g_fin_val, g_fin_total, g_fin_seen, g_fin_ptr, g_mc_diff

/* Split current read into the appropriate chunks and write appropriately */
int dl_write_range(zckDL *dl, const char *at, size_t length)
V_REQUIRES(DL_CTL(dl))
V_REQUIRES_WF(DL_SHAPE(dl))
V_REQUIRES(DL_STATE_OR_ERR(dl))
V_REQUIRES(length <= INT_MAX && (length == 0 || __CPROVER_r_ok(at, length)))
V_ASSIGNS(DL_RANGE_ASSIGNS(dl))
V_FREES(dl->zck->check_chunk_hash.ctx)
V_ENSURES(__CPROVER_return_value >= 0 && (size_t)__CPROVER_return_value <= length) /*@C05,C17.dl_write_range.consumes_at_most_length*/
V_ENSURES_WF(WW_SAME || DR_OFF_IN_OPEN_EXTENT(dl)) /*@C05,C17.dl_write_range.only_extents_of_requested_chunks_that_are_not_valid_are_written*/
V_ENSURES(DR_VALID_KEPT1(g_dr1) && DR_VALID_KEPT1(g_dr2) && DR_VALID_KEPT1(g_dr3)) /*@C05.dl_write_range.valid_chunks_stay_valid*/
V_ENSURES(DR_VALID_NOT_SELECTED1(dl, g_dr1) && DR_VALID_NOT_SELECTED1(dl, g_dr2) && DR_VALID_NOT_SELECTED1(dl, g_dr3)) /*@C05.dl_write_range.a_valid_chunk_is_never_selected_for_filling*/
V_ENSURES_WF(DL_SHAPE(dl)) /*@C05,C17.dl_write_range.list_shape_kept*/
V_ENSURES(DL_CTL(dl) && DL_STATE_OR_ERR(dl)) /*@C05,C17.dl_write_range.state_invariant_kept_on_every_return*/
V_ENSURES(V_OLD(dl->zck->error_state) == 0 || (__CPROVER_return_value == 0 && WW_SAME)) /*@C05,C12.dl_write_range.context_in_error_is_refused*/
V_ENSURES(__CPROVER_return_value != 0 || length == 0 || dl->zck->error_state > 0 || dl->write_in_chunk == 0) /*@C05.dl_write_range.zero_means_error_or_no_chunk_expects_these_bytes*/
V_ENSURES(DR_FAIL_REPORTED1(g_dr1, __CPROVER_return_value) && DR_FAIL_REPORTED1(g_dr2, __CPROVER_return_value) && DR_FAIL_REPORTED1(g_dr3, __CPROVER_return_value)) /*@C05.dl_write_range.a_checksum_mismatch_makes_the_call_report_zero*/
V_ENSURES(dl->zck->error_state == 0 || V_OLD(dl->zck->error_state) > 0 || __CPROVER_return_value == 0) /*@C05,C12.dl_write_range.an_error_raised_during_the_call_makes_it_report_zero*/
;
#endif
