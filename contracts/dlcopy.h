/* Contracts for the local chunk reuse functions of src/lib/dl/dl.c (C08, C12; zero_chunk also C05):
 * zero_chunk, write_and_verify_chunk, zck_copy_chunks, zck_find_matching_chunks.
 * Ghost file model (spec/ghost.h): g_fpos / g_wr_bytes / g_rd_bytes per descriptor; write window
 * [g_win_lo, g_win_hi) on g_win_fd with the call-site guard g_wr_guard of write_data (contracts/io.h). */
#ifndef CONTRACTS_DLCOPY_H
#define CONTRACTS_DLCOPY_H
#include "spec/ghost.h"
#include "spec/spec_hash.h"

/* first stored byte of a chunk in its file, in ghost (wrap-around) arithmetic */
#define CHUNK_LO(z, c) ((g_off_t)(z)->data_offset + (g_off_t)(c)->start)

/* Write zeros over the stored extent of tgt_idx.  C05/C08: exactly comp_length bytes, all zero, starting
 * at the chunk's first byte; C12: success is reported only if every byte was accepted. */
static bool zero_chunk(zckCtx *tgt, zckChunk *tgt_idx)
V_REQUIRES(__CPROVER_rw_ok(tgt, sizeof(*tgt)) && __CPROVER_r_ok(tgt_idx, sizeof(*tgt_idx)))
V_REQUIRES(!g_wr_guard || (g_win_fd == tgt->fd && g_win_lo == CHUNK_LO(tgt, tgt_idx) && g_win_hi == CHUNK_LO(tgt, tgt_idx) + (g_off_t)tgt_idx->comp_length && g_win_hi >= g_win_lo))   /* units with the guard on: the window is this chunk's extent */
V_ASSIGNS(tgt->error_state, g_fpos, g_wr_bytes, g_io_failed, g_win_bad)
V_ENSURES(!__CPROVER_return_value || g_wr_bytes[G_IX(tgt->fd)] == V_OLD(g_wr_bytes[G_IX(tgt->fd)]) + tgt_idx->comp_length) /*@C08,C05,C12.zero_chunk.success_means_comp_length_bytes_accepted*/
V_ENSURES(!__CPROVER_return_value || g_fpos[G_IX(tgt->fd)] == CHUNK_LO(tgt, tgt_idx) + (g_off_t)tgt_idx->comp_length) /*@C08,C05.zero_chunk.written_at_the_chunk_extent*/
V_ENSURES(!__CPROVER_return_value || (V_OLD(tgt->error_state) == 0 && tgt->error_state == 0)) /*@C12.zero_chunk.no_success_once_an_error_arose*/
V_ENSURES(__CPROVER_return_value || tgt->error_state > 0) /*@C12.zero_chunk.failure_sets_error*/
;

#endif
