/* Contracts for the local chunk reuse functions of src/lib/dl/dl.c (C08, C12; zero_chunk also C05):
 * zero_chunk, write_and_verify_chunk, zck_copy_chunks, zck_find_matching_chunks.
 * Ghost file model (spec/ghost.h): g_fpos / g_wr_bytes / g_rd_bytes per descriptor; write window
 * [g_win_lo, g_win_hi) on g_win_fd with the call-site guard -DVERIF_WRITE_GUARD of write_data (contracts/io.h). */
#ifndef CONTRACTS_DLCOPY_H
#define CONTRACTS_DLCOPY_H
#include "spec/ghost.h"
#include "spec/spec_hash.h"

/* first stored byte of a chunk in its file, in ghost (wrap-around) arithmetic */
#define CHUNK_LO(z, c) ((g_off_t)(z)->data_offset + (g_off_t)(c)->start)

/* the window of the call-site guard is the stored extent of chunk c of context z */
#define CP_WINDOW_IS(z, c) (g_win_fd == (z)->fd && g_win_lo == CHUNK_LO(z, c) && g_win_hi == CHUNK_LO(z, c) + (g_off_t)(c)->comp_length && g_win_hi >= g_win_lo)

/* Write zeros over the stored extent of tgt_idx.  C05/C08: exactly comp_length bytes, all zero, starting
 * at the chunk's first byte; C12: success is reported only if every byte was accepted. */
static bool zero_chunk(zckCtx *tgt, zckChunk *tgt_idx)
V_REQUIRES(__CPROVER_rw_ok(tgt, sizeof(*tgt)) && __CPROVER_r_ok(tgt_idx, sizeof(*tgt_idx)))
V_REQUIRES_WGUARD(CP_WINDOW_IS(tgt, tgt_idx))   /* units with the write guard: the window is this chunk's extent */
V_ASSIGNS(tgt->error_state, g_fpos, g_wr_bytes, g_io_failed, g_win_bad)
V_ENSURES(!__CPROVER_return_value || g_wr_bytes[G_IX(tgt->fd)] == V_OLD(g_wr_bytes[G_IX(tgt->fd)]) + tgt_idx->comp_length) /*@C08,C05,C12.zero_chunk.success_means_comp_length_bytes_accepted*/
V_ENSURES(!__CPROVER_return_value || g_fpos[G_IX(tgt->fd)] == CHUNK_LO(tgt, tgt_idx) + (g_off_t)tgt_idx->comp_length) /*@C08,C05.zero_chunk.written_at_the_chunk_extent*/
V_ENSURES(!__CPROVER_return_value || (V_OLD(tgt->error_state) == 0 && tgt->error_state == 0)) /*@C12.zero_chunk.no_success_once_an_error_arose*/
V_ENSURES(__CPROVER_return_value || tgt->error_state > 0) /*@C12.zero_chunk.failure_sets_error*/
V_ENSURES(G_FRAME(g_fpos, tgt->fd) && G_FRAME(g_wr_bytes, tgt->fd)) /*@C08,C05.zero_chunk.other_descriptors_untouched*/
;

/* hex rendering of a chunk digest for log messages (src/lib/hash/hash.c); callers only free it */
char *zck_get_chunk_digest(zckChunk *item)
V_REQUIRES(item == NULL || (__CPROVER_r_ok(item, sizeof(*item)) && item->digest_size >= 0 && item->digest_size <= SPEC_MAX_DIGEST && (item->digest == NULL || __CPROVER_r_ok(item->digest, item->digest_size))))
V_ASSIGNS()
V_ENSURES(__CPROVER_return_value == NULL || __CPROVER_is_fresh(__CPROVER_return_value, 1)) /*@C03.zck_get_chunk_digest.fresh_or_null*/
;

/* one index entry of a context as the copy functions need it: digest buffer of the context's chunk digest size */
#define CP_CHUNK_WF(z, c) (__CPROVER_rw_ok((c), sizeof(zckChunk)) && (c)->digest_size == (z)->chunk_hash_type.digest_size && (c)->digest != NULL && __CPROVER_r_ok((c)->digest, (c)->digest_size))
#define CP_CTX_WF(z) (__CPROVER_rw_ok((z), sizeof(zckCtx)) && SPEC_HASH_VALID((z)->chunk_hash_type.type) && (z)->chunk_hash_type.digest_size == SPEC_DIGEST_SIZE((z)->chunk_hash_type.type))

/* Copy the stored bytes of src_idx (in src) over the extent of tgt_idx (in tgt), re-hash what is copied and
 * mark the target chunk.  Preconditions are what zck_copy_chunks establishes at its call site (checked there):
 * equal digest (ghost index g_k1 = "every digest byte"), equal stored and uncompressed size, target not valid yet.
 * The copy hash is a local object of the function: units watch it by leaving g_hu_hash unconstrained.
 * C08: valid == 1 only if comp_length bytes were read from the source chunk's extent, the same number written to the
 * target chunk's extent (every write request inside it: call-site guard of write_data), the digest was finalised over
 * exactly that many bytes and equals the TARGET index digest; mismatch => zero-filled and valid == -1; source
 * descriptor never written.  C12: nothing of this after a failed or short read / write / seek. */
static bool write_and_verify_chunk(zckCtx *src, zckCtx *tgt, zckChunk *src_idx, zckChunk *tgt_idx)
V_REQUIRES(CP_CTX_WF(src) && CP_CTX_WF(tgt) && src != tgt && G_IX(src->fd) != G_IX(tgt->fd))
V_REQUIRES(CP_CHUNK_WF(src, src_idx) && __CPROVER_rw_ok(tgt_idx, sizeof(zckChunk)) && tgt_idx != src_idx && tgt_idx->digest != NULL && __CPROVER_r_ok(tgt_idx->digest, tgt_idx->digest_size))
V_REQUIRES(tgt_idx->digest_size == src_idx->digest_size && (!(g_k1 < (size_t)tgt_idx->digest_size) || tgt_idx->digest[g_k1] == src_idx->digest[g_k1])) /*@C08.write_and_verify_chunk.called_only_for_equal_digests*/
V_REQUIRES(src_idx->comp_length == tgt_idx->comp_length && src_idx->length == tgt_idx->length) /*@C08.write_and_verify_chunk.called_only_for_equal_sizes*/
V_REQUIRES(tgt_idx->valid != 1) /*@C08.write_and_verify_chunk.never_called_for_a_valid_chunk*/
V_REQUIRES_WGUARD(CP_WINDOW_IS(tgt, tgt_idx))
V_ASSIGNS(src->error_state, tgt->error_state, tgt_idx->valid, g_fpos, g_rd_bytes, g_wr_bytes, g_io_failed, g_last_read, g_watch_seen, g_watch_val, g_win_bad, g_hu_total, g_hu_seen, g_hu_ptr, g_hu_final, g_hu_inits, g_fin_val, g_fin_total, g_fin_seen, g_fin_ptr, g_mc_diff)
V_ENSURES(tgt_idx->valid == V_OLD(tgt_idx->valid) || (__CPROVER_return_value && (tgt_idx->valid == 1 || tgt_idx->valid == -1))) /*@C08.write_and_verify_chunk.flag_changes_only_to_a_verdict*/
V_ENSURES(tgt_idx->valid != 1 || (g_rd_bytes[G_IX(src->fd)] == V_OLD(g_rd_bytes[G_IX(src->fd)]) + tgt_idx->comp_length && g_wr_bytes[G_IX(tgt->fd)] == V_OLD(g_wr_bytes[G_IX(tgt->fd)]) + tgt_idx->comp_length)) /*@C08,C12.write_and_verify_chunk.valid_only_if_every_byte_was_read_and_written*/
V_ENSURES(tgt_idx->valid != 1 || g_fpos[G_IX(tgt->fd)] == CHUNK_LO(tgt, tgt_idx) + (g_off_t)tgt_idx->comp_length) /*@C08.write_and_verify_chunk.written_at_the_target_extent*/
V_ENSURES(tgt_idx->valid != 1 || (V_OLD(src->error_state) == 0 && V_OLD(tgt->error_state) == 0 && src->error_state == 0 && tgt->error_state == 0)) /*@C12.write_and_verify_chunk.never_valid_once_an_error_arose*/
V_ENSURES(tgt_idx->valid != 1 || g_hu_final == V_OLD(g_hu_final) || (g_hu_final == V_OLD(g_hu_final) + 1 && g_fin_total == tgt_idx->comp_length)) /*@C08.write_and_verify_chunk.digest_is_over_exactly_the_bytes_written*/
V_ENSURES(tgt_idx->valid != 1 || g_hu_final == V_OLD(g_hu_final) || !(g_k1 < (size_t)tgt_idx->digest_size) || g_fin_val == tgt_idx->digest[g_k1]) /*@C08.write_and_verify_chunk.valid_only_if_every_digest_byte_equals_the_target_index*/
V_ENSURES(tgt_idx->valid == V_OLD(tgt_idx->valid) || tgt_idx->valid != -1 || (g_wr_bytes[G_IX(tgt->fd)] == V_OLD(g_wr_bytes[G_IX(tgt->fd)]) + tgt_idx->comp_length + tgt_idx->comp_length && g_fpos[G_IX(tgt->fd)] == CHUNK_LO(tgt, tgt_idx) + (g_off_t)tgt_idx->comp_length)) /*@C08.write_and_verify_chunk.mismatch_means_zero_filled_and_failed*/
V_ENSURES(g_wr_bytes[G_IX(src->fd)] == V_OLD(g_wr_bytes[G_IX(src->fd)])) /*@C08.write_and_verify_chunk.source_never_written*/
V_ENSURES(!__CPROVER_return_value || (V_OLD(src->error_state) == 0 && V_OLD(tgt->error_state) == 0 && src->error_state == 0 && tgt->error_state == 0)) /*@C12.write_and_verify_chunk.no_success_once_an_error_arose*/
;

/* ---- list-shaped callers (bounded: target list of at most two entries g_n1, g_n2; source table of at most two entries
 * g_s1, g_s2 -- ghost names set by the harness) ------------------------------------------------------------------- */
extern struct zckChunk *g_s1, *g_s2; extern int g_cp_valid0[2]; extern struct zckChunk *g_cp_src0[2];   /* source table entries; target flags / src links before the call */
#define GHOST_COPY_DEFS struct zckChunk *g_s1, *g_s2; int g_cp_valid0[2]; struct zckChunk *g_cp_src0[2];
#define CP_TGT_LIST_WF(z) (g_n1 != NULL && (z)->index.first == g_n1 && CP_CHUNK_WF(z, g_n1) && g_n1->next == g_n2 && (g_n2 == NULL || (CP_CHUNK_WF(z, g_n2) && g_n2->next == NULL && g_n2 != g_n1)))
#define CP_SRC_SET_WF(z) (g_s1 != NULL && CP_CHUNK_WF(z, g_s1) && (g_s2 == NULL || (CP_CHUNK_WF(z, g_s2) && g_s2 != g_s1)) && g_s1 != g_n1 && g_s1 != g_n2 && g_s2 != g_n1 && (g_s2 == NULL || g_s2 != g_n2))
/* index invariant (index_read): a context with the uncompressed-source flag has an uncompressed digest in every entry */
#define CP_UNCOMP_WF(z, c) ((z)->has_uncompressed_source == 0 || ((c)->digest_uncompressed != NULL && __CPROVER_r_ok((c)->digest_uncompressed, (c)->digest_size)))
#define CP_IN_TGT(p) ((p) == NULL || (p) == g_n1 || (p) == g_n2)
#define CP_B1(p) ((p) != g_n1)
#define CP_B2(p) (g_n2 != NULL && (p) == NULL)

/* ASSUMED contract of uthash's HASH_FIND (stubs/uthash_stub.h) as the copy functions need it: NULL, or an entry of the
 * looked-up table whose key (the compressed resp. uncompressed digest) has the looked-up length and bytes (ghost index g_k1).
 * The key must be readable: uthash hashes keylen bytes at keyptr (C08: no NULL digest is handed to the lookup). */
#define UH_KEY_EQ(e, key, len, uncomp) ((size_t)(e)->digest_size == (len) && ((uncomp) ? ((e)->digest_uncompressed != NULL && (!(g_k1 < (len)) || (e)->digest_uncompressed[g_k1] == ((const char *)(key))[g_k1])) : (!(g_k1 < (len)) || (e)->digest[g_k1] == ((const char *)(key))[g_k1])))
zckChunk *verif_uthash_find(zckChunk *head, const void *key, size_t len, int uncomp)
V_REQUIRES(key != NULL && __CPROVER_r_ok(key, len))
V_ASSIGNS()
V_ENSURES(__CPROVER_return_value == NULL || (head != NULL && (__CPROVER_return_value == g_s1 || (g_s2 != NULL && __CPROVER_return_value == g_s2))))
V_ENSURES(__CPROVER_return_value != g_s1 || UH_KEY_EQ(g_s1, key, len, uncomp))
V_ENSURES(g_s2 == NULL || __CPROVER_return_value != g_s2 || UH_KEY_EQ(g_s2, key, len, uncomp))
;

/* C08: chunks are handed to write_and_verify_chunk only under its preconditions (checked at the call site: equal digest,
 * equal stored and uncompressed size, target not valid); no valid flag is assigned here (frame: only the target flags through the
 * callee); chunks already valid are left alone.  C12: success is not reported once a copy step failed. */
bool zck_copy_chunks(zckCtx *src, zckCtx *tgt)
V_REQUIRES(CP_CTX_WF(src) && CP_CTX_WF(tgt) && src != tgt && G_IX(src->fd) != G_IX(tgt->fd))
V_REQUIRES(CP_TGT_LIST_WF(tgt) && CP_SRC_SET_WF(src))
V_REQUIRES(g_cp_valid0[0] == g_n1->valid && (g_n2 == NULL || g_cp_valid0[1] == g_n2->valid))
V_ASSIGNS(src->error_state, tgt->error_state, g_n1->valid, g_fpos, g_rd_bytes, g_wr_bytes, g_io_failed, g_last_read, g_watch_seen, g_watch_val, g_win_bad, g_hu_total, g_hu_seen, g_hu_ptr, g_hu_final, g_hu_inits, g_fin_val, g_fin_total, g_fin_seen, g_fin_ptr, g_mc_diff; g_n2 != NULL: g_n2->valid)
V_ENSURES((g_cp_valid0[0] == 1 ? g_n1->valid == 1 : (g_n1->valid == g_cp_valid0[0] || g_n1->valid == 1 || g_n1->valid == -1)) && (g_n2 == NULL || (g_cp_valid0[1] == 1 ? g_n2->valid == 1 : (g_n2->valid == g_cp_valid0[1] || g_n2->valid == 1 || g_n2->valid == -1)))) /*@C08.zck_copy_chunks.flags_change_only_to_a_copy_verdict_and_valid_chunks_are_left_alone*/
V_ENSURES(!__CPROVER_return_value || !(tgt->error_state > 0)) /*@C12.zck_copy_chunks.no_success_once_the_target_failed*/   /* an unreadable source merely provides no chunk (C04: any old file) */
V_ENSURES(!__CPROVER_return_value || ((g_n1->valid != 1 || g_cp_valid0[0] == 1 || !(tgt->error_state > 0)) && (g_n2 == NULL || g_n2->valid != 1 || g_cp_valid0[1] == 1 || !(tgt->error_state > 0)))) /*@C12.zck_copy_chunks.newly_valid_chunks_only_without_error*/
;

/* C08: a target chunk is marked valid only for a table entry with equal digest (compressed digest when both files use the same
 * codec, else uncompressed digest when both carry one) and equal uncompressed size; its src link then names that entry;
 * flags that were already set are left alone; nothing of the source is written. */
#define FM_M1(s, t, n, e) ((e)->length == (n)->length && (e)->digest_size == (n)->digest_size && \
    ((s)->comp.type == (t)->comp.type ? (!(g_k1 < (size_t)(n)->digest_size) || (e)->digest[g_k1] == (n)->digest[g_k1]) \
     : ((s)->has_uncompressed_source != 0 && (t)->has_uncompressed_source != 0 && (e)->digest_uncompressed != NULL && (n)->digest_uncompressed != NULL && (!(g_k1 < (size_t)(n)->digest_size) || (e)->digest_uncompressed[g_k1] == (n)->digest_uncompressed[g_k1]))))
/* case split over the named table entries: no dereference through the (solver-chosen) link itself */
#define FM_MATCH(s, t, n) ((n)->src == g_s1 ? FM_M1(s, t, n, g_s1) : ((g_s2 != NULL && (n)->src == g_s2) ? FM_M1(s, t, n, g_s2) : 0))
#define FM_NODE_POST(s, t, n, i) (g_cp_valid0[i] != 0 ? ((n)->valid == g_cp_valid0[i] && (n)->src == g_cp_src0[i]) : ((n)->valid == 1 ? FM_MATCH(s, t, n) : ((n)->valid == 0 && (n)->src == (n))))
bool zck_find_matching_chunks(zckCtx *src, zckCtx *tgt)
V_REQUIRES(src == NULL || tgt == NULL || (CP_CTX_WF(src) && CP_CTX_WF(tgt) && src != tgt && CP_TGT_LIST_WF(tgt) && CP_SRC_SET_WF(src)))
V_REQUIRES(src == NULL || tgt == NULL || (CP_UNCOMP_WF(tgt, g_n1) && (g_n2 == NULL || CP_UNCOMP_WF(tgt, g_n2)) && CP_UNCOMP_WF(src, g_s1) && (g_s2 == NULL || CP_UNCOMP_WF(src, g_s2))))
V_REQUIRES(src == NULL || tgt == NULL || (g_cp_valid0[0] == g_n1->valid && g_cp_src0[0] == g_n1->src && (g_n2 == NULL || (g_cp_valid0[1] == g_n2->valid && g_cp_src0[1] == g_n2->src))))
V_ASSIGNS(src != NULL && tgt != NULL: g_n1->valid; src != NULL && tgt != NULL: g_n1->src; src != NULL && tgt != NULL && g_n2 != NULL: g_n2->valid; src != NULL && tgt != NULL && g_n2 != NULL: g_n2->src)
V_ENSURES(__CPROVER_return_value == (src != NULL && tgt != NULL)) /*@C08.zck_find_matching_chunks.ret*/
V_ENSURES(!__CPROVER_return_value || FM_NODE_POST(src, tgt, g_n1, 0)) /*@C08.zck_find_matching_chunks.first_entry_marked_only_for_an_equal_digest_and_size*/
V_ENSURES(!__CPROVER_return_value || g_n2 == NULL || FM_NODE_POST(src, tgt, g_n2, 1)) /*@C08.zck_find_matching_chunks.second_entry_marked_only_for_an_equal_digest_and_size*/
;

#endif
