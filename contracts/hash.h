/* Contracts for src/lib/hash/hash.c */
#ifndef CONTRACTS_HASH_H
#define CONTRACTS_HASH_H
#include "spec/spec_hash.h"

bool hash_setup(zckCtx *zck, zckHashType *ht, int h)
V_REQUIRES(zck == NULL || __CPROVER_rw_ok(zck, sizeof(*zck)))
V_REQUIRES(__CPROVER_rw_ok(ht, sizeof(*ht)))
V_ASSIGNS(*ht; zck != NULL: zck->error_state)
V_ENSURES(__CPROVER_return_value == SPEC_HASH_VALID(h)) /*@C07,C13,C18.hash_setup.accept_iff_known_type*/
V_ENSURES(!__CPROVER_return_value || (ht->type == h && ht->digest_size == SPEC_DIGEST_SIZE(h))) /*@C07,C13,C18.hash_setup.digest_size_of_type*/
V_ENSURES(__CPROVER_return_value || (ht->type == V_OLD(ht->type) && ht->digest_size == V_OLD(ht->digest_size))) /*@C07.hash_setup.unchanged_on_failure*/
;
#endif
