/* hash_close (src/lib/hash/hash.c): releases the back end context and detaches the type. Enforced in units/hash.c
 * (unit hash_close), used by lib_hash_final's unit and by the hash.c glue units. */
#ifndef CONTRACTS_HASH_CLOSE_H
#define CONTRACTS_HASH_CLOSE_H
void hash_close(zckHash *hash)
V_REQUIRES(hash == NULL || __CPROVER_rw_ok(hash, sizeof(*hash)))
V_ASSIGNS(hash != NULL: hash->ctx, hash->type)
V_FREES(hash != NULL: hash->ctx)
V_ENSURES(hash == NULL || (hash->ctx == NULL && hash->type == NULL)) /*@C18,C03.hash_close.detaches_ctx_and_type*/
;
#endif
