/* Contracts of the hashing entry points of src/lib/hash/hash.c as seen by their callers.
 * The digest VALUE is not modelled (hash functions are trusted / treated under C18): a finalize
 * returns "a fresh buffer of the back end's digest size, arbitrary content, or NULL".  Ghost
 * state records WHICH bytes were fed to one watched zckHash object (ghost-index idiom:
 * g_hu_k is a solver-chosen stream offset). */
#ifndef CONTRACTS_HASHFN_H
#define CONTRACTS_HASHFN_H
#include "spec/ghost.h"
#include "spec/spec_hash.h"

/* bytes lib_hash_final allocates for a type (SHA-512/128 gets the 64-byte SHA-512 buffer) */
#define SPEC_ALLOC_DIGEST(t) ((t) == 0 ? 20 : (t) == 1 ? 32 : 64)
#define HASH_TYPE_OF(h) ((h)->type == NULL ? -1 : (h)->type->type)
#define HASH_TYPE_OLD(h) (V_OLD((h)->type) == NULL ? -1 : V_OLD((h)->type)->type)
#define HASH_OBJ_WF(h) (__CPROVER_rw_ok((h), sizeof(zckHash)) && ((h)->type == NULL || __CPROVER_r_ok((h)->type, sizeof(zckHashType))))

char *get_digest_string(const char *digest, int size)
V_REQUIRES(size >= 0 && size <= SPEC_MAX_DIGEST)
V_REQUIRES(digest == NULL || __CPROVER_r_ok(digest, size))
V_ASSIGNS()
V_ENSURES(__CPROVER_return_value == NULL || __CPROVER_is_fresh(__CPROVER_return_value, (size_t)size * 2 + 1)) /*@C03.get_digest_string.fresh_or_null*/
;

bool hash_init(zckCtx *zck, zckHash *hash, zckHashType *hash_type)
V_REQUIRES(zck == NULL || __CPROVER_rw_ok(zck, sizeof(*zck)))
V_REQUIRES(HASH_OBJ_WF(hash))
V_REQUIRES(hash_type == NULL || __CPROVER_r_ok(hash_type, sizeof(*hash_type)))
V_ASSIGNS(hash->type, hash->ctx, g_hu_total, g_hu_seen, g_hu_ptr, g_hu_final, g_hu_inits; zck != NULL: zck->error_state)
V_FREES_CALLEE(hash->ctx)
V_ENSURES(!__CPROVER_return_value || __CPROVER_is_fresh(hash->ctx, 1)) /*@C03.hash_init.ctx_allocated*/
V_ENSURES(!__CPROVER_return_value || (hash->type == hash_type && hash_type != NULL && hash->ctx != NULL)) /*@C03.hash_init.initialised*/
V_ENSURES(__CPROVER_return_value || zck == NULL || zck->error_state > 0 || hash->ctx == NULL) /*@C03.hash_init.failure*/
V_ENSURES(__CPROVER_return_value || hash->ctx == NULL) /*@C03.hash_init.no_ctx_on_failure*/
V_ENSURES(!__CPROVER_return_value || zck == NULL || zck->error_state == V_OLD(zck->error_state)) /*@C12.hash_init.success_leaves_error_state_alone*/
V_ENSURES(hash != g_hu_hash || hash_type == NULL || (g_hu_total == 0 && g_hu_seen == 0 && g_hu_final == V_OLD(g_hu_final) && g_hu_inits == V_OLD(g_hu_inits) + 1)) /*@C06,C09.hash_init.restarts_stream*/
V_ENSURES(hash == g_hu_hash || (g_hu_total == V_OLD(g_hu_total) && g_hu_seen == V_OLD(g_hu_seen) && g_hu_ptr == V_OLD(g_hu_ptr) && g_hu_final == V_OLD(g_hu_final) && g_hu_inits == V_OLD(g_hu_inits))) /*@C06.hash_init.other_hash_untouched*/
;

bool hash_update(zckCtx *zck, zckHash *hash, const char *message, const size_t size)
V_REQUIRES(zck == NULL || __CPROVER_rw_ok(zck, sizeof(*zck)))
V_REQUIRES(hash == NULL || HASH_OBJ_WF(hash))
V_REQUIRES(message == NULL || size == 0 || __CPROVER_r_ok(message, size))      /* every fed region is readable */
V_ASSIGNS(g_hu_total, g_hu_seen, g_hu_ptr; zck != NULL: zck->error_state)
V_ENSURES(!__CPROVER_return_value || (message == NULL && size == 0) || (hash != NULL && hash->ctx != NULL && hash->type != NULL)) /*@C03.hash_update.needs_initialised_hash*/
V_ENSURES(__CPROVER_return_value || zck == NULL || zck->error_state > 0) /*@C12.hash_update.failure_sets_error*/
V_ENSURES(!__CPROVER_return_value || zck == NULL || zck->error_state == V_OLD(zck->error_state)) /*@C12.hash_update.success_leaves_error_state_alone*/
#define HU_HIT(h, n) ((h) == g_hu_hash && g_hu_k >= V_OLD(g_hu_total) && g_hu_k - V_OLD(g_hu_total) < (n))
V_ENSURES(!__CPROVER_return_value || hash != g_hu_hash || message == NULL || g_hu_total == V_OLD(g_hu_total) + size) /*@C06,C09.hash_update.stream_grows_by_size*/
V_ENSURES(!__CPROVER_return_value || message == NULL || !HU_HIT(hash, size) || (g_hu_seen == V_OLD(g_hu_seen) + 1 && g_hu_ptr == message + (g_hu_k - V_OLD(g_hu_total)))) /*@C06,C09.hash_update.records_fed_byte*/
V_ENSURES((__CPROVER_return_value && message != NULL && HU_HIT(hash, size)) || (g_hu_seen == V_OLD(g_hu_seen) && g_hu_ptr == V_OLD(g_hu_ptr))) /*@C06.hash_update.record_unchanged_elsewhere*/
V_ENSURES((__CPROVER_return_value && hash == g_hu_hash && message != NULL) || g_hu_total == V_OLD(g_hu_total)) /*@C06.hash_update.total_unchanged_elsewhere*/
;

/* NOTE (CBMC): is_fresh must be reached on every path on which the result is not NULL, otherwise the
 * result keeps an unknown value set and every later dereference is case-split over all objects */
/* g_k1: solver-chosen digest byte; g_fin_val records that byte of the digest returned for the
 * watched hash so that callers' verdicts can be tied to the comparison they make. */
char *hash_finalize(zckCtx *zck, zckHash *hash)
V_REQUIRES(zck == NULL || __CPROVER_rw_ok(zck, sizeof(*zck)))
V_REQUIRES(HASH_OBJ_WF(hash))
V_ASSIGNS(hash->type, hash->ctx, g_hu_final, g_fin_val, g_fin_total, g_fin_seen, g_fin_ptr; zck != NULL: zck->error_state)
V_FREES(hash->ctx)
V_ENSURES(__CPROVER_return_value == NULL || (hash->ctx == NULL && hash->type == NULL)) /*@C03.hash_finalize.result_implies_hash_closed*/
V_ENSURES(__CPROVER_return_value != NULL || (hash->ctx == NULL && hash->type == NULL) || (hash->ctx == V_OLD(hash->ctx) && hash->type == V_OLD(hash->type))) /*@C03.hash_finalize.failure_closes_hash_or_leaves_it_untouched_out_of_memory*/
V_ENSURES(__CPROVER_return_value == NULL || __CPROVER_is_fresh(__CPROVER_return_value, SPEC_ALLOC_DIGEST(HASH_TYPE_OLD(hash)))) /*@C03.hash_finalize.digest_buffer_size*/
V_ENSURES(__CPROVER_return_value == NULL || (V_OLD(hash->type) != NULL && V_OLD(hash->ctx) != NULL && SPEC_HASH_VALID(HASH_TYPE_OLD(hash)))) /*@C03.hash_finalize.needs_initialised_hash*/
V_ENSURES(__CPROVER_return_value != NULL || zck == NULL || zck->error_state > 0 || V_OLD(hash->ctx) != NULL) /*@C03.hash_finalize.failure*/
V_ENSURES(__CPROVER_return_value == NULL || zck == NULL || zck->error_state == V_OLD(zck->error_state)) /*@C12.hash_finalize.success_keeps_error_state*/
V_ENSURES(hash != g_hu_hash || __CPROVER_return_value == NULL || (g_hu_final == V_OLD(g_hu_final) + 1 && g_fin_total == g_hu_total && g_fin_seen == g_hu_seen && g_fin_ptr == g_hu_ptr && (!(g_k1 < (size_t)SPEC_ALLOC_DIGEST(HASH_TYPE_OLD(hash))) || g_fin_val == __CPROVER_return_value[g_k1]))) /*@C06,C09.hash_finalize.records_digest_byte*/
V_ENSURES((hash == g_hu_hash && __CPROVER_return_value != NULL) || (g_hu_final == V_OLD(g_hu_final) && g_fin_val == V_OLD(g_fin_val) && g_fin_total == V_OLD(g_fin_total) && g_fin_seen == V_OLD(g_fin_seen) && g_fin_ptr == V_OLD(g_fin_ptr))) /*@C06.hash_finalize.record_unchanged_elsewhere*/
;

/* validate_header: 1 = stored header checksum equals the computed one, -1 = differs, 0 = error */
int validate_header(zckCtx *zck)
V_REQUIRES(__CPROVER_rw_ok(zck, sizeof(*zck)))
V_REQUIRES(HASH_OBJ_WF(&zck->check_full_hash))
V_REQUIRES(SPEC_HASH_VALID(zck->hash_type.type) && zck->hash_type.digest_size == SPEC_DIGEST_SIZE(zck->hash_type.type))
V_REQUIRES(zck->header_digest != NULL && __CPROVER_r_ok(zck->header_digest, zck->hash_type.digest_size))
V_ASSIGNS(zck->check_full_hash.type, zck->check_full_hash.ctx, zck->error_state, g_hu_total, g_hu_seen, g_hu_ptr, g_hu_final, g_hu_inits, g_fin_val, g_fin_total, g_fin_seen, g_fin_ptr)
V_FREES(zck->check_full_hash.ctx)
V_ENSURES(__CPROVER_return_value == 1 || __CPROVER_return_value == 0 || __CPROVER_return_value == -1) /*@C06.validate_header.ret*/
V_ENSURES(__CPROVER_return_value != 1 || &zck->check_full_hash != g_hu_hash || g_hu_final == V_OLD(g_hu_final) + 1) /*@C06.validate_header.finalizes_the_running_header_hash*/
V_ENSURES(__CPROVER_return_value != 1 || &zck->check_full_hash != g_hu_hash || (g_fin_total == V_OLD(g_hu_total) && g_fin_seen == V_OLD(g_hu_seen) && g_fin_ptr == V_OLD(g_hu_ptr))) /*@C06.validate_header.over_everything_fed_so_far*/
V_ENSURES(__CPROVER_return_value != 1 || &zck->check_full_hash != g_hu_hash || !(g_k1 < (size_t)zck->hash_type.digest_size) || (zck->header_digest != NULL && g_fin_val == zck->header_digest[g_k1])) /*@C06.validate_header.accepts_only_if_every_digest_byte_equal*/
V_ENSURES(__CPROVER_return_value != 1 || (zck->check_full_hash.ctx != NULL && zck->check_full_hash.type == &zck->hash_type)) /*@C06,C09.validate_header.reinitialises_running_hash*/
V_ENSURES(__CPROVER_return_value == 1 || V_OLD(zck->error_state) > 0 || zck->error_state > 0 || __CPROVER_return_value == -1 || zck->check_full_hash.ctx == NULL) /*@C06.validate_header.failure*/
;

/* ---- chunk / data checksum verdicts (src/lib/hash/hash.c) ---------------------------------- */
/* index invariant for one entry: its digest buffer has the index's digest size, which is the digest
 * size of the chunk checksum type (index_read / index_create establish this) */
#define CHUNK_WF(c) (__CPROVER_rw_ok((c), sizeof(zckChunk)) && (c)->zck != NULL && __CPROVER_rw_ok((c)->zck, sizeof(zckCtx)) && \
    SPEC_HASH_VALID((c)->zck->chunk_hash_type.type) && (c)->zck->chunk_hash_type.digest_size == SPEC_DIGEST_SIZE((c)->zck->chunk_hash_type.type) && \
    (c)->digest_size == (c)->zck->chunk_hash_type.digest_size && (c)->digest != NULL && __CPROVER_r_ok((c)->digest, (c)->digest_size))
/* the running chunk hash is either closed or was initialised with the chunk checksum type */
#define CHUNK_HASH_WF(z) (HASH_OBJ_WF(&(z)->check_chunk_hash) && ((z)->check_chunk_hash.type == NULL || (z)->check_chunk_hash.type == &(z)->chunk_hash_type))

/* 1 = the bytes fed to check_chunk_hash since its last init hash to the index digest (an empty
 * stored chunk is represented by an all-zero digest), -1 = they do not, 0 = error.
 * Watched hash object for the ghost model: &idx->zck->check_chunk_hash. */
int validate_chunk(zckChunk *idx, zck_log_type bad_checksum)
V_REQUIRES_WF(CHUNK_WF(idx))              /* _WF: compiled out in control-only units (-DVERIF_CTL), identical text everywhere else */
V_REQUIRES_WF(CHUNK_HASH_WF(idx->zck))
/* C09 call-site guard (spec/ghost.h, present only with -DVERIF_SCAN_GUARD: units/scan.c): the validity scan asks for the verdict with the descriptor just
 * behind the chunk's last stored byte and exactly comp_length bytes fed to the running chunk hash since its initialisation */
V_REQUIRES_SCAN((g_fpos[G_IX(idx->zck->fd)] == (g_off_t)idx->zck->data_offset + (g_off_t)idx->start + (g_off_t)idx->comp_length && idx->zck->check_chunk_hash.ctx != NULL && (g_hu_hash != &idx->zck->check_chunk_hash || g_hu_total == idx->comp_length)))
V_ASSIGNS(idx->valid, idx->zck->check_chunk_hash.type, idx->zck->check_chunk_hash.ctx, idx->zck->error_state, g_hu_final, g_fin_val, g_fin_total, g_fin_seen, g_fin_ptr)
V_FREES(idx->zck->check_chunk_hash.ctx)
V_ENSURES(__CPROVER_return_value == 1 || __CPROVER_return_value == 0 || __CPROVER_return_value == -1) /*@C02.validate_chunk.ret*/
V_ENSURES(V_OLD(idx->zck->error_state) > 0 || idx->valid == __CPROVER_return_value) /*@C02,C09,C08,C05.validate_chunk.valid_flag_is_the_verdict*/
V_ENSURES(__CPROVER_return_value != 1 || V_OLD(idx->zck->error_state) == 0) /*@C02,C12.validate_chunk.never_valid_on_a_context_in_error*/
V_ENSURES(__CPROVER_return_value != 1 || &idx->zck->check_chunk_hash != g_hu_hash || (g_hu_final == V_OLD(g_hu_final) + 1 && g_fin_total == V_OLD(g_hu_total) && g_fin_seen == V_OLD(g_hu_seen) && g_fin_ptr == V_OLD(g_hu_ptr))) /*@C02,C15,C09.validate_chunk.verdict_is_over_everything_fed_since_init*/
V_ENSURES(__CPROVER_return_value != 1 || &idx->zck->check_chunk_hash != g_hu_hash || idx->comp_length == 0 || !(g_k1 < (size_t)idx->digest_size) || g_fin_val == idx->digest[g_k1]) /*@C02,C15,C09,C08,C05.validate_chunk.valid_only_if_every_digest_byte_equal*/
V_ENSURES(__CPROVER_return_value != 1 || idx->comp_length != 0 || !(g_k1 < (size_t)idx->digest_size) || idx->digest[g_k1] == 0) /*@C02,C09.validate_chunk.empty_chunk_needs_zero_digest*/
V_ENSURES(((V_OLD(idx->zck->error_state) > 0 || __CPROVER_return_value == 0) && idx->zck->check_chunk_hash.ctx == V_OLD(idx->zck->check_chunk_hash.ctx) && idx->zck->check_chunk_hash.type == V_OLD(idx->zck->check_chunk_hash.type)) || (idx->zck->check_chunk_hash.ctx == NULL && idx->zck->check_chunk_hash.type == NULL)) /*@C03.validate_chunk.hash_closed_or_untouched*/
V_ENSURES(__CPROVER_return_value != 0 || idx->zck->error_state > 0) /*@C12.validate_chunk.error_sets_error_state*/
V_ENSURES(__CPROVER_return_value != 1 || idx->zck->error_state == 0) /*@C12.validate_chunk.valid_verdict_leaves_no_error*/
V_ENSURES(&idx->zck->check_chunk_hash == g_hu_hash || (g_hu_final == V_OLD(g_hu_final) && g_fin_val == V_OLD(g_fin_val) && g_fin_total == V_OLD(g_fin_total) && g_fin_seen == V_OLD(g_fin_seen) && g_fin_ptr == V_OLD(g_fin_ptr))) /*@C02.validate_chunk.other_hash_untouched*/
V_ENSURES(__CPROVER_return_value == 0 || idx->zck->error_state == V_OLD(idx->zck->error_state)) /*@C12.validate_chunk.verdict_keeps_state*/
;

int validate_current_chunk(zckCtx *zck)
V_REQUIRES(__CPROVER_rw_ok(zck, sizeof(*zck)))
V_REQUIRES(zck->comp.data_idx != NULL && CHUNK_WF(zck->comp.data_idx) && zck->comp.data_idx->zck == zck)
V_REQUIRES(CHUNK_HASH_WF(zck))
V_ASSIGNS(zck->comp.data_idx->valid, zck->check_chunk_hash.type, zck->check_chunk_hash.ctx, zck->error_state, g_hu_final, g_fin_val, g_fin_total, g_fin_seen, g_fin_ptr)
V_FREES(zck->check_chunk_hash.ctx)
V_ENSURES(__CPROVER_return_value == 1 || __CPROVER_return_value == 0 || __CPROVER_return_value == -1) /*@C02.validate_current_chunk.ret*/
V_ENSURES(__CPROVER_return_value != 1 || (V_OLD(zck->error_state) == 0 && zck->error_state == 0 && zck->comp.data_idx->valid == 1)) /*@C02,C15.validate_current_chunk.one_means_chunk_marked_valid*/
V_ENSURES(&zck->check_chunk_hash == g_hu_hash || (g_hu_final == V_OLD(g_hu_final) && g_fin_val == V_OLD(g_fin_val) && g_fin_total == V_OLD(g_fin_total) && g_fin_seen == V_OLD(g_fin_seen) && g_fin_ptr == V_OLD(g_fin_ptr))) /*@C02.validate_current_chunk.other_hash_untouched*/
V_ENSURES(__CPROVER_return_value != 1 || &zck->check_chunk_hash != g_hu_hash || (g_hu_final == V_OLD(g_hu_final) + 1 && g_fin_total == V_OLD(g_hu_total) && g_fin_seen == V_OLD(g_hu_seen))) /*@C02,C15.validate_current_chunk.verdict_is_over_everything_fed_since_init*/
V_ENSURES(((V_OLD(zck->error_state) > 0 || __CPROVER_return_value == 0) && zck->check_chunk_hash.ctx == V_OLD(zck->check_chunk_hash.ctx) && zck->check_chunk_hash.type == V_OLD(zck->check_chunk_hash.type)) || (zck->check_chunk_hash.ctx == NULL && zck->check_chunk_hash.type == NULL)) /*@C03.validate_current_chunk.hash_closed_or_untouched*/
V_ENSURES(__CPROVER_return_value != 1 || &zck->check_chunk_hash != g_hu_hash || zck->comp.data_idx->comp_length == 0 || !(g_k1 < (size_t)zck->comp.data_idx->digest_size) || g_fin_val == zck->comp.data_idx->digest[g_k1]) /*@C02,C15.validate_current_chunk.valid_only_if_every_digest_byte_equal*/
;

/* whole-data checksum: 1 = matches the stored data checksum (or the file has the uncompressed-source
 * flag, for which the format defines no data checksum), -1 = differs, 0 = error */
int validate_file(zckCtx *zck, zck_log_type bad_checksums)
V_REQUIRES(__CPROVER_rw_ok(zck, sizeof(*zck)))
V_REQUIRES(HASH_OBJ_WF(&zck->check_full_hash) && (zck->check_full_hash.type == NULL || zck->check_full_hash.type == &zck->hash_type))
V_REQUIRES(SPEC_HASH_VALID(zck->hash_type.type) && zck->hash_type.digest_size == SPEC_DIGEST_SIZE(zck->hash_type.type))
V_REQUIRES(zck->has_uncompressed_source != 0 || (zck->full_hash_digest != NULL && __CPROVER_r_ok(zck->full_hash_digest, zck->hash_type.digest_size)))
/* C09 call-site guard (-DVERIF_SCAN_GUARD): the scan asks for the data verdict with the whole data section (g_scan_total bytes) read and hashed */
V_REQUIRES_SCAN(zck->has_uncompressed_source != 0 || (g_fpos[G_IX(zck->fd)] == (g_off_t)zck->data_offset + (g_off_t)g_scan_total && zck->check_full_hash.ctx != NULL && (g_hu_hash != &zck->check_full_hash || g_hu_total == g_scan_total)))
V_ASSIGNS(zck->check_full_hash.type, zck->check_full_hash.ctx, zck->error_state, g_hu_final, g_fin_val, g_fin_total, g_fin_seen, g_fin_ptr)
V_FREES(zck->check_full_hash.ctx)
V_ENSURES(__CPROVER_return_value == 1 || __CPROVER_return_value == 0 || __CPROVER_return_value == -1) /*@C02.validate_file.ret*/
V_ENSURES(__CPROVER_return_value != 1 || zck->has_uncompressed_source != 0 || &zck->check_full_hash != g_hu_hash || (g_hu_final == V_OLD(g_hu_final) + 1 && g_fin_total == V_OLD(g_hu_total) && g_fin_seen == V_OLD(g_hu_seen))) /*@C02,C09.validate_file.verdict_is_over_everything_fed_since_init*/
V_ENSURES(__CPROVER_return_value != 1 || zck->has_uncompressed_source != 0 || &zck->check_full_hash != g_hu_hash || !(g_k1 < (size_t)zck->hash_type.digest_size) || (zck->full_hash_digest != NULL && g_fin_val == zck->full_hash_digest[g_k1])) /*@C02,C09.validate_file.valid_only_if_every_digest_byte_equal*/
V_ENSURES(__CPROVER_return_value != 0 || zck->error_state > 0) /*@C12.validate_file.error_sets_error_state*/
V_ENSURES(__CPROVER_return_value != -1 || zck->has_uncompressed_source != 0 || &zck->check_full_hash != g_hu_hash || g_hu_final == V_OLD(g_hu_final) + 1) /*@C09.validate_file.mismatch_is_a_verdict_over_a_finalised_digest*/
V_ENSURES(__CPROVER_return_value == 0 || zck->error_state == V_OLD(zck->error_state)) /*@C12.validate_file.verdict_keeps_state*/
V_ENSURES(__CPROVER_return_value == 0 || V_OLD(zck->error_state) == 0) /*@C12.validate_file.no_verdict_on_a_context_in_error*/
V_ENSURES(zck->has_uncompressed_source == 0 || (zck->check_full_hash.ctx == V_OLD(zck->check_full_hash.ctx) && zck->check_full_hash.type == V_OLD(zck->check_full_hash.type))) /*@C09.validate_file.uncompressed_source_leaves_the_hash_alone*/
;
#endif
