/* Contracts of the hashing entry points of src/lib/hash/hash.c as seen by their callers.
 * The digest VALUE is not modelled (hash functions are trusted / treated under C18): a finalize
 * returns "a fresh buffer of the back end's digest size, arbitrary content, or NULL".  Ghost
 * state records WHICH bytes were fed to one watched zckHash object (ghost-index idiom:
 * g_hu_k is a solver-chosen stream offset). */
#ifndef CONTRACTS_HASHFN_H
#define CONTRACTS_HASHFN_H
#include "spec/ghost.h"
#include "spec/spec_hash.h"

/* bytes lib_hash_final allocates for a type (SHA-512/128 gets the 64-byte SHA-512 buffer) */
#define SPEC_ALLOC_DIGEST(t) ((t) == 0 ? 20 : (t) == 1 ? 32 : 64)
#define HASH_OBJ_WF(h) (__CPROVER_rw_ok((h), sizeof(zckHash)) && ((h)->type == NULL || __CPROVER_r_ok((h)->type, sizeof(zckHashType))))

char *get_digest_string(const char *digest, int size)
V_REQUIRES(size >= 0 && size <= SPEC_MAX_DIGEST)
V_REQUIRES(digest == NULL || __CPROVER_r_ok(digest, size))
V_ASSIGNS()
V_ENSURES(__CPROVER_return_value == NULL || __CPROVER_is_fresh(__CPROVER_return_value, (size_t)size * 2 + 1)) /*@C03.get_digest_string.fresh_or_null*/
;

bool hash_init(zckCtx *zck, zckHash *hash, zckHashType *hash_type)
V_REQUIRES(zck == NULL || __CPROVER_rw_ok(zck, sizeof(*zck)))
V_REQUIRES(HASH_OBJ_WF(hash))
V_REQUIRES(hash_type == NULL || __CPROVER_r_ok(hash_type, sizeof(*hash_type)))
V_ASSIGNS(hash->type, hash->ctx, g_hu_total, g_hu_seen, g_hu_ptr, g_hu_final, g_hu_inits; zck != NULL: zck->error_state)
V_FREES(hash->ctx)
V_ENSURES(!__CPROVER_return_value || (hash->type == hash_type && hash_type != NULL && hash->ctx != NULL && __CPROVER_is_fresh(hash->ctx, 1))) /*@C03.hash_init.initialised*/
V_ENSURES(__CPROVER_return_value || zck == NULL || zck->error_state > 0 || hash->ctx == NULL) /*@C03.hash_init.failure*/
V_ENSURES(__CPROVER_return_value || hash->ctx == NULL) /*@C03.hash_init.no_ctx_on_failure*/
V_ENSURES(hash != g_hu_hash || (g_hu_total == 0 && g_hu_seen == 0 && g_hu_final == 0 && g_hu_inits == V_OLD(g_hu_inits) + 1)) /*@C06,C09.hash_init.restarts_stream*/
V_ENSURES(hash == g_hu_hash || (g_hu_total == V_OLD(g_hu_total) && g_hu_seen == V_OLD(g_hu_seen) && g_hu_ptr == V_OLD(g_hu_ptr) && g_hu_final == V_OLD(g_hu_final) && g_hu_inits == V_OLD(g_hu_inits))) /*@C06.hash_init.other_hash_untouched*/
;

bool hash_update(zckCtx *zck, zckHash *hash, const char *message, const size_t size)
V_REQUIRES(zck == NULL || __CPROVER_rw_ok(zck, sizeof(*zck)))
V_REQUIRES(hash == NULL || HASH_OBJ_WF(hash))
V_REQUIRES(message == NULL || size == 0 || __CPROVER_r_ok(message, size))      /* every fed region is readable */
V_ASSIGNS(g_hu_total, g_hu_seen, g_hu_ptr; zck != NULL: zck->error_state)
V_ENSURES(!__CPROVER_return_value || (message == NULL && size == 0) || (hash != NULL && hash->ctx != NULL && hash->type != NULL)) /*@C03.hash_update.needs_initialised_hash*/
V_ENSURES(__CPROVER_return_value || zck == NULL || zck->error_state > 0) /*@C12.hash_update.failure_sets_error*/
#define HU_HIT(h, n) ((h) == g_hu_hash && g_hu_k >= V_OLD(g_hu_total) && g_hu_k - V_OLD(g_hu_total) < (n))
V_ENSURES(!__CPROVER_return_value || hash != g_hu_hash || message == NULL || g_hu_total == V_OLD(g_hu_total) + size) /*@C06,C09.hash_update.stream_grows_by_size*/
V_ENSURES(!__CPROVER_return_value || message == NULL || !HU_HIT(hash, size) || (g_hu_seen == V_OLD(g_hu_seen) + 1 && g_hu_ptr == message + (g_hu_k - V_OLD(g_hu_total)))) /*@C06,C09.hash_update.records_fed_byte*/
V_ENSURES((__CPROVER_return_value && message != NULL && HU_HIT(hash, size)) || (g_hu_seen == V_OLD(g_hu_seen) && g_hu_ptr == V_OLD(g_hu_ptr))) /*@C06.hash_update.record_unchanged_elsewhere*/
V_ENSURES((__CPROVER_return_value && hash == g_hu_hash && message != NULL) || g_hu_total == V_OLD(g_hu_total)) /*@C06.hash_update.total_unchanged_elsewhere*/
;

/* g_k1: solver-chosen digest byte; g_fin_val records that byte of the digest returned for the
 * watched hash so that callers' verdicts can be tied to the comparison they make. */
char *hash_finalize(zckCtx *zck, zckHash *hash)
V_REQUIRES(zck == NULL || __CPROVER_rw_ok(zck, sizeof(*zck)))
V_REQUIRES(HASH_OBJ_WF(hash))
V_ASSIGNS(hash->type, hash->ctx, g_hu_final, g_fin_val, g_fin_total, g_fin_seen, g_fin_ptr; zck != NULL: zck->error_state)
V_FREES(hash->ctx)
V_ENSURES(hash->ctx == NULL && hash->type == NULL) /*@C03.hash_finalize.closes_hash*/
V_ENSURES(__CPROVER_return_value == NULL || (V_OLD(hash->type) != NULL && V_OLD(hash->ctx) != NULL && SPEC_HASH_VALID(V_OLD(hash->type)->type) && __CPROVER_is_fresh(__CPROVER_return_value, SPEC_ALLOC_DIGEST(V_OLD(hash->type)->type)))) /*@C03.hash_finalize.digest_buffer_size*/
V_ENSURES(__CPROVER_return_value != NULL || zck == NULL || zck->error_state > 0 || V_OLD(hash->ctx) != NULL) /*@C03.hash_finalize.failure*/
V_ENSURES(hash != g_hu_hash || __CPROVER_return_value == NULL || (g_hu_final == V_OLD(g_hu_final) + 1 && g_fin_total == g_hu_total && g_fin_seen == g_hu_seen && g_fin_ptr == g_hu_ptr && (!(g_k1 < (size_t)SPEC_ALLOC_DIGEST(V_OLD(hash->type)->type)) || g_fin_val == __CPROVER_return_value[g_k1]))) /*@C06,C09.hash_finalize.records_digest_byte*/
V_ENSURES((hash == g_hu_hash && __CPROVER_return_value != NULL) || (g_hu_final == V_OLD(g_hu_final) && g_fin_val == V_OLD(g_fin_val) && g_fin_total == V_OLD(g_fin_total) && g_fin_seen == V_OLD(g_fin_seen) && g_fin_ptr == V_OLD(g_fin_ptr))) /*@C06.hash_finalize.record_unchanged_elsewhere*/
;

/* validate_header: 1 = stored header checksum equals the computed one, -1 = differs, 0 = error */
int validate_header(zckCtx *zck)
V_REQUIRES(__CPROVER_rw_ok(zck, sizeof(*zck)))
V_REQUIRES(HASH_OBJ_WF(&zck->check_full_hash))
V_REQUIRES(SPEC_HASH_VALID(zck->hash_type.type) && zck->hash_type.digest_size == SPEC_DIGEST_SIZE(zck->hash_type.type))
V_REQUIRES(zck->header_digest == NULL || __CPROVER_r_ok(zck->header_digest, zck->hash_type.digest_size))
V_ASSIGNS(zck->check_full_hash.type, zck->check_full_hash.ctx, zck->error_state, g_hu_total, g_hu_seen, g_hu_ptr, g_hu_final, g_hu_inits, g_fin_val, g_fin_total, g_fin_seen, g_fin_ptr)
V_FREES(zck->check_full_hash.ctx)
V_ENSURES(__CPROVER_return_value == 1 || __CPROVER_return_value == 0 || __CPROVER_return_value == -1) /*@C06.validate_header.ret*/
V_ENSURES(__CPROVER_return_value != 1 || &zck->check_full_hash != g_hu_hash || g_hu_final == V_OLD(g_hu_final) + 1) /*@C06.validate_header.finalizes_the_running_header_hash*/
V_ENSURES(__CPROVER_return_value != 1 || &zck->check_full_hash != g_hu_hash || (g_fin_total == V_OLD(g_hu_total) && g_fin_seen == V_OLD(g_hu_seen) && g_fin_ptr == V_OLD(g_hu_ptr))) /*@C06.validate_header.over_everything_fed_so_far*/
V_ENSURES(__CPROVER_return_value != 1 || &zck->check_full_hash != g_hu_hash || !(g_k1 < (size_t)zck->hash_type.digest_size) || (zck->header_digest != NULL && g_fin_val == zck->header_digest[g_k1])) /*@C06.validate_header.accepts_only_if_every_digest_byte_equal*/
V_ENSURES(__CPROVER_return_value != 1 || (zck->check_full_hash.ctx != NULL && zck->check_full_hash.type == &zck->hash_type)) /*@C06,C09.validate_header.reinitialises_running_hash*/
V_ENSURES(__CPROVER_return_value == 1 || V_OLD(zck->error_state) > 0 || zck->error_state > 0 || __CPROVER_return_value == -1 || zck->check_full_hash.ctx == NULL) /*@C06.validate_header.failure*/
;
#endif
