/* Contracts for src/lib/header.c.  Layout facts are written from zchunk_format.txt:
 *   lead    = id[5] ‖ compint(checksum type) ‖ compint(header size) ‖ header checksum[digest]
 *   preface = data checksum[digest] ‖ compint(flags) ‖ compint(compression type)
 *             [‖ compint(optional element count) ‖ {compint id ‖ compint size ‖ data}*] (flag 2)
 *   index   = compint(index size) ‖ compint(chunk checksum type) ‖ compint(chunk count) ‖ entries
 *   sigs    = compint(signature count) ...                                                   */
#ifndef CONTRACTS_HEADER_H
#define CONTRACTS_HEADER_H
#include "spec/spec_compint.h"
#include "spec/spec_hash.h"
#include "spec/ghost.h"

#define LEAD_MIN (5 + 2 * MAX_COMP_SIZE)      /* bytes read_lead always requests first */
/* spec decode of the lead found in buffer h (which holds at least LEAD_MIN bytes) */
static inline size_t lead_n1(const char *h) { return spec_ci_len(h + 5, LEAD_MIN - 5); }
static inline v_u128 lead_type(const char *h) { return spec_ci_val(h + 5, lead_n1(h)); }
static inline size_t lead_n2(const char *h) { size_t n1 = lead_n1(h); return spec_ci_len(h + 5 + n1, LEAD_MIN - 5 - n1); }
static inline v_u128 lead_hlen(const char *h) { size_t n1 = lead_n1(h); return spec_ci_val(h + 5 + n1, lead_n2(h)); }
#define LEAD_N1(h)   lead_n1(h)
#define LEAD_TYPE(h) lead_type(h)
#define LEAD_N2(h)   lead_n2(h)
#define LEAD_HLEN(h) lead_hlen(h)
#define IS_ZCK1(h) ((h)[0] == 0 && (h)[1] == 'Z' && (h)[2] == 'C' && (h)[3] == 'K' && (h)[4] == '1')
#define IS_ZHR1(h) ((h)[0] == 0 && (h)[1] == 'Z' && (h)[2] == 'H' && (h)[3] == 'R' && (h)[4] == '1')

/* pins set by zck_set_ioption/zck_set_soption (their postconditions) */
#define PIN_WF(z) ((z)->prep_digest == NULL || (SPEC_HASH_VALID((z)->prep_hash_type) && \
                   __CPROVER_r_ok((z)->prep_digest, SPEC_DIGEST_SIZE((z)->prep_hash_type))))

/* g_k1: solver-chosen digest byte index.  g_watch_*: solver-chosen file offset (ghost.h). */
static bool read_lead(zckCtx *zck)
V_REQUIRES(__CPROVER_rw_ok(zck, sizeof(*zck)))
V_REQUIRES(PIN_WF(zck))
V_REQUIRES(zck->header_digest == NULL && zck->header == NULL)
V_ASSIGNS(zck->header, zck->header_size, zck->header_length, zck->hdr_digest_loc, zck->lead_string, zck->lead_size, zck->header_digest, zck->hash_type, zck->header_only, zck->error_state, g_fpos, g_rd_bytes, g_io_failed, g_last_read, g_watch_seen, g_watch_val)
V_ENSURES(!__CPROVER_return_value || (zck->header != NULL && zck->header_size >= LEAD_MIN && zck->header_size >= zck->lead_size && __CPROVER_rw_ok(zck->header, zck->header_size))) /*@C03,C13.read_lead.header_buffer_holds_header_size_bytes*/
V_ENSURES(!__CPROVER_return_value || IS_ZCK1(zck->header) || IS_ZHR1(zck->header)) /*@C06,C13.read_lead.magic*/
V_ENSURES(!__CPROVER_return_value || !IS_ZHR1(zck->header) || zck->header_only) /*@C13.read_lead.detached_flag*/
V_ENSURES(!__CPROVER_return_value || (LEAD_N1(zck->header) >= 1 && LEAD_TYPE(zck->header) <= 3 && zck->hash_type.type == (int)LEAD_TYPE(zck->header) && zck->hash_type.digest_size == SPEC_DIGEST_SIZE((int)LEAD_TYPE(zck->header)))) /*@C13,C06,C07.read_lead.checksum_type_is_the_stored_one*/
V_ENSURES(!__CPROVER_return_value || (LEAD_N2(zck->header) >= 1 && spec_ci_fits64(zck->header + 5 + LEAD_N1(zck->header), LEAD_N2(zck->header)) && zck->header_length == (size_t)LEAD_HLEN(zck->header))) /*@C13,C07.read_lead.header_length_is_the_stored_one*/
V_ENSURES(!__CPROVER_return_value || (zck->hdr_digest_loc == 5 + LEAD_N1(zck->header) + LEAD_N2(zck->header) && zck->lead_size == zck->hdr_digest_loc + (size_t)zck->hash_type.digest_size && zck->lead_string == zck->header)) /*@C13,C06.read_lead.layout*/
V_ENSURES(!__CPROVER_return_value || (zck->header_digest != NULL && __CPROVER_r_ok(zck->header_digest, zck->hash_type.digest_size) && (!(g_k1 < (size_t)zck->hash_type.digest_size) || zck->header_digest[g_k1] == zck->header[zck->hdr_digest_loc + g_k1]))) /*@C13,C06,C07.read_lead.header_digest_is_the_stored_one*/
V_ENSURES(!__CPROVER_return_value || zck->prep_hash_type < 0 || zck->prep_hash_type == zck->hash_type.type) /*@C07.read_lead.pinned_type_matches*/
V_ENSURES(!__CPROVER_return_value || zck->prep_digest == NULL || !(g_k1 < (size_t)zck->hash_type.digest_size) || zck->prep_digest[g_k1] == zck->header_digest[g_k1]) /*@C07.read_lead.pinned_digest_matches_every_byte*/
V_ENSURES(!__CPROVER_return_value || zck->prep_hdr_size < 0 || (size_t)zck->prep_hdr_size == zck->lead_size + zck->header_length) /*@C07.read_lead.pinned_length_matches*/
V_ENSURES(!__CPROVER_return_value || (g_fpos[G_IX(zck->fd)] == V_OLD(g_fpos[G_IX(zck->fd)]) + (g_off_t)zck->header_size && zck->header_size == (zck->lead_size > LEAD_MIN ? zck->lead_size : LEAD_MIN))) /*@C13,C06.read_lead.consumed_exactly_header_size_bytes*/
V_ENSURES(!__CPROVER_return_value || zck->fd != g_watch_fd || !(g_watch_off >= V_OLD(g_fpos[G_IX(zck->fd)]) && g_watch_off - V_OLD(g_fpos[G_IX(zck->fd)]) < (g_off_t)zck->header_size) || (g_watch_seen == 1 && (unsigned char)zck->header[g_watch_off - V_OLD(g_fpos[G_IX(zck->fd)])] == g_watch_val)) /*@C13,C06.read_lead.buffer_holds_the_file_bytes*/
V_ENSURES(__CPROVER_return_value || zck->header_digest == NULL) /*@C07.read_lead.no_digest_left_on_failure*/
;

/* state after a successful read_lead (its postcondition), needed by read_header_from_file */
#define LEAD_DONE(z) ((z)->header != NULL && (z)->header_size >= (z)->lead_size && __CPROVER_rw_ok((z)->header, (z)->header_size) && \
    (z)->hdr_digest_loc >= 7 && (z)->hdr_digest_loc <= LEAD_MIN && SPEC_HASH_VALID((z)->hash_type.type) && \
    (z)->hash_type.digest_size == SPEC_DIGEST_SIZE((z)->hash_type.type) && (z)->lead_size == (z)->hdr_digest_loc + (size_t)(z)->hash_type.digest_size && \
    (z)->header_size == ((z)->lead_size > LEAD_MIN ? (z)->lead_size : LEAD_MIN) && \
    (z)->header_digest != NULL && __CPROVER_r_ok((z)->header_digest, (z)->hash_type.digest_size))

/* C06: the header checksum is computed over id ‖ lead up to the digest ‖ everything after the
 * digest, and the header is accepted only if validate_header says 1 for exactly that stream.
 * Watched hash object: &zck->check_full_hash.  g_hu_k: solver-chosen stream offset.        */
static bool read_header_from_file(zckCtx *zck)
V_REQUIRES(__CPROVER_rw_ok(zck, sizeof(*zck)))
V_REQUIRES(LEAD_DONE(zck))
V_REQUIRES(HASH_OBJ_WF(&zck->check_full_hash))
V_REQUIRES(g_hu_hash == &zck->check_full_hash)
V_ASSIGNS(zck->header, zck->header_size, zck->lead_string, zck->check_full_hash.type, zck->check_full_hash.ctx, zck->error_state, g_fpos, g_rd_bytes, g_io_failed, g_last_read, g_watch_seen, g_watch_val, g_hu_total, g_hu_seen, g_hu_ptr, g_hu_final, g_hu_inits, g_fin_val, g_fin_total, g_fin_seen, g_fin_ptr)
V_FREES(zck->header, zck->check_full_hash.ctx)
V_ENSURES(!__CPROVER_return_value || (zck->header != NULL && zck->header_size == zck->lead_size + zck->header_length && zck->header_size >= zck->lead_size && __CPROVER_rw_ok(zck->header, zck->header_size) && zck->lead_string == zck->header)) /*@C03,C13.read_header_from_file.buffer_holds_whole_header*/
V_ENSURES(!__CPROVER_return_value || g_hu_final == V_OLD(g_hu_final) + 1) /*@C06.read_header_from_file.checksum_was_validated*/
V_ENSURES(!__CPROVER_return_value || g_fin_total == zck->hdr_digest_loc + zck->header_length) /*@C06.read_header_from_file.hashed_length_is_whole_header_minus_digest*/
V_ENSURES(!__CPROVER_return_value || !(g_hu_k < zck->hdr_digest_loc + zck->header_length) || g_fin_seen == 1) /*@C06.read_header_from_file.every_byte_fed_exactly_once*/
/* the five identifier bytes are fed from a constant of the program, not from the file-supplied buffer (so the
 * detached-header magic is normalised).  The constant's CONTENT cannot be stated here: under --dfcc every static
 * object, string literals included, starts nondeterministic (CBMC 6.11), so `*g_fin_ptr == "\0ZCK1"[k]` is
 * unprovable for any code -- it was a false alarm of the first version of this contract. */
V_ENSURES(!__CPROVER_return_value || !(g_hu_k < 5) || (g_fin_ptr != NULL && !__CPROVER_same_object(g_fin_ptr, zck->header))) /*@C06.read_header_from_file.id_fed_from_a_constant_not_from_the_file*/
V_ENSURES(!__CPROVER_return_value || !(g_hu_k >= 5 && g_hu_k < zck->hdr_digest_loc) || g_fin_ptr == zck->header + g_hu_k) /*@C06.read_header_from_file.lead_bytes_fed_in_place*/
V_ENSURES(!__CPROVER_return_value || !(g_hu_k >= zck->hdr_digest_loc && g_hu_k < zck->hdr_digest_loc + zck->header_length) || g_fin_ptr == zck->header + (g_hu_k + (size_t)zck->hash_type.digest_size)) /*@C06.read_header_from_file.rest_fed_in_place*/
V_ENSURES(!__CPROVER_return_value || !(g_k1 < (size_t)zck->hash_type.digest_size) || g_fin_val == zck->header_digest[g_k1]) /*@C06.read_header_from_file.accepted_only_if_digest_equal*/
V_ENSURES(!__CPROVER_return_value || !(g_k2 < V_OLD(zck->header_size)) || zck->header[g_k2] == g_old_byte) /*@C06,C13.read_header_from_file.already_loaded_bytes_kept*/
V_ENSURES(!__CPROVER_return_value || g_fpos[G_IX(zck->fd)] == V_OLD(g_fpos[G_IX(zck->fd)]) + (g_off_t)(zck->header_size - V_OLD(zck->header_size))) /*@C13,C06.read_header_from_file.consumed_exactly_the_rest*/
V_ENSURES(!__CPROVER_return_value || zck->fd != g_watch_fd || !(g_watch_off >= V_OLD(g_fpos[G_IX(zck->fd)]) && g_watch_off - V_OLD(g_fpos[G_IX(zck->fd)]) < (g_off_t)(zck->header_size - V_OLD(zck->header_size))) || (g_watch_seen == 1 && (unsigned char)zck->header[V_OLD(zck->header_size) + (g_watch_off - V_OLD(g_fpos[G_IX(zck->fd)]))] == g_watch_val)) /*@C13,C06.read_header_from_file.buffer_holds_the_file_bytes*/
;

/* ---- state predicates of the header parsing pipeline (each is the postcondition of the stage
 * before it and the precondition of the stage after it) ------------------------------------ */
/* after read_header_from_file: the buffer holds lead ‖ header, exactly header_size bytes */
#define HDR_LOADED(z) ((z)->header != NULL && (z)->header_size == (z)->lead_size + (z)->header_length && \
    (z)->header_size >= (z)->lead_size && __CPROVER_rw_ok((z)->header, (z)->header_size) && \
    SPEC_HASH_VALID((z)->hash_type.type) && (z)->hash_type.digest_size == SPEC_DIGEST_SIZE((z)->hash_type.type))
/* after read_preface */
#define PREFACE_DONE(z) ((z)->preface_string == (z)->header + (z)->lead_size && (z)->preface_size <= (z)->header_length && \
    (z)->index_size <= (size_t)INT_MAX)
/* after read_index */
#define INDEX_DONE(z) ((z)->index_string == (z)->header + ((z)->lead_size + (z)->preface_size) && \
    (z)->preface_size + (z)->index_size >= (z)->index_size && (z)->preface_size + (z)->index_size <= (z)->header_length)

/* Spec decode of the preface (zchunk_format.txt): data checksum[ds] ‖ compint flags ‖ compint
 * compression type ‖ [optional elements, flag 2] ‖ compint index size.  Evaluated ONCE per
 * clause (nested evaluation of the spec functions is what makes CBMC slow). */
#define PF_P(z)  ((z)->header + (z)->lead_size)
#define PF_DS(z) ((size_t)(z)->hash_type.digest_size)
static inline bool post_read_preface(const zckCtx *zck) {
    const char *p = zck->header + zck->lead_size;
    size_t hl = zck->header_length, ds = (size_t)zck->hash_type.digest_size;
    if(ds > hl) return false;
    size_t o = ds;
    size_t n1 = spec_ci_len(p + o, hl - o);
    if(n1 < 1 || !spec_ci_fits64(p + o, n1)) return false;
    size_t flags = (size_t)spec_ci_val(p + o, n1);
    o += n1;
    if((flags & ~(size_t)6) != 0) return false;                          /* only flags 2 and 4 are known */
    if(zck->has_streams != 0) return false;
    if((zck->has_optional_elems != 0) != ((flags & 2) != 0)) return false;
    if((zck->has_uncompressed_source != 0) != ((flags & 4) != 0)) return false;
    size_t n2 = spec_ci_len(p + o, hl - o);
    if(n2 < 1) return false;
    v_u128 ctype = spec_ci_val(p + o, n2);
    o += n2;
    if(!(ctype == ZCK_COMP_NONE || ctype == ZCK_COMP_ZSTD) || (v_u128)zck->comp.type != ctype) return false;
    if(zck->has_optional_elems != 0) return true;                       /* optional elements: only the bound below */
    size_t n3 = spec_ci_len(p + o, hl - o);
    if(n3 < 1) return false;
    v_u128 isize = spec_ci_val(p + o, n3);
    o += n3;
    return isize <= (v_u128)INT_MAX && (v_u128)zck->index_size == isize && zck->preface_size == o;
}

static bool read_preface(zckCtx *zck)
V_REQUIRES(__CPROVER_rw_ok(zck, sizeof(*zck)))
V_REQUIRES(HDR_LOADED(zck))
V_REQUIRES(zck->full_hash_digest == NULL)
V_ASSIGNS(zck->full_hash_digest, zck->has_streams, zck->has_optional_elems, zck->has_uncompressed_source, zck->comp, zck->manual_chunk, zck->chunk_min_size, zck->chunk_max_size, zck->buzhash_width, zck->buzhash_match_bits, zck->buzhash_bitmask, zck->chunk_auto_min, zck->chunk_auto_max, zck->index_size, zck->preface_string, zck->preface_size, zck->error_state)
V_ENSURES(!__CPROVER_return_value || (PF_DS(zck) <= zck->header_length && zck->full_hash_digest != NULL && __CPROVER_r_ok(zck->full_hash_digest, PF_DS(zck)) && (!(g_k1 < PF_DS(zck)) || zck->full_hash_digest[g_k1] == PF_P(zck)[g_k1]))) /*@C13.read_preface.data_checksum_is_the_stored_one*/
V_ENSURES(!__CPROVER_return_value || post_read_preface(zck)) /*@C13.read_preface.flags_comp_type_index_size_preface_size_are_the_stored_ones*/
V_ENSURES(!__CPROVER_return_value || PREFACE_DONE(zck)) /*@C03,C13.read_preface.cursor_stays_inside_header*/
V_ENSURES(!__CPROVER_return_value || zck->comp.started != 0) /*@C03.read_preface.decoder_started*/
;

#include "contracts/index_read.h"

static bool read_index(zckCtx *zck)
V_REQUIRES(__CPROVER_rw_ok(zck, sizeof(*zck)))
V_REQUIRES(HDR_LOADED(zck) && PREFACE_DONE(zck))
V_REQUIRES(zck->index_string == NULL && zck->index.first == NULL)
V_ASSIGNS(zck->index, zck->chunk_hash_type, zck->index_string, zck->error_state)
V_ENSURES(!__CPROVER_return_value || INDEX_DONE(zck)) /*@C03,C13.read_index.index_lies_inside_header*/
V_ENSURES(!__CPROVER_return_value || (zck->index.first != NULL && zck->index.count >= 1)) /*@C03,C13.read_index.at_least_the_dictionary_entry*/
;

/* signature block: compint(signature count) must decode to 0 (signatures are unsupported) */
static inline bool post_read_sig(const zckCtx *zck) {
    const char *p = zck->header + (zck->lead_size + zck->preface_size + zck->index_size);
    size_t n = spec_ci_len(p, zck->header_length - zck->preface_size - zck->index_size);
    return n >= 1 && spec_ci_val(p, n) == 0 && zck->sigs.count == 0 && zck->sig_size == n && zck->sig_string == p;
}
static bool read_sig(zckCtx *zck)
V_REQUIRES(__CPROVER_rw_ok(zck, sizeof(*zck)))
V_REQUIRES(HDR_LOADED(zck) && PREFACE_DONE(zck) && INDEX_DONE(zck))
V_ASSIGNS(zck->sigs.count, zck->data_offset, zck->sig_size, zck->sig_string, zck->error_state)
#define SIG_P(z) ((z)->header + ((z)->lead_size + (z)->preface_size + (z)->index_size))
#define SIG_AV(z) ((z)->header_length - (z)->preface_size - (z)->index_size)
V_ENSURES(!__CPROVER_return_value || post_read_sig(zck)) /*@C13,C03.read_sig.no_signatures_and_inside_header*/
V_ENSURES(!__CPROVER_return_value || zck->data_offset == zck->lead_size + zck->header_length) /*@C13.read_sig.data_offset_is_header_end*/
;
#endif
