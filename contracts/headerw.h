/* Contracts for the header-building side of src/lib/header.c (header_create, lead_create, preface_create,
 * sig_create, write_header) and index_create (src/lib/index/index_create.c) as header_create sees it.
 * C01: the header buffer is lead | preface | index | signatures, the sizes add up and every write stays inside
 * its allocation (generated checks); C06 (writer side): the header checksum is computed over exactly
 * lead[0 .. hdr_digest_loc) and header[lead_size .. header_size); C12: write_header reports a failed write. */
#ifndef CONTRACTS_HEADERW_H
#define CONTRACTS_HEADERW_H
#include "spec/ghost.h"
#include "spec/ghost_close.h"
#include "spec/spec_hash.h"
#include "spec/spec_compint.h"
#include "contracts/hashfn.h"

#define HT_WF(z) (SPEC_HASH_VALID((z)->hash_type.type) && (z)->hash_type.digest_size == SPEC_DIGEST_SIZE((z)->hash_type.type))
#define SPEC_FLAGS(z) (((z)->has_streams ? 1u : 0u) | ((z)->has_optional_elems ? 2u : 0u) | ((z)->has_uncompressed_source ? 4u : 0u))

static bool lead_create(zckCtx *zck)
V_REQUIRES(__CPROVER_rw_ok(zck, sizeof(*zck)) && HT_WF(zck))
V_ASSIGNS(zck->header_length, zck->hdr_digest_loc, zck->lead_string, zck->lead_size)
V_ENSURES(!__CPROVER_return_value || (zck->lead_string != NULL && __CPROVER_is_fresh(zck->lead_string, zck->lead_size))) /*@C01,C03.lead_create.lead_buffer_holds_lead_size_bytes*/
V_ENSURES(!__CPROVER_return_value || zck->header_length == zck->preface_size + zck->index_size + zck->sig_size) /*@C01,C13.lead_create.header_length_is_the_sum_of_the_parts_after_the_lead*/
V_ENSURES(!__CPROVER_return_value || zck->hdr_digest_loc == 5 + SPEC_CI_ENCLEN(zck->hash_type.type) + SPEC_CI_ENCLEN(zck->header_length)) /*@C01,C06.lead_create.header_checksum_slot_follows_magic_type_and_length*/
V_ENSURES(!__CPROVER_return_value || zck->lead_size == zck->hdr_digest_loc + (size_t)zck->hash_type.digest_size) /*@C01,C06.lead_create.lead_ends_with_the_header_checksum_slot*/
V_ENSURES(!__CPROVER_return_value || (zck->lead_string[0] == 0 && zck->lead_string[1] == 'Z' && zck->lead_string[2] == 'C' && zck->lead_string[3] == 'K' && zck->lead_string[4] == '1')) /*@C01,C07.lead_create.starts_with_the_magic*/
;

static bool preface_create(zckCtx *zck)
V_REQUIRES(__CPROVER_rw_ok(zck, sizeof(*zck)) && HT_WF(zck))
V_REQUIRES(zck->full_hash_digest != NULL && __CPROVER_r_ok(zck->full_hash_digest, zck->hash_type.digest_size))
V_ASSIGNS(zck->preface_string, zck->preface_size, zck->error_state)
V_ENSURES(!__CPROVER_return_value || (V_OLD(zck->error_state) <= 0 && zck->mode == ZCK_MODE_WRITE && zck->comp.type >= 0)) /*@C12.preface_create.no_success_on_a_context_in_error*/
V_ENSURES(!__CPROVER_return_value || (zck->preface_string != NULL && __CPROVER_is_fresh(zck->preface_string, zck->preface_size))) /*@C01,C03.preface_create.preface_buffer_holds_preface_size_bytes*/
V_ENSURES(!__CPROVER_return_value || zck->preface_size == (size_t)zck->hash_type.digest_size + SPEC_CI_ENCLEN(SPEC_FLAGS(zck)) + SPEC_CI_ENCLEN(zck->comp.type) + SPEC_CI_ENCLEN(zck->index_size)) /*@C01,C13.preface_create.size_is_digest_flags_type_and_index_size*/
V_ENSURES(!__CPROVER_return_value || !(g_k1 < (size_t)zck->hash_type.digest_size) || zck->preface_string[g_k1] == zck->full_hash_digest[g_k1]) /*@C01,C02.preface_create.stores_the_data_checksum*/
V_ENSURES(!__CPROVER_return_value || zck->error_state == V_OLD(zck->error_state)) /*@C12.preface_create.success_keeps_error_state*/
;

static bool sig_create(zckCtx *zck)
V_REQUIRES(__CPROVER_rw_ok(zck, sizeof(*zck)))
V_ASSIGNS(zck->sig_string, zck->sig_size, zck->error_state)
V_ENSURES(!__CPROVER_return_value || (zck->sig_string != NULL && __CPROVER_is_fresh(zck->sig_string, MAX_COMP_SIZE))) /*@C01,C03.sig_create.signature_buffer*/
V_ENSURES(!__CPROVER_return_value || (zck->sigs.count >= 0 && zck->sig_size == SPEC_CI_ENCLEN(zck->sigs.count) && zck->sig_size <= MAX_COMP_SIZE)) /*@C01,C13.sig_create.size_is_the_encoded_count*/
V_ENSURES(!__CPROVER_return_value || zck->error_state == V_OLD(zck->error_state)) /*@C12.sig_create.success_keeps_error_state*/
;

/* index_create as header_create sees it (ASSUMED here: the function walks the chunk list; its own unit is
 * not built): closes the whole-data hash into full_hash_digest and leaves a fresh index string */
bool index_create(zckCtx *zck)
V_REQUIRES(__CPROVER_rw_ok(zck, sizeof(*zck)) && HT_WF(zck))
V_ASSIGNS(zck->full_hash_digest, zck->full_hash.type, zck->full_hash.ctx, zck->index_string, zck->index_size, zck->error_state, g_fin_val, g_fin_total, g_fin_seen, g_fin_ptr, g_hu_final)
V_ENSURES(!__CPROVER_return_value || V_OLD(zck->error_state) <= 0)
V_ENSURES(!__CPROVER_return_value || (zck->full_hash_digest != NULL && __CPROVER_is_fresh(zck->full_hash_digest, SPEC_ALLOC_DIGEST(zck->hash_type.type))))
V_ENSURES(!__CPROVER_return_value || (zck->index_string != NULL && __CPROVER_is_fresh(zck->index_string, zck->index_size)))
V_ENSURES(!__CPROVER_return_value || zck->error_state == V_OLD(zck->error_state))
V_ENSURES(g_hu_hash == &zck->full_hash || (g_hu_final == V_OLD(g_hu_final) && g_fin_total == V_OLD(g_fin_total) && g_fin_seen == V_OLD(g_fin_seen)))
;

#define HDR_W_FRAME zck->header, zck->header_size, zck->header_length, zck->lead_string, zck->lead_size, zck->preface_string, zck->preface_size, \
    zck->index_string, zck->index_size, zck->sig_string, zck->sig_size, zck->hdr_digest_loc, zck->header_digest, zck->data_offset, zck->error_state

/* header_create: the same text for its own unit (units/headerw.c) and for zck_close (units/zckw.c).
 * Hash coverage (C06, writer side): g_hu_hash is a solver-chosen hash object; if it was initialised once and
 * finalised once during the call and its digest became header_digest -- i.e. it is the header hash -- then its
 * stream was exactly hdr_digest_loc + header_length bytes long and the byte at stream offset g_hu_k was the
 * header byte at that offset, skipping the checksum slot. */
bool header_create(zckCtx *zck)
V_REQUIRES(__CPROVER_rw_ok(zck, sizeof(*zck)) && HT_WF(zck))
V_REQUIRES(zck->mode != ZCK_MODE_WRITE || (zck->comp.dc_data_size == 0 && zck->work_index_item == NULL)) /*@C01.header_create.nothing_pending_when_the_header_is_built*/
V_REQUIRES(zck->header_digest == NULL || __CPROVER_rw_ok(zck->header_digest, 1))
V_REQUIRES(HASH_OBJ_WF(&zck->full_hash))
V_ZC_REQUIRES(g_res_ec == 1)
V_ASSIGNS(HDR_W_FRAME, zck->full_hash_digest, zck->full_hash.type, zck->full_hash.ctx, g_hu_total, g_hu_seen, g_hu_ptr, g_hu_final, g_hu_inits, g_fin_val, g_fin_total, g_fin_seen, g_fin_ptr)
V_FREES_OWN(zck->header_digest, zck->full_hash.ctx)
V_ZC_ASSIGNS(g_res_hc)
V_ENSURES(!__CPROVER_return_value || (V_OLD(zck->error_state) <= 0 && zck->mode == ZCK_MODE_WRITE)) /*@C12.header_create.no_success_on_a_context_in_error*/
V_ENSURES(!__CPROVER_return_value || (zck->header != NULL && __CPROVER_is_fresh(zck->header, zck->header_size))) /*@C01,C03.header_create.header_buffer_holds_header_size_bytes*/
V_ENSURES(!__CPROVER_return_value || zck->error_state == V_OLD(zck->error_state)) /*@C12.header_create.success_keeps_error_state*/
V_ENSURES(!__CPROVER_return_value || (zck->header_size == zck->data_offset && zck->data_offset == zck->lead_size + zck->preface_size + zck->index_size + zck->sig_size && zck->header_length == zck->preface_size + zck->index_size + zck->sig_size)) /*@C01,C13.header_create.sizes_add_up*/
V_ENSURES(!__CPROVER_return_value || (zck->lead_string == zck->header && zck->preface_string == zck->header + zck->lead_size && zck->index_string == zck->header + zck->lead_size + zck->preface_size && zck->sig_string == zck->header + zck->lead_size + zck->preface_size + zck->index_size)) /*@C01,C13.header_create.buffer_is_lead_preface_index_signatures_in_this_order*/
V_ENSURES(!__CPROVER_return_value || (zck->lead_size == zck->hdr_digest_loc + (size_t)zck->hash_type.digest_size && zck->hdr_digest_loc > 5)) /*@C01,C06.header_create.checksum_slot_is_the_tail_of_the_lead*/
V_ENSURES(!__CPROVER_return_value || g_hu_inits != V_OLD(g_hu_inits) + 1 || (g_hu_final == V_OLD(g_hu_final) + 1 && g_fin_total == zck->hdr_digest_loc + zck->header_length)) /*@C06,C01.header_create.header_checksum_is_over_the_whole_header_minus_its_own_slot*/
V_ENSURES(!__CPROVER_return_value || g_hu_inits != V_OLD(g_hu_inits) + 1 || !(g_hu_k < zck->hdr_digest_loc + zck->header_length) || (g_fin_seen == 1 && g_fin_ptr == (g_hu_k < zck->hdr_digest_loc ? zck->header + g_hu_k : zck->header + g_hu_k + zck->hash_type.digest_size))) /*@C06,C01.header_create.every_header_byte_outside_the_slot_is_fed_exactly_once_in_order*/
V_ENSURES(!__CPROVER_return_value || zck->header_digest != NULL) /*@C06.header_create.header_digest_kept*/
V_ZC_ENSURES(g_res_hc == (__CPROVER_return_value != 0))
;

/* write_header: success only if the whole header buffer was accepted by the output (C12) */
bool write_header(zckCtx *zck)
V_REQUIRES(__CPROVER_rw_ok(zck, sizeof(*zck)))
V_REQUIRES(zck->no_write != 0 || zck->header_size == 0 || (zck->header != NULL && __CPROVER_r_ok(zck->header, zck->header_size)))
V_ZC_REQUIRES(g_res_hc == 1)
V_ASSIGNS(zck->error_state, g_fpos, g_wr_bytes, g_io_failed, g_win_bad)
V_ZC_ASSIGNS(g_res_wh)
V_ENSURES(!__CPROVER_return_value || (V_OLD(zck->error_state) <= 0 && zck->mode == ZCK_MODE_WRITE)) /*@C12.write_header.no_success_on_a_context_in_error*/
V_ENSURES(!__CPROVER_return_value || zck->no_write != 0 || (g_wr_bytes[G_IX(zck->fd)] == V_OLD(g_wr_bytes[G_IX(zck->fd)]) + zck->header_size && g_fpos[G_IX(zck->fd)] == V_OLD(g_fpos[G_IX(zck->fd)]) + (g_off_t)zck->header_size)) /*@C12,C01.write_header.success_means_the_whole_header_was_accepted*/
V_ENSURES(!__CPROVER_return_value || zck->error_state == V_OLD(zck->error_state)) /*@C12.write_header.success_keeps_error_state*/
V_ZC_ENSURES(g_res_wh == (__CPROVER_return_value != 0))
;

#endif
