/* Contracts for src/lib/index/index_read.c and the chunk hash type setter (hash.c) */
#ifndef CONTRACTS_INDEX_H
#define CONTRACTS_INDEX_H
#include "spec/spec_hash.h"
#include "spec/ghost.h"

bool set_chunk_hash_type(zckCtx *zck, int hash_type)
V_REQUIRES(__CPROVER_rw_ok(zck, sizeof(*zck)))
V_ASSIGNS(zck->chunk_hash_type, zck->index.hash_type, zck->index.digest_size, zck->error_state)
V_ENSURES(__CPROVER_return_value == (V_OLD(zck->error_state) == 0 && SPEC_HASH_VALID(hash_type))) /*@C13.set_chunk_hash_type.accept_iff_known_type*/
V_ENSURES(!__CPROVER_return_value || (zck->chunk_hash_type.type == hash_type && zck->chunk_hash_type.digest_size == SPEC_DIGEST_SIZE(hash_type) && zck->index.hash_type == hash_type && zck->index.digest_size == (size_t)SPEC_DIGEST_SIZE(hash_type))) /*@C13,C03.set_chunk_hash_type.digest_size_of_type*/
;

/* assumed contract of uthash's HASH_FIND (stubs/uthash_stub.h) as far as index_read needs it: the
 * result is NULL or some chunk; index_read only tests it for NULL */
zckChunk *verif_uthash_find(zckChunk *head, const void *key, size_t len, int uncomp)
V_ASSIGNS()
V_ENSURES(__CPROVER_return_value == NULL || head != NULL)
;
#endif
