/* index_read (src/lib/index/index_read.c).  data[0..max_length) must be readable and the index
 * proper is data[0..size): the requires-clause at read_index's call site is a C03 obligation. */
#ifndef CONTRACTS_INDEX_READ_H
#define CONTRACTS_INDEX_READ_H
bool index_read(zckCtx *zck, char *data, size_t size, size_t max_length)
V_REQUIRES(__CPROVER_rw_ok(zck, sizeof(*zck)))
V_REQUIRES(size <= max_length && __CPROVER_r_ok(data, max_length))
V_REQUIRES(zck->index.first == NULL)
V_ASSIGNS(zck->index, zck->chunk_hash_type, zck->index_string, zck->error_state)
V_FREES(zck->index_string)
V_ENSURES(!__CPROVER_return_value || (zck->index.first != NULL && zck->index.count >= 1)) /*@C03,C13.index_read.at_least_the_dictionary_entry*/
V_ENSURES(!__CPROVER_return_value || zck->index_string == NULL) /*@C03.index_read.index_string_cleared*/
V_ENSURES(!__CPROVER_return_value || (SPEC_HASH_VALID(zck->chunk_hash_type.type) && zck->chunk_hash_type.digest_size == SPEC_DIGEST_SIZE(zck->chunk_hash_type.type) && zck->index.digest_size == (size_t)zck->chunk_hash_type.digest_size)) /*@C13,C03.index_read.chunk_checksum_type_set*/
;
#endif
