/* ASSUMED frames of the two small helpers index_add_to_chunk / index_finish_chunk reach outside their own file
 * (src/lib/index/index_common.c: clear_work_index; src/lib/hash/hash.c: hash_close).  Both only release and
 * clear; they are used by contract in units/indexw.c and never proved here. */
#ifndef CONTRACTS_INDEXW_H
#define CONTRACTS_INDEXW_H
void hash_close(zckHash *hash)
V_REQUIRES(hash == NULL || __CPROVER_rw_ok(hash, sizeof(*hash)))
V_ASSIGNS(hash != NULL: hash->ctx, hash->type)
V_ENSURES(hash == NULL || (hash->ctx == NULL && hash->type == NULL))
;
/* only ever called by create_chunk, i.e. when there is no entry under construction */
void clear_work_index(zckCtx *zck)
V_REQUIRES(__CPROVER_rw_ok(zck, sizeof(*zck)) && zck->work_index_item == NULL)
V_ASSIGNS(zck->work_index_hash.ctx, zck->work_index_hash.type, zck->work_index_hash_uncomp.ctx, zck->work_index_hash_uncomp.type)
V_ENSURES(zck->work_index_hash.ctx == NULL && zck->work_index_hash.type == NULL && zck->work_index_hash_uncomp.ctx == NULL && zck->work_index_hash_uncomp.type == NULL)
;
#endif
