/* Contracts for src/lib/io.c.  Postconditions on the success value are taken from property
 * C12: success is reported only if every byte was transferred. */
#ifndef CONTRACTS_IO_H
#define CONTRACTS_IO_H
#include "spec/ghost.h"

ssize_t read_data(zckCtx *zck, char *data, size_t length)
V_REQUIRES(__CPROVER_rw_ok(zck, sizeof(*zck)))
V_REQUIRES(length == 0 || data == NULL || __CPROVER_w_ok(data, length))
V_ASSIGNS(zck->error_state; length > 0 && data != NULL: __CPROVER_object_upto(data, length); g_fpos, g_rd_bytes, g_io_failed, g_last_read, g_watch_seen, g_watch_val)
V_ENSURES(__CPROVER_return_value >= -1 && (__CPROVER_return_value == -1 || (size_t)__CPROVER_return_value <= length)) /*@C12,C03.read_data.never_more_than_asked*/
V_ENSURES(__CPROVER_return_value != -1 || zck->error_state > 0) /*@C12.read_data.failure_sets_error*/
V_ENSURES(__CPROVER_return_value == -1 || zck->error_state == V_OLD(zck->error_state)) /*@C12.read_data.success_keeps_state*/
V_ENSURES(__CPROVER_return_value < 0 || (g_fpos[G_IX(zck->fd)] == V_OLD(g_fpos[G_IX(zck->fd)]) + (g_off_t)__CPROVER_return_value && g_rd_bytes[G_IX(zck->fd)] == V_OLD(g_rd_bytes[G_IX(zck->fd)]) + (size_t)__CPROVER_return_value)) /*@C12,C09.read_data.position_advances_by_result*/
V_ENSURES(__CPROVER_return_value >= 0 || g_fpos[G_IX(zck->fd)] == V_OLD(g_fpos[G_IX(zck->fd)])) /*@C12.read_data.position_kept_on_failure*/
#define RDD_HIT(z, ret) ((z)->fd == g_watch_fd && (ret) > 0 && g_watch_off >= V_OLD(g_fpos[G_IX((z)->fd)]) && g_watch_off - V_OLD(g_fpos[G_IX((z)->fd)]) < (g_off_t)(ret))
V_ENSURES(!RDD_HIT(zck, __CPROVER_return_value) || (g_watch_seen == 1 && g_watch_val == ((unsigned char *)data)[g_watch_off - V_OLD(g_fpos[G_IX(zck->fd)])])) /*@C13,C06.read_data.delivers_the_file_byte_at_every_offset*/
V_ENSURES(RDD_HIT(zck, __CPROVER_return_value) || (g_watch_seen == V_OLD(g_watch_seen) && g_watch_val == V_OLD(g_watch_val))) /*@C13.read_data.watch_unchanged_elsewhere*/
V_ENSURES((!((__CPROVER_return_value < 0 || (size_t)__CPROVER_return_value < length)) || (g_io_failed >= V_OLD(g_io_failed))) && (((__CPROVER_return_value < 0 || (size_t)__CPROVER_return_value < length)) || (g_io_failed == V_OLD(g_io_failed)))) /*@C12.read_data.ghost_flag*/
V_ENSURES(G_FRAME(g_fpos, zck->fd) && G_FRAME(g_rd_bytes, zck->fd)) /*@C08,C09.read_data.other_descriptors_untouched*/
;

int write_data(zckCtx *zck, int fd, const char *data, size_t length)
V_REQUIRES(__CPROVER_rw_ok(zck, sizeof(*zck)))
V_REQUIRES(length == 0 || data == NULL || __CPROVER_r_ok(data, length))
/* call-site guards (spec/ghost.h), present only in units compiled with -DVERIF_WRITE_GUARD / -DVERIF_WRITE_ZERO: the REQUEST lies inside the window / is all zero */
V_REQUIRES_WGUARD((fd == g_win_fd && (length == 0 || (g_fpos[G_IX(fd)] >= g_win_lo && g_fpos[G_IX(fd)] <= g_win_hi && length <= g_win_hi - g_fpos[G_IX(fd)]))))
V_REQUIRES_WZERO(length == 0 || data == NULL || !(g_k2 < length) || data[g_k2] == 0)
V_ASSIGNS(zck->error_state, g_fpos, g_wr_bytes, g_io_failed, g_win_bad)
V_ENSURES(__CPROVER_return_value == 1 || __CPROVER_return_value == 0 || __CPROVER_return_value == -1) /*@C12.write_data.ret*/
V_ENSURES(__CPROVER_return_value != 1 || (g_wr_bytes[G_IX(fd)] == V_OLD(g_wr_bytes[G_IX(fd)]) + length && g_fpos[G_IX(fd)] == V_OLD(g_fpos[G_IX(fd)]) + (g_off_t)length)) /*@C12.write_data.success_means_all_bytes_accepted*/
V_ENSURES(__CPROVER_return_value == 1 || zck->error_state > 0) /*@C12.write_data.failure_sets_error*/
V_ENSURES(__CPROVER_return_value != -1 || V_OLD(zck->error_state) > 0) /*@C12.write_data.minus_one_only_for_context_already_in_error*/
V_ENSURES(__CPROVER_return_value != 1 || zck->error_state == V_OLD(zck->error_state)) /*@C12.write_data.success_keeps_state*/
V_ENSURES(fd != g_win_fd || g_win_bad == 1 || g_win_bad == V_OLD(g_win_bad)) /*@C05.write_data.window_flag_monotone*/
V_ENSURES(fd != g_win_fd || V_OLD(g_win_bad) != 0 || g_win_bad == 1 || g_fpos[G_IX(fd)] == V_OLD(g_fpos[G_IX(fd)]) || (V_OLD(g_fpos[G_IX(fd)]) >= g_win_lo && g_fpos[G_IX(fd)] <= g_win_hi)) /*@C05.write_data.window*/
V_ENSURES(G_FRAME(g_fpos, fd) && G_FRAME(g_wr_bytes, fd)) /*@C08,C05.write_data.other_descriptors_untouched*/
;

int seek_data(zckCtx *zck, off_t offset, int whence)
V_REQUIRES(__CPROVER_rw_ok(zck, sizeof(*zck)))
V_ASSIGNS(zck->error_state, g_fpos, g_io_failed)
V_ENSURES(__CPROVER_return_value == 1 || __CPROVER_return_value == 0 || __CPROVER_return_value == -1) /*@C12.seek_data.ret*/
V_ENSURES(__CPROVER_return_value != 1 || whence != SEEK_SET || g_fpos[G_IX(zck->fd)] == (g_off_t)offset) /*@C12,C09,C14.seek_data.success_means_positioned*/
V_ENSURES(__CPROVER_return_value == 1 || zck->error_state > 0) /*@C12.seek_data.failure_sets_error*/
V_ENSURES(__CPROVER_return_value != -1 || V_OLD(zck->error_state) > 0) /*@C12.seek_data.minus_one_only_for_context_already_in_error*/
V_ENSURES(__CPROVER_return_value != 1 || zck->error_state == V_OLD(zck->error_state)) /*@C12.seek_data.success_keeps_state*/
V_ENSURES(__CPROVER_return_value == 1 || g_fpos[G_IX(zck->fd)] == V_OLD(g_fpos[G_IX(zck->fd)])) /*@C12.seek_data.position_kept_on_failure*/
V_ENSURES(G_FRAME(g_fpos, zck->fd)) /*@C08,C09.seek_data.other_descriptors_untouched*/
;
#endif
