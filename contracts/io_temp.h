/* Contract of chunks_from_temp (src/lib/io.c): shared by its own unit (units/io.c, enforced) and by the
 * zck_close write-mode unit (units/zckw.c, assumed). */
#ifndef CONTRACTS_IO_TEMP_H
#define CONTRACTS_IO_TEMP_H
#include "spec/ghost.h"
#include "spec/ghost_close.h"
int chunks_from_temp(zckCtx *zck)
V_REQUIRES(__CPROVER_rw_ok(zck, sizeof(*zck)))
V_REQUIRES(G_IX(zck->fd) != G_IX(zck->temp_fd))
V_REQUIRES(zck->error_state == 0)   /* zck_close has passed VALIDATE_BOOL and every earlier step reported success */
V_ZC_REQUIRES(g_res_wh == 1)
V_ASSIGNS(zck->error_state, g_fpos, g_rd_bytes, g_wr_bytes, g_io_failed, g_win_bad, g_last_read, g_watch_seen, g_watch_val)
V_ZC_ASSIGNS(g_res_cft)
V_ENSURES(!__CPROVER_return_value || zck->no_write == 1 || g_wr_bytes[G_IX(zck->fd)] - V_OLD(g_wr_bytes[G_IX(zck->fd)]) == g_rd_bytes[G_IX(zck->temp_fd)] - V_OLD(g_rd_bytes[G_IX(zck->temp_fd)])) /*@C12,C01.chunks_from_temp.success_means_every_byte_read_was_written*/
V_ENSURES(!__CPROVER_return_value || zck->no_write == 1 || g_last_read == 0) /*@C12,C01.chunks_from_temp.success_means_read_reached_eof*/
V_ENSURES(!__CPROVER_return_value || zck->no_write != 1 || (g_wr_bytes[G_IX(zck->fd)] == V_OLD(g_wr_bytes[G_IX(zck->fd)]))) /*@C01.chunks_from_temp.no_write_writes_nothing*/
V_ZC_ENSURES(g_res_cft == (__CPROVER_return_value != 0))
;
#endif
