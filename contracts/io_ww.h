/* Contract of write_data (src/lib/io.c) for the download-side units: every clause of
 * contracts/io.h (same text, same tags) plus the watched-byte record (spec/ghost_dl.h) and two
 * facts about a context already in error that the callers in dl.c depend on because they test
 * `!write_data(..)` (a -1 result counts as success there).  Enforced on the real write_data by
 * unit write_data_ww; units that include this header divert the declaration in contracts/io.h. */
#ifndef CONTRACTS_IO_WW_H
#define CONTRACTS_IO_WW_H
#include "spec/ghost_dl.h"
#define WD_POS0(fd) V_OLD(g_fpos[G_IX(fd)])
int write_data(zckCtx *zck, int fd, const char *data, size_t length)
V_REQUIRES(__CPROVER_rw_ok(zck, sizeof(*zck)))
V_REQUIRES(length == 0 || data == NULL || __CPROVER_r_ok(data, length))
V_ASSIGNS(zck->error_state, g_fpos, g_wr_bytes, g_io_failed, g_win_bad, g_ww_hit, g_ww_val)
V_ENSURES(__CPROVER_return_value == 1 || __CPROVER_return_value == 0 || __CPROVER_return_value == -1) /*@C12.write_data.ret*/
V_ENSURES(__CPROVER_return_value != 1 || (g_wr_bytes[G_IX(fd)] == V_OLD(g_wr_bytes[G_IX(fd)]) + length && g_fpos[G_IX(fd)] == V_OLD(g_fpos[G_IX(fd)]) + (g_off_t)length)) /*@C12.write_data.success_means_all_bytes_accepted*/
V_ENSURES(__CPROVER_return_value == 1 || zck->error_state > 0) /*@C12.write_data.failure_sets_error*/
V_ENSURES(__CPROVER_return_value != -1 || V_OLD(zck->error_state) > 0) /*@C12.write_data.minus_one_only_for_context_already_in_error*/
V_ENSURES(__CPROVER_return_value != 1 || zck->error_state == V_OLD(zck->error_state)) /*@C12.write_data.success_keeps_state*/
V_ENSURES(fd != g_win_fd || g_win_bad == 1 || g_win_bad == V_OLD(g_win_bad)) /*@C05.write_data.window_flag_monotone*/
V_ENSURES(fd != g_win_fd || V_OLD(g_win_bad) != 0 || g_win_bad == 1 || g_fpos[G_IX(fd)] == V_OLD(g_fpos[G_IX(fd)]) || (V_OLD(g_fpos[G_IX(fd)]) >= g_win_lo && g_fpos[G_IX(fd)] <= g_win_hi)) /*@C05.write_data.window*/
V_ENSURES(V_OLD(zck->error_state) == 0 || __CPROVER_return_value == -1) /*@C05,C12.write_data.context_in_error_gives_minus_one*/
V_ENSURES(__CPROVER_return_value != -1 || (g_fpos[G_IX(fd)] == V_OLD(g_fpos[G_IX(fd)]) && g_wr_bytes[G_IX(fd)] == V_OLD(g_wr_bytes[G_IX(fd)]) && WW_SAME && zck->error_state == V_OLD(zck->error_state))) /*@C05.write_data.minus_one_writes_nothing*/
V_ENSURES(__CPROVER_return_value != 1 || !WW_IN(fd, WD_POS0(fd), length) || (g_ww_hit == V_OLD(g_ww_hit) + 1 && g_ww_val == data[g_ww_off - WD_POS0(fd)])) /*@C05.write_data.file_offset_receives_the_byte_at_the_same_distance*/
V_ENSURES(WW_IN(fd, WD_POS0(fd), length) || WW_SAME) /*@C05.write_data.nothing_outside_the_span_is_written*/
V_ENSURES(__CPROVER_return_value == 1 || data == NULL || !WW_IN(fd, WD_POS0(fd), length) || WW_SAME || (g_ww_hit == V_OLD(g_ww_hit) + 1 && g_ww_val == data[g_ww_off - WD_POS0(fd)])) /*@C05.write_data.partial_write_still_writes_the_right_bytes*/
V_ENSURES(data != NULL || WW_SAME) /*@C05.write_data.null_source_writes_nothing*/
;
#endif
