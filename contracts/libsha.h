/* C18: contracts of the bundled back end's interface src/lib/hash/bundled/libsha.c (lib_hash_init/update/final,
 * lib_hash_ctx_close) — the functions that exist twice behind the same interface (bundled / OpenSSL).
 * From the property: dispatch per checksum type 0..3 (SHA-1, SHA-256, SHA-512, SHA-512/128 = SHA-512 whose first
 * 16 bytes the caller takes via digest_size), context allocated for that algorithm, (ctx, message, size) and the
 * digest buffer handed to the algorithm UNCHANGED (the size_t -> unsigned int narrowing is the obligation
 * lib_hash_update.length_passed_unchanged), the returned buffer is the one the algorithm's final wrote.
 * Enforced against the real libsha.c in units/libsha.c with the SHA entry points in their record view
 * (contracts/sha_rec.h).  Caller view (VERIF_LIBSHA_CALLER_VIEW, used by the hash.c glue units): additionally a
 * ghost call record g_lh_*. */
#ifndef CONTRACTS_LIBSHA_H
#define CONTRACTS_LIBSHA_H
#include "spec/spec_hash.h"
#include "spec/ghost_sha.h"
#include "contracts/sha_rec.h"
#ifndef SPEC_ALLOC_DIGEST
#define SPEC_ALLOC_DIGEST(t) ((t) == 0 ? 20 : (t) == 1 ? 32 : 64)
#endif
#define LIBSHA_FN(t) ((t) == 0 ? REC_FN_SHA1 : (t) == 1 ? REC_FN_SHA256 : REC_FN_SHA512)
#define LIBSHA_CTX_SIZE(t) ((t) == 0 ? sizeof(SHA_CTX) : (t) == 1 ? sizeof(sha256_ctx) : sizeof(sha512_ctx))
#define LIBSHA_HASH_OK(h) (__CPROVER_rw_ok((h), sizeof(zckHash)) && (h)->type != NULL && __CPROVER_r_ok((h)->type, sizeof(zckHashType)))
/* the running context belongs to the algorithm of the type and satisfies that algorithm's invariant */
#define LIBSHA_CTX_OK(h) (!SPEC_HASH_VALID((h)->type->type) || ((h)->ctx != NULL && \
    ((h)->type->type == 0 ? SHA1_CTX_WF((SHA_CTX *)(h)->ctx) : (h)->type->type == 1 ? SHA256_CTX_WF((sha256_ctx *)(h)->ctx) : SHA512_CTX_WF((sha512_ctx *)(h)->ctx))))
#define LIBSHA_TYPE_OLD(h) (V_OLD((h)->type)->type)
/* call record of the lib_hash_* layer (caller view only) */
extern unsigned g_lh_calls; extern int g_lh_fn; extern const void *g_lh_hash, *g_lh_msg; extern size_t g_lh_size;
#define GHOST_LH_DEFS unsigned g_lh_calls; int g_lh_fn; const void *g_lh_hash, *g_lh_msg; size_t g_lh_size;
#ifdef VERIF_LIBSHA_CALLER_VIEW
#define V_LH_ASSIGNS(...) V_ASSIGNS(__VA_ARGS__, g_lh_calls, g_lh_fn, g_lh_hash, g_lh_msg, g_lh_size)
#define V_GHOST_LH(fn, h, m, n) V_ENSURES(g_lh_calls == V_OLD(g_lh_calls) + 1 && g_lh_fn == (fn) && g_lh_hash == (const void *)(h) && g_lh_msg == (const void *)(m) && g_lh_size == (size_t)(n))
#else
#define V_LH_ASSIGNS(...) V_ASSIGNS(__VA_ARGS__)
#define V_GHOST_LH(fn, h, m, n)
#endif

void lib_hash_ctx_close(zckHash *hash)
V_REQUIRES(__CPROVER_rw_ok(hash, sizeof(*hash)))
V_ASSIGNS()
V_FREES(hash->ctx)
V_ENSURES(hash->ctx == V_OLD(hash->ctx)) /*@C18.lib_hash_ctx_close.only_frees*/
;

bool lib_hash_init(zckCtx *zck, zckHash *hash)
V_REQUIRES(zck == NULL || __CPROVER_rw_ok(zck, sizeof(*zck)))
V_REQUIRES(LIBSHA_HASH_OK(hash))
V_LH_ASSIGNS(hash->ctx, g_init_calls, g_init_fn, g_init_ctx; zck != NULL: zck->error_state)
V_GHOST_LH(1, hash, NULL, 0)
V_ENSURES(!__CPROVER_return_value || SPEC_HASH_VALID(hash->type->type)) /*@C18.lib_hash_init.only_known_types*/
V_ENSURES(!__CPROVER_return_value || __CPROVER_is_fresh(hash->ctx, LIBSHA_CTX_SIZE(hash->type->type))) /*@C18.lib_hash_init.context_allocated_for_the_algorithm*/
V_ENSURES(!__CPROVER_return_value || (g_init_calls == V_OLD(g_init_calls) + 1 && g_init_fn == LIBSHA_FN(hash->type->type) && g_init_ctx == hash->ctx)) /*@C18.lib_hash_init.dispatch_per_type_sha512_128_uses_sha512*/
V_ENSURES(__CPROVER_return_value || g_init_calls == V_OLD(g_init_calls)) /*@C18.lib_hash_init.no_init_on_failure*/
V_ENSURES(__CPROVER_return_value || !SPEC_HASH_VALID(hash->type->type) || hash->ctx == NULL) /*@C18.lib_hash_init.known_type_fails_only_without_memory*/
V_ENSURES(__CPROVER_return_value || SPEC_HASH_VALID(hash->type->type) || zck == NULL || zck->error_state > 0) /*@C18.lib_hash_init.unknown_type_sets_error*/
V_ENSURES(__CPROVER_return_value || !SPEC_HASH_VALID(hash->type->type) || zck == NULL || zck->error_state == V_OLD(zck->error_state)) /*@C18.lib_hash_init.known_type_is_never_reported_unsupported*/
;

bool lib_hash_update(zckCtx *zck, zckHash *hash, const char *message, const size_t size)
V_REQUIRES(zck == NULL || __CPROVER_rw_ok(zck, sizeof(*zck)))
V_REQUIRES(LIBSHA_HASH_OK(hash) && LIBSHA_CTX_OK(hash))
V_REQUIRES(size == 0 || __CPROVER_r_ok(message, size))
V_LH_ASSIGNS(g_up_calls, g_up_fn, g_up_ctx, g_up_end, g_up_inorder, g_up_len; hash->type->type == 0: __CPROVER_object_upto(hash->ctx, sizeof(SHA_CTX)); hash->type->type == 1: __CPROVER_object_upto(hash->ctx, sizeof(sha256_ctx)); hash->type->type == 2 || hash->type->type == 3: __CPROVER_object_upto(hash->ctx, sizeof(sha512_ctx)); zck != NULL: zck->error_state)
V_GHOST_LH(2, hash, message, size)
V_ENSURES(__CPROVER_return_value == SPEC_HASH_VALID(hash->type->type)) /*@C18.lib_hash_update.succeeds_iff_known_type*/
V_ENSURES(!__CPROVER_return_value || size == 0 || (g_up_fn == LIBSHA_FN(hash->type->type) && g_up_ctx == hash->ctx)) /*@C18.lib_hash_update.dispatch_per_type_same_ctx*/
V_ENSURES(!__CPROVER_return_value || !(V_OLD(g_up_inorder) && V_OLD(g_up_end) == message) || (g_up_inorder && g_up_end == message + size)) /*@C18.lib_hash_update.every_byte_fed_once_in_order*/
V_ENSURES(!__CPROVER_return_value || g_up_len == V_OLD(g_up_len) + size) /*@C18.lib_hash_update.length_passed_unchanged*/
V_ENSURES(__CPROVER_return_value || g_up_calls == V_OLD(g_up_calls)) /*@C18.lib_hash_update.no_update_on_failure*/
V_ENSURES(!__CPROVER_return_value || LIBSHA_CTX_OK(hash)) /*@C18.lib_hash_update.context_stays_well_formed*/
;

char *lib_hash_final(zckCtx *zck, zckHash *hash)
V_REQUIRES(zck == NULL || __CPROVER_rw_ok(zck, sizeof(*zck)))
V_REQUIRES(LIBSHA_HASH_OK(hash) && LIBSHA_CTX_OK(hash))
V_LH_ASSIGNS(hash->ctx, hash->type, g_fin_calls, g_fin_fn, g_fin_ctx, g_fin_md, g_fin_byte; hash->type->type == 0: __CPROVER_object_upto(hash->ctx, sizeof(SHA_CTX)); hash->type->type == 1: __CPROVER_object_upto(hash->ctx, sizeof(sha256_ctx)); hash->type->type == 2 || hash->type->type == 3: __CPROVER_object_upto(hash->ctx, sizeof(sha512_ctx)); zck != NULL: zck->error_state)
V_FREES(hash->ctx)
V_GHOST_LH(3, hash, NULL, 0)
V_ENSURES((hash->ctx == NULL && hash->type == NULL) || (__CPROVER_return_value == NULL && SPEC_HASH_VALID(LIBSHA_TYPE_OLD(hash)) && hash->ctx == V_OLD(hash->ctx) && hash->type == V_OLD(hash->type))) /*@C18.lib_hash_final.closes_hash_unless_out_of_memory*/
V_ENSURES(__CPROVER_return_value == NULL || SPEC_HASH_VALID(LIBSHA_TYPE_OLD(hash))) /*@C18.lib_hash_final.only_known_types*/
V_ENSURES(__CPROVER_return_value == NULL || zck == NULL || zck->error_state == V_OLD(zck->error_state)) /*@C12.lib_hash_final.success_keeps_error_state*/
V_ENSURES(__CPROVER_return_value == NULL || __CPROVER_is_fresh(__CPROVER_return_value, SPEC_ALLOC_DIGEST(LIBSHA_TYPE_OLD(hash)))) /*@C18.lib_hash_final.digest_buffer_of_the_algorithm_size*/
V_ENSURES(__CPROVER_return_value == NULL || (g_fin_calls == V_OLD(g_fin_calls) + 1 && g_fin_fn == LIBSHA_FN(LIBSHA_TYPE_OLD(hash)) && g_fin_ctx == V_OLD(hash->ctx) && g_fin_md == (const void *)__CPROVER_return_value)) /*@C18.lib_hash_final.dispatch_per_type_digest_written_into_result*/
V_ENSURES(__CPROVER_return_value == NULL || (unsigned char)__CPROVER_return_value[g_k1 % SPEC_ALLOC_DIGEST(LIBSHA_TYPE_OLD(hash))] == g_fin_byte) /*@C18.lib_hash_final.result_is_the_algorithm_output_unmodified*/
V_ENSURES(__CPROVER_return_value != NULL || g_fin_calls == V_OLD(g_fin_calls)) /*@C18.lib_hash_final.no_final_on_failure*/
;
#endif
