/* C17 view ("parser side") of the body callback zck_write_chunk_cb (src/lib/dl/dl.c): lean contracts that speak only
 * about the objects C17 is about -- the patterns (typestate), the parser state zckMP with its carried buffer, the
 * context's error state and the fragment.  The download state behind dl_write_range (range list, chunk flags, file)
 * is the subject of contracts/dl_range.h / contracts/dl.h (C05) and is opaque here.
 * The predicates CBL_RX_INV / CBL_MP_WF are the texts of DL_RX_INV / MP_WF of contracts/multipart.h (that header
 * cannot be included next to this one: it declares the C05-view contracts of the same functions).
 * multipart_extract's clauses below are exactly the statements unit `mpx` decides on the real body WITHIN ITS BOUND
 * (units/mpx.c uses the same MPXC_* macros in its harness assertions); beyond the bound they are assumed. */
#ifndef CONTRACTS_MPX_CB_H
#define CONTRACTS_MPX_CB_H
#include "stubs/regex.h"
#include <limits.h>
#define CBL_RX_INV(dl) (RX_OK((dl)->hdr_regex) && RX_OK((dl)->dl_regex) && RX_OK((dl)->end_regex) && (((dl)->dl_regex == NULL) == ((dl)->end_regex == NULL)))
#define CBL_MP_WF(mp) (__CPROVER_rw_ok((mp), sizeof(zckMP)) && ((mp)->buffer == NULL || ((mp)->buffer_len > 0 && __CPROVER_rw_ok((mp)->buffer, (mp)->buffer_len) && __CPROVER_POINTER_OFFSET((mp)->buffer) == 0 && __CPROVER_OBJECT_SIZE((mp)->buffer) == (mp)->buffer_len)))
#define CBL_CTX(dl) (__CPROVER_rw_ok((dl), sizeof(zckDL)) && (dl)->zck != NULL && __CPROVER_rw_ok((dl)->zck, sizeof(zckCtx)) && (dl)->mp != NULL && CBL_MP_WF((dl)->mp) && CBL_RX_INV(dl))
#define CBL_LMAX 16384
/* statements about one invocation of multipart_extract (r = result, l = fragment length) */
#define MPXC_RET(r, l) ((r) == 0 || (r) >= (l))
#define MPXC_ERR_REFUSED(err0, r) ((err0) == 0 || (r) == 0)

extern int g_cbl_handed_on;      /* ghost: how often dl_write_range was called on a context free of errors, i.e. got as far as looking at bytes (directly or through the parser) */

size_t verif_user_wcb(void *ptr, size_t l, size_t c, void *data)
V_ASSIGNS()
V_ENSURES(1)
;
int dl_write_range(zckDL *dl, const char *at, size_t length)
V_REQUIRES(dl != NULL && __CPROVER_rw_ok(dl, sizeof(zckDL)) && dl->zck != NULL && __CPROVER_rw_ok(dl->zck, sizeof(zckCtx)))
V_REQUIRES(length <= INT_MAX && (length == 0 || __CPROVER_r_ok(at, length)))
V_ASSIGNS(dl->write_in_chunk, dl->dl_chunk_data, dl->tgt_check, dl->tgt_number, dl->zck->error_state, dl->zck->check_chunk_hash.type, dl->zck->check_chunk_hash.ctx, g_cbl_handed_on)
V_ENSURES(__CPROVER_return_value >= 0 && (size_t)__CPROVER_return_value <= length) /*@C05.dl_write_range.result_within_length*/
V_ENSURES(V_OLD(dl->zck->error_state) == 0 || __CPROVER_return_value == 0) /*@C05,C12.dl_write_range.context_in_error_is_refused*/
V_ENSURES(g_cbl_handed_on == V_OLD(g_cbl_handed_on) + (V_OLD(dl->zck->error_state) == 0 ? 1 : 0))
;
size_t multipart_extract(zckDL *dl, char *b, size_t l)
V_REQUIRES(dl != NULL && CBL_CTX(dl))
V_REQUIRES(l <= CBL_LMAX && (l == 0 || __CPROVER_rw_ok(b, l)))
V_ASSIGNS(dl->dl_regex, dl->end_regex, *dl->mp, dl->write_in_chunk, dl->dl_chunk_data, dl->tgt_check, dl->tgt_number, dl->zck->error_state, dl->zck->check_chunk_hash.type, dl->zck->check_chunk_hash.ctx, g_cbl_handed_on; l > 0: __CPROVER_object_upto(b, l))
V_FREES(dl->mp->buffer)
V_ENSURES(dl->dl_regex == V_OLD(dl->dl_regex) || (V_OLD(dl->dl_regex) == NULL && __CPROVER_is_fresh(dl->dl_regex, sizeof(regex_t)))) /*@C17.multipart_extract.part_header_pattern_kept_or_new*/
V_ENSURES(dl->end_regex == V_OLD(dl->end_regex) || (V_OLD(dl->end_regex) == NULL && __CPROVER_is_fresh(dl->end_regex, sizeof(regex_t)))) /*@C17.multipart_extract.terminator_pattern_kept_or_new*/
V_ENSURES(dl->mp->buffer == NULL || __CPROVER_is_fresh(dl->mp->buffer, dl->mp->buffer_len)) /*@C17.multipart_extract.carried_buffer_absent_or_new*/
V_ENSURES(CBL_RX_INV(dl)) /*@C17.multipart_extract.no_uncompiled_pattern_left_behind_on_any_return*/
V_ENSURES(CBL_MP_WF(dl->mp)) /*@C17.multipart_extract.carried_buffer_length_equals_its_allocation_on_every_return*/
V_ENSURES(MPXC_RET(__CPROVER_return_value, l)) /*@C17.multipart_extract.accepts_everything_or_reports_zero*/
V_ENSURES(MPXC_ERR_REFUSED(V_OLD(dl->zck->error_state), __CPROVER_return_value) && (V_OLD(dl->zck->error_state) == 0 || g_cbl_handed_on == V_OLD(g_cbl_handed_on))) /*@C17,C12.multipart_extract.context_in_error_is_refused*/
V_ENSURES(l == 0 || __CPROVER_rw_ok(b, l)) /*@C17.multipart_extract.the_callers_buffer_is_not_freed*/
;
#define CBD ((zckDL *)dl_v)
#define CB_LEN_OK(l, c) ((l) <= CBL_LMAX && (c) <= CBL_LMAX && (l) * (c) <= CBL_LMAX)
#define CB_HOOKS(dl) ((dl)->write_cb == NULL || (dl)->write_cb == verif_user_wcb)
size_t zck_write_chunk_cb(void *ptr, size_t l, size_t c, void *dl_v)
V_REQUIRES(dl_v != NULL && CBL_CTX(CBD) && CB_HOOKS(CBD) && (CBD->boundary == NULL || __CPROVER_r_ok(CBD->boundary, 1)))
V_REQUIRES(CB_LEN_OK(l, c) && (l * c == 0 || __CPROVER_rw_ok(ptr, l * c)))
V_ASSIGNS(CBD->dl, CBD->dl_regex, CBD->end_regex, *CBD->mp, CBD->write_in_chunk, CBD->dl_chunk_data, CBD->tgt_check, CBD->tgt_number, CBD->zck->error_state, CBD->zck->check_chunk_hash.type, CBD->zck->check_chunk_hash.ctx, g_cbl_handed_on; l * c > 0: __CPROVER_object_upto((char *)ptr, l * c))
V_FREES(CBD->mp->buffer)
V_ENSURES(CBL_CTX(CBD) && CB_HOOKS(CBD)) /*@C17.zck_write_chunk_cb.pattern_typestate_and_parser_state_invariants_kept_on_every_return*/
V_ENSURES(CBD->write_cb != NULL || __CPROVER_return_value == 0 || __CPROVER_return_value == l * c) /*@C17.zck_write_chunk_cb.accepts_everything_or_reports_zero*/
V_ENSURES(l * c == 0 || V_OLD(CBD->zck->error_state) == 0 || __CPROVER_return_value == 0) /*@C05,C12,C17.zck_write_chunk_cb.a_context_in_error_is_reported_by_the_callback*/
V_ENSURES(V_OLD(CBD->zck->error_state) == 0 || g_cbl_handed_on == V_OLD(g_cbl_handed_on)) /*@C05,C17.zck_write_chunk_cb.nothing_is_handed_on_on_a_context_in_error*/
V_ENSURES(l * c == 0 || __CPROVER_rw_ok(ptr, l * c)) /*@C17.zck_write_chunk_cb.the_transports_buffer_is_not_freed*/
;
#endif
