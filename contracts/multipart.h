/* Contracts for src/lib/dl/multipart.c (C17: regex life-cycle, boundary extraction, part-header scanner) */
#ifndef CONTRACTS_MULTIPART_H
#define CONTRACTS_MULTIPART_H
#include "stubs/regex.h"
#include "contracts/dl_range.h"
/* C17 typestate invariant of a zckDL: a pattern pointer that is not NULL holds a COMPILED pattern, and
 * the part-header pattern and the terminator pattern exist together or not at all (multipart_extract uses
 * end_regex whenever dl_regex is there; every producer sets or clears both).  Must hold after EVERY return, failing ones included: the
 * next callback invocation, zck_dl_reset and zck_dl_free call regexec/regfree on whatever is there. */
#define DL_RX_INV(dl) (RX_OK((dl)->hdr_regex) && RX_OK((dl)->dl_regex) && RX_OK((dl)->end_regex) && (((dl)->dl_regex == NULL) == ((dl)->end_regex == NULL)))
#define MP_WF(mp) (__CPROVER_rw_ok((mp), sizeof(zckMP)) && ((mp)->buffer == NULL || ((mp)->buffer_len > 0 && __CPROVER_rw_ok((mp)->buffer, (mp)->buffer_len) && __CPROVER_POINTER_OFFSET((mp)->buffer) == 0 && __CPROVER_OBJECT_SIZE((mp)->buffer) == (mp)->buffer_len)))
#define DL_MP_CTX(dl) (__CPROVER_rw_ok((dl), sizeof(zckDL)) && ((dl)->zck == NULL || __CPROVER_rw_ok((dl)->zck, sizeof(zckCtx))) && DL_RX_INV(dl) && ((dl)->mp == NULL || MP_WF((dl)->mp)))
/* a heap string whose last allocated byte is NUL (sufficient for "NUL-terminated inside its object") */
#define STR_TERMINATED_RO(s) __CPROVER_r_ok((s), 1)
#define STR_TERMINATED(s) (__CPROVER_r_ok((s), 1) && __CPROVER_POINTER_OFFSET(s) == 0 && (s)[__CPROVER_OBJECT_SIZE(s) - 1] == 0)

void reset_mp(zckMP *mp)
V_REQUIRES(mp == NULL || MP_WF(mp))
V_ASSIGNS(mp != NULL: *mp)
V_FREES(mp != NULL: mp->buffer)
V_ENSURES(mp == NULL || (mp->buffer == NULL && mp->buffer_len == 0 && mp->state == 0 && mp->length == 0)) /*@C17,C05.reset_mp.parser_back_to_start*/
;

static char *add_boundary_to_regex(zckCtx *zck, const char *regex, const char *boundary)
V_REQUIRES(zck == NULL || __CPROVER_rw_ok(zck, sizeof(*zck)))
V_REQUIRES(regex == NULL || STR_TERMINATED_RO(regex))
V_REQUIRES(boundary == NULL || STR_TERMINATED(boundary))
V_ASSIGNS(zck != NULL: zck->error_state)
V_ENSURES(__CPROVER_return_value == NULL || __CPROVER_is_fresh(__CPROVER_return_value, 1)) /*@C17.add_boundary_to_regex.fresh_or_null*/
V_ENSURES(__CPROVER_return_value == NULL || __CPROVER_return_value[__CPROVER_OBJECT_SIZE(__CPROVER_return_value) - 1] == 0) /*@C17.add_boundary_to_regex.pattern_is_nul_terminated*/
;

static bool create_regex(zckCtx *zck, regex_t *reg, const char *regex)
V_REQUIRES(zck == NULL || __CPROVER_rw_ok(zck, sizeof(*zck)))
V_REQUIRES(reg == NULL || __CPROVER_rw_ok(reg, sizeof(regex_t)))
V_REQUIRES(regex == NULL || __CPROVER_r_ok(regex, 1))
V_ASSIGNS(zck != NULL: zck->error_state; reg != NULL: *reg)
V_ENSURES(!__CPROVER_return_value || (reg != NULL && RX_COMPILED(reg))) /*@C17.create_regex.true_means_compiled*/
V_ENSURES(__CPROVER_return_value || zck == NULL || zck->error_state > 0) /*@C17,C12.create_regex.failure_is_reported*/
;

static bool gen_regex(zckDL *dl)
V_REQUIRES(dl == NULL || (DL_MP_CTX(dl) && dl->dl_regex == NULL && (dl->boundary == NULL || STR_TERMINATED(dl->boundary))))
V_ASSIGNS(dl != NULL: dl->dl_regex; dl != NULL: dl->end_regex; dl != NULL && dl->zck != NULL: dl->zck->error_state)
/* (the two clauses below come first so that, where this contract is used as an ASSUMPTION, the new patterns are
 * allocated objects before the invariant clause looks at them) */
V_ENSURES(!__CPROVER_return_value || (__CPROVER_is_fresh(dl->dl_regex, sizeof(regex_t)) && __CPROVER_is_fresh(dl->end_regex, sizeof(regex_t)))) /*@C17.gen_regex.true_means_two_new_pattern_objects*/
V_ENSURES(__CPROVER_return_value || dl == NULL || (dl->dl_regex == NULL && dl->end_regex == NULL)) /*@C17.gen_regex.false_means_neither_pattern_exists*/
V_ENSURES(dl == NULL || DL_RX_INV(dl)) /*@C17.gen_regex.no_uncompiled_pattern_left_behind_on_any_return*/
V_ENSURES(!__CPROVER_return_value || (dl->dl_regex != NULL && dl->end_regex != NULL)) /*@C17.gen_regex.true_means_both_patterns_ready*/
;

size_t multipart_get_boundary(zckDL *dl, char *b, size_t size)
V_REQUIRES(dl == NULL || (DL_MP_CTX(dl) && size < SIZE_MAX && (size == 0 || __CPROVER_r_ok(b, size))))
V_ASSIGNS(dl != NULL: dl->hdr_regex; dl != NULL: dl->boundary; dl != NULL && dl->mp != NULL: *dl->mp; dl != NULL && dl->zck != NULL: dl->zck->error_state)
V_FREES(dl != NULL && dl->mp != NULL: dl->mp->buffer)
V_ENSURES(dl == NULL || DL_RX_INV(dl)) /*@C17.multipart_get_boundary.no_uncompiled_pattern_left_behind_on_any_return*/
V_ENSURES(__CPROVER_return_value == 0 || __CPROVER_return_value == size) /*@C17.multipart_get_boundary.accepts_the_line_or_reports_zero*/
V_ENSURES(dl == NULL || dl->boundary == V_OLD(dl->boundary) || STR_TERMINATED(dl->boundary)) /*@C17.multipart_get_boundary.boundary_is_nul_terminated*/
V_ENSURES(dl == NULL || dl->mp == NULL || MP_WF(dl->mp)) /*@C17.multipart_get_boundary.parser_state_well_formed*/
;

/* ---- multipart_extract (C17: the part-header scanner on arbitrary body bytes; C05: what it hands to dl_write_range) ----
 * MPX_DL: the download state behind the parser is the one dl_write_range expects (contracts/dl_range.h); the
 * requested-range list itself is opaque here (multipart.c never looks at it): one ghost-named entry g_dr1 stands
 * for "the chunk being filled, if any".  The transport hands over at most 16 KiB per invocation (C17).
 * Specified for dl != NULL with a context (with NULL the function returns 0 at once; history expressions
 * about dl->zck cannot be guarded in CBMC 6.11). */
#define MPX_LMAX 16384
#define MPX_DL(dl) (DL_CTL(dl) && DL_STATE_OR_ERR(dl))
size_t multipart_extract(zckDL *dl, char *b, size_t l)
V_REQUIRES(dl != NULL && DL_MP_CTX(dl) && dl->zck != NULL && dl->mp != NULL && (dl->boundary == NULL || STR_TERMINATED(dl->boundary)) && MPX_DL(dl))
V_REQUIRES(l <= MPX_LMAX && (l == 0 || __CPROVER_rw_ok(b, l)))
V_ASSIGNS(dl->dl_regex; dl->end_regex; *dl->mp; l > 0: __CPROVER_object_upto(b, l); DL_RANGE_ASSIGNS(dl))
V_FREES(dl->mp->buffer; dl->zck->check_chunk_hash.ctx)
V_ENSURES(dl->dl_regex == V_OLD(dl->dl_regex) || __CPROVER_is_fresh(dl->dl_regex, sizeof(regex_t))) /*@C17.multipart_extract.part_header_pattern_kept_or_new*/
V_ENSURES(dl->end_regex == V_OLD(dl->end_regex) || __CPROVER_is_fresh(dl->end_regex, sizeof(regex_t))) /*@C17.multipart_extract.terminator_pattern_kept_or_new*/
V_ENSURES(dl->mp == V_OLD(dl->mp) && (dl->mp->buffer == NULL || dl->mp->buffer == V_OLD(dl->mp->buffer) || __CPROVER_is_fresh(dl->mp->buffer, dl->mp->buffer_len))) /*@C17.multipart_extract.carried_buffer_absent_kept_or_new*/
V_ENSURES(DL_RX_INV(dl)) /*@C17.multipart_extract.no_uncompiled_pattern_left_behind_on_any_return*/
V_ENSURES(MP_WF(dl->mp)) /*@C17.multipart_extract.carried_buffer_length_equals_its_allocation_on_every_return*/
V_ENSURES(__CPROVER_return_value == 0 || __CPROVER_return_value >= l) /*@C17.multipart_extract.accepts_everything_or_reports_zero*/
V_ENSURES(MPX_DL(dl)) /*@C05,C17.multipart_extract.download_state_invariant_kept_on_every_return*/
V_ENSURES(V_OLD(dl->zck->error_state) == 0 || (__CPROVER_return_value == 0 && WW_SAME)) /*@C17,C12.multipart_extract.context_in_error_is_refused*/
V_ENSURES(l == 0 || __CPROVER_rw_ok(b, l)) /*@C17.multipart_extract.the_callers_buffer_is_not_freed*/
V_ENSURES(DR_FAIL_REPORTED1(g_dr1, __CPROVER_return_value) && DR_FAIL_REPORTED1(g_dr2, __CPROVER_return_value) && DR_FAIL_REPORTED1(g_dr3, __CPROVER_return_value)) /*@C05.multipart_extract.a_checksum_mismatch_makes_the_call_report_zero*/
V_ENSURES(DR_VALID_KEPT1(g_dr1) && DR_VALID_KEPT1(g_dr2) && DR_VALID_KEPT1(g_dr3)) /*@C05.multipart_extract.valid_chunks_stay_valid*/
;
#endif
