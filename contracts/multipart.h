/* Contracts for src/lib/dl/multipart.c (C17: regex life-cycle, boundary extraction, part-header scanner) */
#ifndef CONTRACTS_MULTIPART_H
#define CONTRACTS_MULTIPART_H
#include "stubs/regex.h"
/* C17 typestate invariant of a zckDL: a pattern pointer that is not NULL holds a COMPILED pattern, and
 * the part-header pattern never exists without the terminator pattern (multipart_extract uses
 * end_regex whenever dl_regex is there).  Must hold after EVERY return, failing ones included: the
 * next callback invocation, zck_dl_reset and zck_dl_free call regexec/regfree on whatever is there. */
#define DL_RX_INV(dl) (RX_OK((dl)->hdr_regex) && RX_OK((dl)->dl_regex) && RX_OK((dl)->end_regex) && ((dl)->dl_regex == NULL || (dl)->end_regex != NULL))
#define MP_WF(mp) (__CPROVER_rw_ok((mp), sizeof(zckMP)) && ((mp)->buffer == NULL || ((mp)->buffer_len > 0 && __CPROVER_rw_ok((mp)->buffer, (mp)->buffer_len) && __CPROVER_POINTER_OFFSET((mp)->buffer) == 0 && __CPROVER_OBJECT_SIZE((mp)->buffer) == (mp)->buffer_len)))
#define DL_MP_CTX(dl) (__CPROVER_rw_ok((dl), sizeof(zckDL)) && ((dl)->zck == NULL || __CPROVER_rw_ok((dl)->zck, sizeof(zckCtx))) && DL_RX_INV(dl) && ((dl)->mp == NULL || MP_WF((dl)->mp)))
/* a heap string whose last allocated byte is NUL (sufficient for "NUL-terminated inside its object") */
#define STR_TERMINATED_RO(s) __CPROVER_r_ok((s), 1)
#define STR_TERMINATED(s) (__CPROVER_r_ok((s), 1) && __CPROVER_POINTER_OFFSET(s) == 0 && (s)[__CPROVER_OBJECT_SIZE(s) - 1] == 0)

void reset_mp(zckMP *mp)
V_REQUIRES(mp == NULL || MP_WF(mp))
V_ASSIGNS(mp != NULL: *mp)
V_FREES(mp != NULL: mp->buffer)
V_ENSURES(mp == NULL || (mp->buffer == NULL && mp->buffer_len == 0 && mp->state == 0 && mp->length == 0)) /*@C17,C05.reset_mp.parser_back_to_start*/
;

static char *add_boundary_to_regex(zckCtx *zck, const char *regex, const char *boundary)
V_REQUIRES(zck == NULL || __CPROVER_rw_ok(zck, sizeof(*zck)))
V_REQUIRES(regex == NULL || STR_TERMINATED_RO(regex))
V_REQUIRES(boundary == NULL || STR_TERMINATED(boundary))
V_ASSIGNS(zck != NULL: zck->error_state)
V_ENSURES(__CPROVER_return_value == NULL || __CPROVER_is_fresh(__CPROVER_return_value, 1)) /*@C17.add_boundary_to_regex.fresh_or_null*/
V_ENSURES(__CPROVER_return_value == NULL || __CPROVER_return_value[__CPROVER_OBJECT_SIZE(__CPROVER_return_value) - 1] == 0) /*@C17.add_boundary_to_regex.pattern_is_nul_terminated*/
;

static bool create_regex(zckCtx *zck, regex_t *reg, const char *regex)
V_REQUIRES(zck == NULL || __CPROVER_rw_ok(zck, sizeof(*zck)))
V_REQUIRES(reg == NULL || __CPROVER_rw_ok(reg, sizeof(regex_t)))
V_REQUIRES(regex == NULL || __CPROVER_r_ok(regex, 1))
V_ASSIGNS(zck != NULL: zck->error_state; reg != NULL: *reg)
V_ENSURES(!__CPROVER_return_value || (reg != NULL && RX_COMPILED(reg))) /*@C17.create_regex.true_means_compiled*/
V_ENSURES(__CPROVER_return_value || zck == NULL || zck->error_state > 0) /*@C17,C12.create_regex.failure_is_reported*/
;

static bool gen_regex(zckDL *dl)
V_REQUIRES(dl == NULL || (DL_MP_CTX(dl) && dl->dl_regex == NULL && (dl->boundary == NULL || STR_TERMINATED(dl->boundary))))
V_ASSIGNS(dl != NULL: dl->dl_regex; dl != NULL: dl->end_regex; dl != NULL && dl->zck != NULL: dl->zck->error_state)
V_ENSURES(dl == NULL || DL_RX_INV(dl)) /*@C17.gen_regex.no_uncompiled_pattern_left_behind_on_any_return*/
V_ENSURES(!__CPROVER_return_value || (dl->dl_regex != NULL && dl->end_regex != NULL)) /*@C17.gen_regex.true_means_both_patterns_ready*/
;

size_t multipart_get_boundary(zckDL *dl, char *b, size_t size)
V_REQUIRES(dl == NULL || (DL_MP_CTX(dl) && size < SIZE_MAX && (size == 0 || __CPROVER_r_ok(b, size))))
V_ASSIGNS(dl != NULL: dl->hdr_regex; dl != NULL: dl->boundary; dl != NULL && dl->mp != NULL: *dl->mp; dl != NULL && dl->zck != NULL: dl->zck->error_state)
V_FREES(dl != NULL && dl->mp != NULL: dl->mp->buffer)
V_ENSURES(dl == NULL || DL_RX_INV(dl)) /*@C17.multipart_get_boundary.no_uncompiled_pattern_left_behind_on_any_return*/
V_ENSURES(__CPROVER_return_value == 0 || __CPROVER_return_value == size) /*@C17.multipart_get_boundary.accepts_the_line_or_reports_zero*/
V_ENSURES(dl == NULL || dl->boundary == V_OLD(dl->boundary) || STR_TERMINATED(dl->boundary)) /*@C17.multipart_get_boundary.boundary_is_nul_terminated*/
V_ENSURES(dl == NULL || dl->mp == NULL || MP_WF(dl->mp)) /*@C17.multipart_get_boundary.parser_state_well_formed*/
;
#endif
