/* Name-rendering helpers used only inside logging arguments.  They write a file-local static
 * buffer (that fact is C19's business, decided by the symbol-table scan) and return a pointer to
 * a NUL-terminated string.  Callers under contract never read the string. */
#ifndef CONTRACTS_NAMES_H
#define CONTRACTS_NAMES_H
const char *zck_hash_name_from_type(int hash_type)
V_ASSIGNS()
V_ENSURES(__CPROVER_return_value != NULL) /*@C03.hash_name.nonnull*/
;
const char *zck_comp_name_from_type(int comp_type)
V_ASSIGNS()
V_ENSURES(__CPROVER_return_value != NULL) /*@C03.comp_name.nonnull*/
;
#endif
