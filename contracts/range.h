/* Contracts for src/lib/dl/range.c (C10) and for index_new_chunk (src/lib/index/index_create.c) as
 * used by range_insert_new. */
#ifndef CONTRACTS_RANGE_H
#define CONTRACTS_RANGE_H
#include "spec/ghost.h"
#include "spec/ghost_range.h"

/* The ghost record of calls is part of the contract only where index_new_chunk is REPLACED (the
 * real function does not write ghost state); its own unit enforces everything else. */
#ifdef VERIF_ENFORCE_INDEX_NEW_CHUNK
#define V_RX_ASSIGNS
#define V_RX_ENSURES(x)
#else
#define V_RX_ASSIGNS g_rx_n, g_rx_src, g_rx_size;
#define V_RX_ENSURES(x) V_ENSURES(x)
#endif

/* index_new_chunk: appends one entry (src, comp_size, orig_size, valid = finished) to the tail of
 * `index`; the entry's digests are copies of the given ones.  Fails (nothing appended) on a NULL
 * or failed context, a NULL index, digest_size == 0 or allocation failure. */
bool index_new_chunk(zckCtx *zck, zckIndex *index, char *digest, int digest_size, char *digest_uncompressed, size_t comp_size, size_t orig_size, zckChunk *src, bool finished)
V_REQUIRES(zck == NULL || __CPROVER_rw_ok(zck, sizeof(*zck)))
V_REQUIRES(index == NULL || __CPROVER_rw_ok(index, sizeof(*index)))
V_REQUIRES(index == NULL || ((index->first == NULL) == (index->last == NULL) && (index->last == NULL || __CPROVER_rw_ok(index->last, sizeof(zckChunk)))))
V_REQUIRES(digest == NULL || digest_size <= 0 || __CPROVER_r_ok(digest, digest_size))
V_REQUIRES(digest_uncompressed == NULL || digest_size <= 0 || __CPROVER_r_ok(digest_uncompressed, digest_size))
V_REQUIRES(digest_size >= 0 && digest_size <= 64)
V_ASSIGNS(V_RX_ASSIGNS zck != NULL: zck->error_state; index != NULL: index->digest_size, index->first, index->last, index->count, index->length; index != NULL && index->last != NULL: index->last->next)
V_ENSURES(!__CPROVER_return_value || (zck != NULL && V_OLD(zck->error_state) == 0 && zck->error_state == 0 && index != NULL && digest_size != 0)) /*@C10.index_new_chunk.succeeds_only_on_usable_arguments*/
V_ENSURES(!__CPROVER_return_value || (index->count == V_OLD(index->count) + 1 && index->length == V_OLD(index->length) + comp_size && index->digest_size == (size_t)digest_size)) /*@C10.index_new_chunk.count_and_length_advance*/
V_ENSURES(!__CPROVER_return_value || (__CPROVER_is_fresh(index->last, sizeof(zckChunk)) && index->last->src == src && index->last->comp_length == comp_size && index->last->length == orig_size && index->last->valid == (int)finished && index->last->next == NULL && index->last->start == V_OLD(index->length) && index->last->number == V_OLD(index->count) && index->last->zck == zck)) /*@C10,C04.index_new_chunk.tail_entry_names_source_and_sizes*/
V_ENSURES(!__CPROVER_return_value || (V_OLD(index->first) == NULL ? index->first == index->last : (index->first == V_OLD(index->first) && V_OLD(index->last)->next == index->last))) /*@C10.index_new_chunk.appended_at_tail*/
V_ENSURES(!__CPROVER_return_value || (__CPROVER_is_fresh(index->last->digest, digest_size) && __CPROVER_is_fresh(index->last->digest_uncompressed, digest_size) && index->last->digest_size == (digest == NULL ? 0 : digest_size))) /*@C10.index_new_chunk.entry_owns_digest_copies*/
V_ENSURES(__CPROVER_return_value || index == NULL || (index->first == V_OLD(index->first) && index->last == V_OLD(index->last) && index->count == V_OLD(index->count) && index->length == V_OLD(index->length))) /*@C10.index_new_chunk.failure_appends_nothing*/
#ifdef VERIF_NO_OOM
/* variant assumption "no allocation fails": then the listed argument conditions are the only failures */
V_RX_ENSURES(__CPROVER_return_value == (zck != NULL && V_OLD(zck->error_state) == 0 && index != NULL && digest_size != 0))
#endif
V_RX_ENSURES(__CPROVER_return_value ? (g_rx_n == V_OLD(g_rx_n) + 1 && g_rx_src[V_OLD(g_rx_n) % RX_MAX] == src && g_rx_size[V_OLD(g_rx_n) % RX_MAX] == comp_size) : g_rx_n == V_OLD(g_rx_n))
;

/* ---- leaf functions of range.c ------------------------------------------------------------- */

/* range_insert_new: one fresh node holding [start,end], linked between prev and next (either may
 * be NULL); with add_index one entry for chunk idx with stored size end-start+1 is appended to the
 * range index.  Frame: only the two neighbours' link fields, the range index and the error state. */
static zckRangeItem *range_insert_new(zckCtx *zck, zckRangeItem *prev, zckRangeItem *next, uint64_t start, uint64_t end, zckRange *info, zckChunk *idx, int add_index)
V_REQUIRES(zck == NULL || (__CPROVER_rw_ok(zck, sizeof(*zck)) && zck->error_state >= 0 && zck->error_state <= 2))
V_REQUIRES(prev == NULL || __CPROVER_rw_ok(prev, sizeof(*prev)))
V_REQUIRES(next == NULL || __CPROVER_rw_ok(next, sizeof(*next)))
V_REQUIRES(!add_index || (__CPROVER_rw_ok(info, sizeof(*info)) && __CPROVER_r_ok(idx, sizeof(*idx)) && idx->digest_size >= 0 && idx->digest_size <= 64 && (info->index.first == NULL) == (info->index.last == NULL) && (info->index.last == NULL || __CPROVER_rw_ok(info->index.last, sizeof(zckChunk)))))
V_REQUIRES(!add_index || ((idx->digest == NULL || idx->digest_size == 0 || __CPROVER_r_ok(idx->digest, idx->digest_size)) && (idx->digest_uncompressed == NULL || idx->digest_size == 0 || __CPROVER_r_ok(idx->digest_uncompressed, idx->digest_size))))
V_ASSIGNS(g_rx_n, g_rx_src, g_rx_size; zck != NULL: zck->error_state; prev != NULL: prev->next; next != NULL: next->prev; add_index != 0: info->index.digest_size, info->index.first, info->index.last, info->index.count, info->index.length; add_index != 0 && info->index.last != NULL: info->index.last->next)
V_ENSURES(__CPROVER_return_value == NULL || (__CPROVER_is_fresh(__CPROVER_return_value, sizeof(zckRangeItem)) && __CPROVER_return_value->start == start && __CPROVER_return_value->end == end && __CPROVER_return_value->prev == prev && __CPROVER_return_value->next == next)) /*@C10.range_insert_new.node_holds_the_range_and_its_links*/
V_ENSURES(__CPROVER_return_value == NULL || ((prev == NULL || prev->next == __CPROVER_return_value) && (next == NULL || next->prev == __CPROVER_return_value))) /*@C10.range_insert_new.neighbours_point_to_the_node*/
V_ENSURES(__CPROVER_return_value == NULL || (zck != NULL && V_OLD(zck->error_state) == 0)) /*@C10.range_insert_new.needs_a_clean_context*/
V_ENSURES(__CPROVER_return_value == NULL || (add_index ? (g_rx_n == V_OLD(g_rx_n) + 1 && g_rx_src[V_OLD(g_rx_n) % RX_MAX] == idx && g_rx_size[V_OLD(g_rx_n) % RX_MAX] == end - start + 1) : g_rx_n == V_OLD(g_rx_n))) /*@C10.range_insert_new.one_index_entry_for_the_chunk_with_its_extent_size*/
V_ENSURES(__CPROVER_return_value != NULL || g_rx_n == V_OLD(g_rx_n)) /*@C10.range_insert_new.failure_records_nothing*/
;

/* range_remove: unlinks `range` from its successor's side (the caller rewires the predecessor),
 * frees it and returns the successor. */
static zckRangeItem *range_remove(zckCtx *zck, zckRangeItem *range)
V_REQUIRES(__CPROVER_rw_ok(range, sizeof(*range)))
V_REQUIRES(range->next == NULL || (range->next != range && __CPROVER_rw_ok(range->next, sizeof(zckRangeItem))))
V_ASSIGNS(range->next != NULL: range->next->prev)
V_FREES(range)
V_ENSURES(__CPROVER_return_value == V_OLD(range->next)) /*@C10.range_remove.returns_successor*/
V_ENSURES(__CPROVER_return_value == NULL || __CPROVER_return_value->prev == V_OLD(range->prev)) /*@C10.range_remove.successor_points_back_past_the_removed_node*/
V_ENSURES(__CPROVER_was_freed(range)) /*@C10.range_remove.node_freed*/
;

int zck_get_range_count(zckRange *range)
V_REQUIRES(range == NULL || __CPROVER_r_ok(range, sizeof(*range)))
V_ASSIGNS()
V_ENSURES(range == NULL ? __CPROVER_return_value == -1 : __CPROVER_return_value == (int)range->count) /*@C10.zck_get_range_count.reports_the_count_field*/
;
#endif
