/* Contracts for the validity scan of src/lib/hash/hash.c (C09, C12): validate_checksums, its public wrappers
 * zck_find_valid_chunks / zck_validate_checksums, and zck_validate_data_checksum.
 * The chunk list is named by the ghost nodes g_n1..g_n3 (contracts/comp.h RD_LIST_WF: at most three entries with
 * running start offsets) -- units are therefore bounded in the list length; every loop is closed by a loop contract.
 * Ghost accounting: g_fpos / g_rd_bytes (file model), the watched hash object g_hu_hash (harness picks the running chunk
 * hash or the running data hash), g_scan_total = stored size of the data section, g_sc_valid0[] = valid flags before
 * the call.  Per-chunk exactness is checked at the call sites of validate_chunk / validate_file (guards in
 * contracts/hashfn.h, present with -DVERIF_SCAN_GUARD) and by the loop invariants in units/scan.json.
 * Frame: the assigns clauses contain no write-side ghost (g_wr_bytes, g_win_bad): a call to write_data / write would
 * violate them; ftruncate has no body and no contract in these units (a call would be reported). */
#ifndef CONTRACTS_SCAN_H
#define CONTRACTS_SCAN_H
#include "spec/ghost.h"
#include "contracts/hashfn.h"
#include "contracts/comp.h"

#define SC_TOTAL(z) (g_n3 != NULL ? g_n3->start + g_n3->comp_length : g_n2 != NULL ? g_n2->start + g_n2->comp_length : g_n1->comp_length)
/* stored offset (relative to the data section) at which the walk stands when its cursor is p */
#define SC_OFF(p) ((p) == g_n1 ? (size_t)0 : ((p) == g_n2 && g_n2 != NULL) ? g_n2->start : ((p) == g_n3 && g_n3 != NULL) ? g_n3->start : g_scan_total)
/* node k lies before cursor p in the walk */
#define SC_B1(p) ((p) != g_n1)
#define SC_B2(p) (g_n2 != NULL && (p) != g_n1 && (p) != g_n2)
#define SC_B3(p) (g_n3 != NULL && (p) == NULL)
#define SC_VERDICT(v) ((v) == 1 || (v) == -1)
#define SC_ALL(cond1, cond2, cond3) ((cond1) && (g_n2 == NULL || (cond2)) && (g_n3 == NULL || (cond3)))
/* index assumption (what the writer and index_read produce for the dictionary entry): an entry of uncompressed size 0 stores no bytes */
#define SC_PRE(zck) (__CPROVER_rw_ok(zck, sizeof(*zck)) && RD_LIST_WF(zck) && g_scan_total == SC_TOTAL(zck) && (g_n1->length != 0 || g_n1->comp_length == 0) && \
    SPEC_HASH_VALID(zck->hash_type.type) && zck->hash_type.digest_size == SPEC_DIGEST_SIZE(zck->hash_type.type) && \
    HASH_OBJ_WF(&zck->check_full_hash) && (zck->check_full_hash.type == NULL || zck->check_full_hash.type == &zck->hash_type) && CHUNK_HASH_WF(zck) && \
    (zck->has_uncompressed_source != 0 || (zck->full_hash_digest != NULL && __CPROVER_r_ok(zck->full_hash_digest, zck->hash_type.digest_size))) && \
    g_sc_valid0[0] == g_n1->valid && (g_n2 == NULL || g_sc_valid0[1] == g_n2->valid) && (g_n3 == NULL || g_sc_valid0[2] == g_n3->valid))
#define SC_ASSIGNS(zck) zck->check_full_hash.type, zck->check_full_hash.ctx, zck->check_chunk_hash.type, zck->check_chunk_hash.ctx, zck->error_state, g_hu_total, g_hu_seen, g_hu_ptr, g_hu_final, g_hu_inits, g_fin_val, g_fin_total, g_fin_seen, g_fin_ptr, g_fpos, g_rd_bytes, g_io_failed, g_last_read, g_watch_seen, g_watch_val; RD_VALID_TARGETS(zck)
#define SC_WATCH_FULL(zck) (g_hu_hash == &zck->check_full_hash)

/* ---- control-only view (-DVERIF_CTL; units validate_checksums_ctl / zck_validate_data_checksum_ctl) -------------------------
 * No list shape: the records the walk can stand on are g_n1 and g_n2, two fully nondeterministic chunk records whose `next`
 * fields are each NULL, g_n1 or g_n2 (cycles and self-loops included); index.first is NULL or g_n1.  Every iteration of a walk
 * over ANY list is an instance (current record arbitrary, first or not, successor NULL / itself / another arbitrary record).
 * Clauses that quantify over the list ("every scanned chunk") are V_ENSURES_WF (named list, companion units); the CTL view states
 * them per record: a record's flag is either untouched or a verdict, and 1 on success. */
#ifdef VERIF_CTL
#define V_REQUIRES_CTL(x) V_REQUIRES(x)
#else
#define V_REQUIRES_CTL(x)
#endif
#define SC_NEXT_IN(p) ((p)->next == NULL || (p)->next == g_n1 || (p)->next == g_n2)
#define SC_PRE_CTL(zck) (__CPROVER_rw_ok(zck, sizeof(*zck)) && g_n1 != NULL && g_n2 != NULL && g_n3 == NULL && g_n1 != g_n2 && __CPROVER_rw_ok(g_n1, sizeof(zckChunk)) && __CPROVER_rw_ok(g_n2, sizeof(zckChunk)) && \
    (zck->index.first == NULL || zck->index.first == g_n1) && SC_NEXT_IN(g_n1) && SC_NEXT_IN(g_n2) && zck->error_state >= 0 && \
    (zck->check_full_hash.type == NULL || zck->check_full_hash.type == &zck->hash_type) && (zck->check_chunk_hash.type == NULL || zck->check_chunk_hash.type == &zck->chunk_hash_type) && \
    g_sc_valid0[0] == g_n1->valid && g_sc_valid0[1] == g_n2->valid)
/* per record (CTL): untouched or a verdict / untouched or valid */
#define SC_REC_VERDICT(i, n) ((n)->valid == g_sc_valid0[i] || SC_VERDICT((n)->valid))
#define SC_REC_GOOD(i, n) ((n)->valid == g_sc_valid0[i] || (n)->valid == 1)
#define SC_RD_DELTA(zck) (g_rd_bytes[G_IX(zck->fd)] - V_OLD(g_rd_bytes[G_IX(zck->fd)]))

/* The scan proper: 1 = every scanned chunk and (where the format defines one) the data checksum match, -1 = something does not, 0 = error */
static int validate_checksums(zckCtx *zck, zck_log_type bad_checksums)
V_REQUIRES_WF(SC_PRE(zck))
V_REQUIRES_CTL(SC_PRE_CTL(zck))
V_ASSIGNS(SC_ASSIGNS(zck))
V_FREES(zck->check_full_hash.ctx, zck->check_chunk_hash.ctx)
V_ENSURES(__CPROVER_return_value == 1 || __CPROVER_return_value == 0 || __CPROVER_return_value == -1) /*@C09.validate_checksums.ret*/
V_ENSURES(__CPROVER_return_value == 0 || (V_OLD(zck->error_state) == 0 && zck->error_state == 0 && zck->mode == ZCK_MODE_READ)) /*@C12,C09.validate_checksums.no_verdict_once_an_error_arose*/
V_ENSURES(__CPROVER_return_value == 0 || g_fpos[G_IX(zck->fd)] == (g_off_t)zck->data_offset) /*@C09.validate_checksums.leaves_the_descriptor_at_the_data_start*/
V_ENSURES(__CPROVER_return_value == 0 || (zck->check_full_hash.ctx != NULL && zck->check_full_hash.type == &zck->hash_type && (!SC_WATCH_FULL(zck) || g_hu_total == 0))) /*@C09.validate_checksums.leaves_a_freshly_initialised_data_checksum*/
V_ENSURES_WF(__CPROVER_return_value == 0 || (SC_VERDICT(g_n1->valid) && (zck->header_only || SC_ALL(1, SC_VERDICT(g_n2->valid), SC_VERDICT(g_n3->valid))))) /*@C09.validate_checksums.every_scanned_chunk_gets_a_verdict*/
V_ENSURES_WF(__CPROVER_return_value != 1 || (g_n1->valid == 1 && (zck->header_only || SC_ALL(1, g_n2->valid == 1, g_n3->valid == 1)))) /*@C09.validate_checksums.success_only_if_every_scanned_chunk_is_valid*/
V_ENSURES_WF(__CPROVER_return_value != 1 || zck->has_uncompressed_source != 0 || zck->header_only || !SC_WATCH_FULL(zck) || (g_hu_final == V_OLD(g_hu_final) + 1 && g_fin_total == g_scan_total)) /*@C09.validate_checksums.success_only_if_the_data_checksum_was_verified_over_the_whole_data_section*/
V_ENSURES_WF(__CPROVER_return_value != -1 || g_n1->valid == -1 || (!zck->header_only && ((g_n2 != NULL && g_n2->valid == -1) || (g_n3 != NULL && g_n3->valid == -1)))) /*@C09.validate_checksums.failure_marks_a_chunk_failed*/
V_ENSURES_WF(__CPROVER_return_value != -1 || zck->has_uncompressed_source != 0 || zck->header_only || !SC_WATCH_FULL(zck) || g_hu_final == V_OLD(g_hu_final) || SC_ALL(g_n1->valid == -1, g_n2->valid == -1, g_n3->valid == -1)) /*@C09.validate_checksums.data_checksum_mismatch_fails_every_chunk*/
V_ENSURES_WF(!zck->header_only || SC_ALL(1, g_n2->valid == g_sc_valid0[1], g_n3->valid == g_sc_valid0[2])) /*@C09.validate_checksums.detached_header_scans_only_the_dictionary*/
V_ENSURES_WF(__CPROVER_return_value != 1 || zck->header_only || g_rd_bytes[G_IX(zck->fd)] == V_OLD(g_rd_bytes[G_IX(zck->fd)]) + g_scan_total) /*@C09,C12.validate_checksums.success_only_if_every_stored_byte_of_the_data_section_was_read_once*/
V_ENSURES_CTL(__CPROVER_return_value == 0 || (SC_REC_VERDICT(0, g_n1) && SC_REC_VERDICT(1, g_n2))) /*@C09.validate_checksums.a_flag_is_untouched_or_a_verdict*/
V_ENSURES_CTL(__CPROVER_return_value != 1 || (SC_REC_GOOD(0, g_n1) && SC_REC_GOOD(1, g_n2))) /*@C09.validate_checksums.success_only_if_every_flag_it_set_is_valid*/
V_ENSURES_CTL(__CPROVER_return_value != 1 || zck->has_uncompressed_source != 0 || zck->header_only || !SC_WATCH_FULL(zck) || (g_hu_final == V_OLD(g_hu_final) + 1 && g_fin_total == SC_RD_DELTA(zck))) /*@C09,C12.validate_checksums.success_only_if_the_data_checksum_was_verified_over_every_byte_read*/
V_ENSURES_CTL(!zck->header_only || g_n2->valid == g_sc_valid0[1]) /*@C09.validate_checksums.detached_header_touches_only_the_first_entry*/
;

int zck_find_valid_chunks(zckCtx *zck)
V_REQUIRES(SC_PRE(zck))
V_ASSIGNS(SC_ASSIGNS(zck))
V_FREES(zck->check_full_hash.ctx, zck->check_chunk_hash.ctx)
V_ENSURES(__CPROVER_return_value == 1 || __CPROVER_return_value == 0 || __CPROVER_return_value == -1) /*@C09.zck_find_valid_chunks.ret*/
V_ENSURES(__CPROVER_return_value == 0 || (V_OLD(zck->error_state) == 0 && zck->error_state == 0 && zck->mode == ZCK_MODE_READ)) /*@C12,C09.zck_find_valid_chunks.no_verdict_once_an_error_arose*/
V_ENSURES(__CPROVER_return_value == 0 || g_fpos[G_IX(zck->fd)] == (g_off_t)zck->data_offset) /*@C09.zck_find_valid_chunks.leaves_the_descriptor_at_the_data_start*/
V_ENSURES(__CPROVER_return_value == 0 || (zck->check_full_hash.ctx != NULL && zck->check_full_hash.type == &zck->hash_type && (!SC_WATCH_FULL(zck) || g_hu_total == 0))) /*@C09.zck_find_valid_chunks.leaves_a_freshly_initialised_data_checksum*/
V_ENSURES(__CPROVER_return_value == 0 || (SC_VERDICT(g_n1->valid) && (zck->header_only || SC_ALL(1, SC_VERDICT(g_n2->valid), SC_VERDICT(g_n3->valid))))) /*@C09.zck_find_valid_chunks.every_scanned_chunk_gets_a_verdict*/
V_ENSURES(__CPROVER_return_value != 1 || (g_n1->valid == 1 && (zck->header_only || SC_ALL(1, g_n2->valid == 1, g_n3->valid == 1)))) /*@C09.zck_find_valid_chunks.success_only_if_every_scanned_chunk_is_valid*/
V_ENSURES(__CPROVER_return_value != 1 || zck->has_uncompressed_source != 0 || zck->header_only || !SC_WATCH_FULL(zck) || (g_hu_final == V_OLD(g_hu_final) + 1 && g_fin_total == g_scan_total)) /*@C09.zck_find_valid_chunks.success_only_if_the_data_checksum_was_verified_over_the_whole_data_section*/
V_ENSURES(__CPROVER_return_value != -1 || g_n1->valid == -1 || (!zck->header_only && ((g_n2 != NULL && g_n2->valid == -1) || (g_n3 != NULL && g_n3->valid == -1)))) /*@C09.zck_find_valid_chunks.failure_marks_a_chunk_failed*/
V_ENSURES(__CPROVER_return_value != -1 || zck->has_uncompressed_source != 0 || zck->header_only || !SC_WATCH_FULL(zck) || g_hu_final == V_OLD(g_hu_final) || SC_ALL(g_n1->valid == -1, g_n2->valid == -1, g_n3->valid == -1)) /*@C09.zck_find_valid_chunks.data_checksum_mismatch_fails_every_chunk*/
V_ENSURES(!zck->header_only || SC_ALL(1, g_n2->valid == g_sc_valid0[1], g_n3->valid == g_sc_valid0[2])) /*@C09.zck_find_valid_chunks.detached_header_scans_only_the_dictionary*/
V_ENSURES(__CPROVER_return_value != 1 || zck->header_only || g_rd_bytes[G_IX(zck->fd)] == V_OLD(g_rd_bytes[G_IX(zck->fd)]) + g_scan_total) /*@C09,C12.zck_find_valid_chunks.success_only_if_every_stored_byte_of_the_data_section_was_read_once*/
;

int zck_validate_checksums(zckCtx *zck)
V_REQUIRES(SC_PRE(zck))
V_ASSIGNS(SC_ASSIGNS(zck))
V_FREES(zck->check_full_hash.ctx, zck->check_chunk_hash.ctx)
V_ENSURES(__CPROVER_return_value == 1 || __CPROVER_return_value == 0 || __CPROVER_return_value == -1) /*@C09.zck_validate_checksums.ret*/
V_ENSURES(__CPROVER_return_value == 0 || (V_OLD(zck->error_state) == 0 && zck->error_state == 0 && zck->mode == ZCK_MODE_READ)) /*@C12,C09.zck_validate_checksums.no_verdict_once_an_error_arose*/
V_ENSURES(__CPROVER_return_value == 0 || g_fpos[G_IX(zck->fd)] == (g_off_t)zck->data_offset) /*@C09.zck_validate_checksums.leaves_the_descriptor_at_the_data_start*/
V_ENSURES(__CPROVER_return_value == 0 || (zck->check_full_hash.ctx != NULL && zck->check_full_hash.type == &zck->hash_type && (!SC_WATCH_FULL(zck) || g_hu_total == 0))) /*@C09.zck_validate_checksums.leaves_a_freshly_initialised_data_checksum*/
V_ENSURES(__CPROVER_return_value == 0 || (SC_VERDICT(g_n1->valid) && (zck->header_only || SC_ALL(1, SC_VERDICT(g_n2->valid), SC_VERDICT(g_n3->valid))))) /*@C09.zck_validate_checksums.every_scanned_chunk_gets_a_verdict*/
V_ENSURES(__CPROVER_return_value != 1 || (g_n1->valid == 1 && (zck->header_only || SC_ALL(1, g_n2->valid == 1, g_n3->valid == 1)))) /*@C09.zck_validate_checksums.success_only_if_every_scanned_chunk_is_valid*/
V_ENSURES(__CPROVER_return_value != 1 || zck->has_uncompressed_source != 0 || zck->header_only || !SC_WATCH_FULL(zck) || (g_hu_final == V_OLD(g_hu_final) + 1 && g_fin_total == g_scan_total)) /*@C09.zck_validate_checksums.success_only_if_the_data_checksum_was_verified_over_the_whole_data_section*/
V_ENSURES(__CPROVER_return_value != -1 || g_n1->valid == -1 || (!zck->header_only && ((g_n2 != NULL && g_n2->valid == -1) || (g_n3 != NULL && g_n3->valid == -1)))) /*@C09.zck_validate_checksums.failure_marks_a_chunk_failed*/
V_ENSURES(__CPROVER_return_value != -1 || zck->has_uncompressed_source != 0 || zck->header_only || !SC_WATCH_FULL(zck) || g_hu_final == V_OLD(g_hu_final) || SC_ALL(g_n1->valid == -1, g_n2->valid == -1, g_n3->valid == -1)) /*@C09.zck_validate_checksums.data_checksum_mismatch_fails_every_chunk*/
V_ENSURES(!zck->header_only || SC_ALL(1, g_n2->valid == g_sc_valid0[1], g_n3->valid == g_sc_valid0[2])) /*@C09.zck_validate_checksums.detached_header_scans_only_the_dictionary*/
V_ENSURES(__CPROVER_return_value != 1 || zck->header_only || g_rd_bytes[G_IX(zck->fd)] == V_OLD(g_rd_bytes[G_IX(zck->fd)]) + g_scan_total) /*@C09,C12.zck_validate_checksums.success_only_if_every_stored_byte_of_the_data_section_was_read_once*/
;

/* whole-data checksum validation: 1 = the stored bytes of the whole data section hash to the stored data checksum, -1 = they do not,
 * 0 = error.  Files with the uncompressed-source flag have no data checksum: the call is a full validity scan (validate_checksums). */
int zck_validate_data_checksum(zckCtx *zck)
V_REQUIRES_WF(SC_PRE(zck))
V_REQUIRES_CTL(SC_PRE_CTL(zck))
V_ASSIGNS(SC_ASSIGNS(zck))
V_FREES(zck->check_full_hash.ctx, zck->check_chunk_hash.ctx)
V_ENSURES(__CPROVER_return_value == 1 || __CPROVER_return_value == 0 || __CPROVER_return_value == -1) /*@C09.zck_validate_data_checksum.ret*/
V_ENSURES(__CPROVER_return_value == 0 || (V_OLD(zck->error_state) == 0 && zck->error_state == 0 && zck->mode == ZCK_MODE_READ)) /*@C12,C09.zck_validate_data_checksum.no_verdict_once_an_error_arose*/
V_ENSURES(__CPROVER_return_value == 0 || g_fpos[G_IX(zck->fd)] == (g_off_t)zck->data_offset) /*@C09.zck_validate_data_checksum.leaves_the_descriptor_at_the_data_start*/
V_ENSURES(__CPROVER_return_value == 0 || (zck->check_full_hash.ctx != NULL && zck->check_full_hash.type == &zck->hash_type && (!SC_WATCH_FULL(zck) || g_hu_total == 0))) /*@C09.zck_validate_data_checksum.leaves_a_freshly_initialised_data_checksum*/
V_ENSURES_WF(__CPROVER_return_value != 1 || zck->has_uncompressed_source != 0 || !SC_WATCH_FULL(zck) || (g_hu_final == V_OLD(g_hu_final) + 1 && g_fin_total == g_scan_total)) /*@C09.zck_validate_data_checksum.success_only_if_the_data_checksum_was_verified_over_the_whole_data_section*/
V_ENSURES(__CPROVER_return_value != 1 || zck->has_uncompressed_source != 0 || !SC_WATCH_FULL(zck) || !(g_k1 < (size_t)zck->hash_type.digest_size) || g_fin_val == zck->full_hash_digest[g_k1]) /*@C09.zck_validate_data_checksum.success_only_if_every_data_digest_byte_equal*/
V_ENSURES_WF(zck->has_uncompressed_source != 0 || SC_ALL(g_n1->valid == g_sc_valid0[0], g_n2->valid == g_sc_valid0[1], g_n3->valid == g_sc_valid0[2])) /*@C09.zck_validate_data_checksum.touches_no_chunk_flag*/
V_ENSURES_WF(__CPROVER_return_value != 1 || zck->has_uncompressed_source != 0 || g_rd_bytes[G_IX(zck->fd)] == V_OLD(g_rd_bytes[G_IX(zck->fd)]) + g_scan_total) /*@C09,C12.zck_validate_data_checksum.success_only_if_every_stored_byte_of_the_data_section_was_read_once*/
V_ENSURES_WF(zck->has_uncompressed_source == 0 || __CPROVER_return_value != 1 || (g_n1->valid == 1 && (zck->header_only || SC_ALL(1, g_n2->valid == 1, g_n3->valid == 1)))) /*@C09.zck_validate_data_checksum.uncompressed_source_success_only_if_every_scanned_chunk_is_valid*/
V_ENSURES_CTL(__CPROVER_return_value != 1 || zck->has_uncompressed_source != 0 || !SC_WATCH_FULL(zck) || (g_hu_final == V_OLD(g_hu_final) + 1 && g_fin_total == SC_RD_DELTA(zck))) /*@C09,C12.zck_validate_data_checksum.success_only_if_the_data_checksum_was_verified_over_every_byte_read*/
V_ENSURES_CTL(zck->has_uncompressed_source != 0 || (g_n1->valid == g_sc_valid0[0] && g_n2->valid == g_sc_valid0[1])) /*@C09.zck_validate_data_checksum.touches_no_chunk_flag_ctl*/
V_ENSURES_CTL(zck->has_uncompressed_source == 0 || __CPROVER_return_value != 1 || (SC_REC_GOOD(0, g_n1) && SC_REC_GOOD(1, g_n2))) /*@C09.zck_validate_data_checksum.uncompressed_source_success_only_if_every_flag_it_set_is_valid*/
;
#endif
