/* C18: contracts of the buffering layer of the bundled SHA code (sha2.c: sha256/sha512 init/update/final;
 * sha1.c: SHA1_Init/Update/Final).  Written from FIPS 180-4 section 5.1 (padding) and 6 (block order):
 * the message is cut into consecutive blocks, every message byte is handed to the compression function exactly
 * once at its own position, the remainder stays buffered, and final appends 0x80, zeros and the big-endian
 * bit length so that the padded length is the least multiple of the block size >= len + 1 + 8 (resp. 16).
 *
 * Model: "transform stream" (spec/ghost_sha.h) = all blocks handed to the compression function, in order.
 * With S = (buffered tail before the call) || (message of this call) an update must hand over exactly the first
 * floor(|S| / B) * B bytes of S and keep the rest buffered.  g_tby_k is a solver-chosen offset of the transform
 * stream ("for every byte"), g_k1 a solver-chosen index into the buffer / digest.
 * The compression functions are used through their caller-view contracts (contracts/sha_block_cv.h). */
#ifndef CONTRACTS_SHA_H
#define CONTRACTS_SHA_H
#ifndef VERIF_SHA_CALLER_VIEW
#define VERIF_SHA_CALLER_VIEW
#endif
#ifdef VERIF_SHA_MACROS_ONLY
#define CONTRACTS_SHA_BLOCK_CV_H   /* no contracts on the compression functions either */
#endif
#include "contracts/sha_block.h"
#include "spec/ghost.h"
/* Domain of the bundled (third-party) update functions: the length parameter is an unsigned int and the code
 * computes `buffered + len` (all three), `i + 63` (SHA-1) and `(int)i << 6` (SHA-2) in 32 bits, so a single update
 * of 2 GiB or more is outside what these functions handle (wrong block count; SHA-1 even copies `len` bytes into
 * its 64-byte buffer when buffered + len wraps).  The limit is a REQUIRES here and therefore an obligation at the
 * call sites in lib_hash_update (libsha.c), where the size_t -> unsigned int narrowing happens. */
#define SHA_MAX_SINGLE_UPDATE 0x7fffffffu
/* FIPS 180-4 section 1: SHA-1 and SHA-256 are defined for messages of fewer than 2^64 BITS; the same limit is
 * used for SHA-512 here (the standard allows 2^128 bits; the bundled code counts bytes in at most 64 bits).
 * Trivially true while the context counts the length in 32 bits (unchanged tree). */
#define SHA_MAX_MESSAGE_BYTES (1ull << 61)

/* ------------------------------------------------------------------------------------------------------------
 * SHA-256 (block 64, length field 8 bytes)
 * ---------------------------------------------------------------------------------------------------------- */
/* representation invariant of a running context: fewer than one block buffered, whole blocks counted */
#define SHA256_CTX_WF(c) (__CPROVER_rw_ok((c), sizeof(sha256_ctx)) && (c)->len < SHA256_BLOCK_SIZE && (c)->tot_len % SHA256_BLOCK_SIZE == 0)
#define U256_SUM      ((g_u64)V_OLD(ctx->len) + (g_u64)len)                 /* |S| */
#define U256_N        (U256_SUM >> 6)                                 /* = |S| / 64 (shift: cheaper circuit than a divider) */                        /* complete blocks in S */
#define U256_REM      (U256_SUM & 63)                                 /* = |S| mod 64 */
#define U256_OLDBLK   V_OLD(ctx->block[(g_tby_k - g_tb_total * 64) & 63])   /* old buffered byte at the watched offset */

#ifndef VERIF_SHA_MACROS_ONLY
void sha256_init(sha256_ctx *ctx)
V_REQUIRES(__CPROVER_w_ok(ctx, sizeof(*ctx)))
V_ASSIGNS(ctx->len, ctx->tot_len, __CPROVER_object_upto(ctx->h, sizeof(ctx->h)))
V_ENSURES(ctx->len == 0 && ctx->tot_len == 0) /*@C18.sha256_init.empty_message*/
V_ENSURES(ctx->h[g_k1 & 7] == SPEC_SHA256_IV(g_k1 & 7)) /*@C18.sha256_init.fips_initial_hash_value*/
;
#endif

#ifndef VERIF_SHA_MACROS_ONLY
void sha256_update(sha256_ctx *ctx, const unsigned char *message, unsigned int len)
V_REQUIRES(SHA256_CTX_WF(ctx))
V_REQUIRES(len <= SHA_MAX_SINGLE_UPDATE)
V_REQUIRES(len == 0 || __CPROVER_r_ok(message, len))
V_ASSIGNS(ctx->len, ctx->tot_len, __CPROVER_object_upto(ctx->block, sizeof(ctx->block)), __CPROVER_object_upto(ctx->h, sizeof(ctx->h)), g_tb_total, g_tby_seen, g_tby_val)
V_ENSURES(ctx->len == U256_REM) /*@C18.sha256_update.buffered_length_is_remainder*/
V_ENSURES(g_tb_total == V_OLD(g_tb_total) + U256_N) /*@C18.sha256_update.processes_exactly_the_complete_blocks*/
V_ENSURES(!TB_HIT(U256_N, 64) || g_tby_seen == V_OLD(g_tby_seen) + 1) /*@C18.sha256_update.every_byte_handed_over_once*/
V_ENSURES(!TB_HIT(U256_N, 64) || g_tby_val == (TB_REL(64) < V_OLD(ctx->len) ? U256_OLDBLK : message[TB_REL(64) - V_OLD(ctx->len)])) /*@C18.sha256_update.bytes_handed_over_in_stream_order*/
V_ENSURES(TB_HIT(U256_N, 64) || (g_tby_seen == V_OLD(g_tby_seen) && g_tby_val == V_OLD(g_tby_val))) /*@C18.sha256_update.nothing_else_handed_over*/
V_ENSURES(!(U256_N == 0 && g_k1 < V_OLD(ctx->len)) || ctx->block[g_k1 & 63] == V_OLD(ctx->block[g_k1 & 63])) /*@C18.sha256_update.buffered_prefix_kept*/
V_ENSURES(!(g_k1 < U256_REM && (U256_N > 0 || g_k1 >= V_OLD(ctx->len))) || ctx->block[g_k1 & 63] == message[U256_N * 64 + g_k1 - V_OLD(ctx->len)]) /*@C18.sha256_update.tail_is_buffered*/
V_ENSURES((g_u64)ctx->tot_len == (g_u64)V_OLD(ctx->tot_len) + 64 * U256_N) /*@C18.sha256_update.total_length_exact*/
;
#endif

/* L = message length in bytes as the context counts it; P = padded length per FIPS 5.1.1 */
#define F256_L        ((g_u64)V_OLD(ctx->tot_len) + (g_u64)V_OLD(ctx->len))
#define F256_N        ((g_u64)((SPEC_PAD_TOTAL(F256_L, 64, 8) - V_OLD(ctx->tot_len)) / 64))   /* blocks still to be processed: 1 or 2 */
#define F256_OLDBLK   V_OLD(ctx->block[(g_tby_k - g_tb_total * 64) & 63])

#ifndef VERIF_SHA_MACROS_ONLY
void sha256_final(sha256_ctx *ctx, unsigned char *digest)
V_REQUIRES(SHA256_CTX_WF(ctx))
V_REQUIRES((g_u64)ctx->tot_len + (g_u64)ctx->len < SHA_MAX_MESSAGE_BYTES)
V_REQUIRES(__CPROVER_w_ok(digest, SHA256_DIGEST_SIZE))
V_ASSIGNS(__CPROVER_object_upto(ctx->block, sizeof(ctx->block)), __CPROVER_object_upto(ctx->h, sizeof(ctx->h)), __CPROVER_object_upto(digest, SHA256_DIGEST_SIZE), g_tb_total, g_tby_seen, g_tby_val)
V_ENSURES(g_tb_total == V_OLD(g_tb_total) + F256_N) /*@C18.sha256_final.padded_length_is_least_multiple*/
V_ENSURES(!TB_HIT(F256_N, 64) || g_tby_seen == V_OLD(g_tby_seen) + 1) /*@C18.sha256_final.every_padded_byte_handed_over_once*/
V_ENSURES(!(TB_HIT(F256_N, 64) && TB_REL(64) < V_OLD(ctx->len)) || g_tby_val == F256_OLDBLK) /*@C18.sha256_final.buffered_tail_first*/
V_ENSURES(!(TB_HIT(F256_N, 64) && TB_REL(64) >= V_OLD(ctx->len) && TB_REL(64) < F256_N * 64 - 8) || g_tby_val == (TB_REL(64) == V_OLD(ctx->len) ? 0x80 : 0)) /*@C18.sha256_final.pad_0x80_then_zeros*/
V_ENSURES(!(TB_HIT(F256_N, 64) && TB_REL(64) >= F256_N * 64 - 8) || g_tby_val == SPEC_PAD_TAIL_BYTE(F256_L, 64, 8, V_OLD(ctx->tot_len) + TB_REL(64))) /*@C18.sha256_final.length_field_is_64bit_big_endian_bit_length*/
V_ENSURES(TB_HIT(F256_N, 64) || (g_tby_seen == V_OLD(g_tby_seen) && g_tby_val == V_OLD(g_tby_val))) /*@C18.sha256_final.nothing_else_handed_over*/
V_ENSURES(digest[g_k1 & 31] == (unsigned char)(ctx->h[(g_k1 & 31) >> 2] >> (8 * (3 - (g_k1 & 3))))) /*@C18.sha256_final.digest_is_big_endian_hash_value*/
;
#endif
/* ------------------------------------------------------------------------------------------------------------
 * SHA-512 (block 128, length field 16 bytes); SHA-512/128 = first 16 bytes of this digest
 * ---------------------------------------------------------------------------------------------------------- */
/* representation invariant of a running context: fewer than one block buffered, whole blocks counted */
#define SHA512_CTX_WF(c) (__CPROVER_rw_ok((c), sizeof(sha512_ctx)) && (c)->len < SHA512_BLOCK_SIZE && (c)->tot_len % SHA512_BLOCK_SIZE == 0)
#define U512_SUM      ((g_u64)V_OLD(ctx->len) + (g_u64)len)                 /* |S| */
#define U512_N        (U512_SUM >> 7)                                 /* = |S| / 128 */                        /* complete blocks in S */
#define U512_REM      (U512_SUM & 127)                                /* = |S| mod 128 */
#define U512_OLDBLK   V_OLD(ctx->block[(g_tby_k - g_tb_total * 128) & 127])   /* old buffered byte at the watched offset */

#ifndef VERIF_SHA_MACROS_ONLY
void sha512_init(sha512_ctx *ctx)
V_REQUIRES(__CPROVER_w_ok(ctx, sizeof(*ctx)))
V_ASSIGNS(ctx->len, ctx->tot_len, __CPROVER_object_upto(ctx->h, sizeof(ctx->h)))
V_ENSURES(ctx->len == 0 && ctx->tot_len == 0) /*@C18.sha512_init.empty_message*/
V_ENSURES(ctx->h[g_k1 & 7] == SPEC_SHA512_IV(g_k1 & 7)) /*@C18.sha512_init.fips_initial_hash_value*/
;
#endif

#ifndef VERIF_SHA_MACROS_ONLY
void sha512_update(sha512_ctx *ctx, const unsigned char *message, unsigned int len)
V_REQUIRES(SHA512_CTX_WF(ctx))
V_REQUIRES(len <= SHA_MAX_SINGLE_UPDATE)
V_REQUIRES(len == 0 || __CPROVER_r_ok(message, len))
V_ASSIGNS(ctx->len, ctx->tot_len, __CPROVER_object_upto(ctx->block, sizeof(ctx->block)), __CPROVER_object_upto(ctx->h, sizeof(ctx->h)), g_tb_total, g_tby_seen, g_tby_val)
V_ENSURES(ctx->len == U512_REM) /*@C18.sha512_update.buffered_length_is_remainder*/
V_ENSURES(g_tb_total == V_OLD(g_tb_total) + U512_N) /*@C18.sha512_update.processes_exactly_the_complete_blocks*/
V_ENSURES(!TB_HIT(U512_N, 128) || g_tby_seen == V_OLD(g_tby_seen) + 1) /*@C18.sha512_update.every_byte_handed_over_once*/
V_ENSURES(!TB_HIT(U512_N, 128) || g_tby_val == (TB_REL(128) < V_OLD(ctx->len) ? U512_OLDBLK : message[TB_REL(128) - V_OLD(ctx->len)])) /*@C18.sha512_update.bytes_handed_over_in_stream_order*/
V_ENSURES(TB_HIT(U512_N, 128) || (g_tby_seen == V_OLD(g_tby_seen) && g_tby_val == V_OLD(g_tby_val))) /*@C18.sha512_update.nothing_else_handed_over*/
V_ENSURES(!(U512_N == 0 && g_k1 < V_OLD(ctx->len)) || ctx->block[g_k1 & 127] == V_OLD(ctx->block[g_k1 & 127])) /*@C18.sha512_update.buffered_prefix_kept*/
V_ENSURES(!(g_k1 < U512_REM && (U512_N > 0 || g_k1 >= V_OLD(ctx->len))) || ctx->block[g_k1 & 127] == message[U512_N * 128 + g_k1 - V_OLD(ctx->len)]) /*@C18.sha512_update.tail_is_buffered*/
V_ENSURES((g_u64)ctx->tot_len == (g_u64)V_OLD(ctx->tot_len) + 128 * U512_N) /*@C18.sha512_update.total_length_exact*/
;
#endif

/* L = message length in bytes as the context counts it; P = padded length per FIPS 5.1.1 */
#define F512_L        ((g_u64)V_OLD(ctx->tot_len) + (g_u64)V_OLD(ctx->len))
#define F512_N        ((g_u64)((SPEC_PAD_TOTAL(F512_L, 128, 16) - V_OLD(ctx->tot_len)) / 128))   /* blocks still to be processed: 1 or 2 */
#define F512_OLDBLK   V_OLD(ctx->block[(g_tby_k - g_tb_total * 128) & 127])

#ifndef VERIF_SHA_MACROS_ONLY
void sha512_final(sha512_ctx *ctx, unsigned char *digest)
V_REQUIRES(SHA512_CTX_WF(ctx))
V_REQUIRES((g_u64)ctx->tot_len + (g_u64)ctx->len < SHA_MAX_MESSAGE_BYTES)
V_REQUIRES(__CPROVER_w_ok(digest, SHA512_DIGEST_SIZE))
V_ASSIGNS(__CPROVER_object_upto(ctx->block, sizeof(ctx->block)), __CPROVER_object_upto(ctx->h, sizeof(ctx->h)), __CPROVER_object_upto(digest, SHA512_DIGEST_SIZE), g_tb_total, g_tby_seen, g_tby_val)
V_ENSURES(g_tb_total == V_OLD(g_tb_total) + F512_N) /*@C18.sha512_final.padded_length_is_least_multiple*/
V_ENSURES(!TB_HIT(F512_N, 128) || g_tby_seen == V_OLD(g_tby_seen) + 1) /*@C18.sha512_final.every_padded_byte_handed_over_once*/
V_ENSURES(!(TB_HIT(F512_N, 128) && TB_REL(128) < V_OLD(ctx->len)) || g_tby_val == F512_OLDBLK) /*@C18.sha512_final.buffered_tail_first*/
V_ENSURES(!(TB_HIT(F512_N, 128) && TB_REL(128) >= V_OLD(ctx->len) && TB_REL(128) < F512_N * 128 - 16) || g_tby_val == (TB_REL(128) == V_OLD(ctx->len) ? 0x80 : 0)) /*@C18.sha512_final.pad_0x80_then_zeros*/
V_ENSURES(!(TB_HIT(F512_N, 128) && TB_REL(128) >= F512_N * 128 - 16) || g_tby_val == SPEC_PAD_TAIL_BYTE(F512_L, 128, 16, V_OLD(ctx->tot_len) + TB_REL(128))) /*@C18.sha512_final.length_field_is_128bit_big_endian_bit_length*/
V_ENSURES(TB_HIT(F512_N, 128) || (g_tby_seen == V_OLD(g_tby_seen) && g_tby_val == V_OLD(g_tby_val))) /*@C18.sha512_final.nothing_else_handed_over*/
V_ENSURES(digest[g_k1 & 63] == (unsigned char)(ctx->h[(g_k1 & 63) >> 3] >> (8 * (7 - (g_k1 & 7))))) /*@C18.sha512_final.digest_is_big_endian_hash_value*/
;
#endif
/* ------------------------------------------------------------------------------------------------------------
 * SHA-1 (block 64, length field 8 bytes).  The context keeps the message length in BITS in count[1]:count[0];
 * the number of buffered bytes is (count[0] / 8) mod 64.
 * ---------------------------------------------------------------------------------------------------------- */
#define SHA1_CTX_WF(c) (__CPROVER_rw_ok((c), sizeof(SHA_CTX)) && ((c)->count[0] & 7) == 0)
#define SHA1_BITS(c)  ((((g_u64)(c)->count[1]) << 32) | (g_u64)(c)->count[0])
#define SHA1_BITS_OLD(c) ((((g_u64)V_OLD((c)->count[1])) << 32) | (g_u64)V_OLD((c)->count[0]))
#define U1_J          ((g_u64)((V_OLD(context->count[0]) >> 3) & 63))       /* buffered bytes before the call */
#define U1_SUM        (U1_J + (g_u64)len)
#define U1_N          (U1_SUM >> 6)
#define U1_REM        (U1_SUM & 63)
#define U1_OLDBUF     ((unsigned char)V_OLD(context->buffer[(g_tby_k - g_tb_total * 64) & 63]))

#ifndef VERIF_SHA_MACROS_ONLY
void SHA1_Init(SHA_CTX *context)
V_REQUIRES(__CPROVER_w_ok(context, sizeof(*context)))
V_ASSIGNS(__CPROVER_object_upto(context->state, sizeof(context->state)), __CPROVER_object_upto(context->count, sizeof(context->count)))
V_ENSURES(context->count[0] == 0 && context->count[1] == 0) /*@C18.SHA1_Init.empty_message*/
V_ENSURES(context->state[g_k1 % 5] == SPEC_SHA1_IV(g_k1 % 5)) /*@C18.SHA1_Init.fips_initial_hash_value*/
;
#endif

#ifndef VERIF_SHA_MACROS_ONLY
void SHA1_Update(SHA_CTX *context, const sha1_byte *data, unsigned int len)
V_REQUIRES(SHA1_CTX_WF(context))
V_REQUIRES(len <= SHA_MAX_SINGLE_UPDATE)
V_REQUIRES(len == 0 || __CPROVER_r_ok(data, len))
V_ASSIGNS(__CPROVER_object_upto(context->count, sizeof(context->count)), __CPROVER_object_upto(context->buffer, sizeof(context->buffer)), __CPROVER_object_upto(context->state, sizeof(context->state)), g_tb_total, g_tby_seen, g_tby_val, __CPROVER_object_upto(g_last_h, 5 * sizeof(g_u64)))
V_ENSURES(SHA1_BITS(context) == SHA1_BITS_OLD(context) + 8 * (g_u64)len) /*@C18.SHA1_Update.bit_count_exact*/
V_ENSURES(g_tb_total == V_OLD(g_tb_total) + U1_N) /*@C18.SHA1_Update.processes_exactly_the_complete_blocks*/
V_ENSURES(!TB_HIT(U1_N, 64) || g_tby_seen == V_OLD(g_tby_seen) + 1) /*@C18.SHA1_Update.every_byte_handed_over_once*/
V_ENSURES(!TB_HIT(U1_N, 64) || g_tby_val == (TB_REL(64) < U1_J ? U1_OLDBUF : (unsigned char)data[TB_REL(64) - U1_J])) /*@C18.SHA1_Update.bytes_handed_over_in_stream_order*/
V_ENSURES(TB_HIT(U1_N, 64) || (g_tby_seen == V_OLD(g_tby_seen) && g_tby_val == V_OLD(g_tby_val))) /*@C18.SHA1_Update.nothing_else_handed_over*/
V_ENSURES(!(U1_N == 0 && g_k1 < U1_J) || context->buffer[g_k1 & 63] == V_OLD(context->buffer[g_k1 & 63])) /*@C18.SHA1_Update.buffered_prefix_kept*/
V_ENSURES(!(g_k1 < U1_REM && (U1_N > 0 || g_k1 >= U1_J)) || context->buffer[g_k1 & 63] == data[U1_N * 64 + g_k1 - U1_J]) /*@C18.SHA1_Update.tail_is_buffered*/
V_ENSURES(U1_N > 0 || (g_last_h[0] == V_OLD(g_last_h[0]) && g_last_h[1] == V_OLD(g_last_h[1]) && g_last_h[2] == V_OLD(g_last_h[2]) && g_last_h[3] == V_OLD(g_last_h[3]) && g_last_h[4] == V_OLD(g_last_h[4]))) /*@C18.SHA1_Update.no_block_no_compression*/
V_ENSURES(U1_N == 0 || (g_last_h[0] == context->state[0] && g_last_h[1] == context->state[1] && g_last_h[2] == context->state[2] && g_last_h[3] == context->state[3] && g_last_h[4] == context->state[4])) /*@C18.SHA1_Update.state_is_last_chaining_value*/
;
#endif

#define F1_J          ((g_u64)((V_OLD(context->count[0]) >> 3) & 63))
#define F1_L          (SHA1_BITS_OLD(context) >> 3)                                   /* message length in bytes */
#define F1_N          ((g_u64)((SPEC_PAD_TOTAL(F1_L, 64, 8) - (F1_L - F1_J)) / 64))     /* blocks still to be processed: 1 or 2 */
#define F1_OLDBUF     ((unsigned char)V_OLD(context->buffer[(g_tby_k - g_tb_total * 64) & 63]))

#ifndef VERIF_SHA_MACROS_ONLY
void SHA1_Final(sha1_byte digest[SHA1_DIGEST_LENGTH], SHA_CTX *context)
V_REQUIRES(SHA1_CTX_WF(context))
V_REQUIRES(__CPROVER_w_ok(digest, SHA1_DIGEST_LENGTH))
V_ASSIGNS(__CPROVER_object_upto(context->count, sizeof(context->count)), __CPROVER_object_upto(context->buffer, sizeof(context->buffer)), __CPROVER_object_upto(context->state, sizeof(context->state)), __CPROVER_object_upto(digest, SHA1_DIGEST_LENGTH), g_tb_total, g_tby_seen, g_tby_val, __CPROVER_object_upto(g_last_h, 5 * sizeof(g_u64)))
V_ENSURES(g_tb_total == V_OLD(g_tb_total) + F1_N) /*@C18.SHA1_Final.padded_length_is_least_multiple*/
V_ENSURES(!TB_HIT(F1_N, 64) || g_tby_seen == V_OLD(g_tby_seen) + 1) /*@C18.SHA1_Final.every_padded_byte_handed_over_once*/
V_ENSURES(!(TB_HIT(F1_N, 64) && TB_REL(64) < F1_J) || g_tby_val == F1_OLDBUF) /*@C18.SHA1_Final.buffered_tail_first*/
V_ENSURES(!(TB_HIT(F1_N, 64) && TB_REL(64) >= F1_J && TB_REL(64) < F1_N * 64 - 8) || g_tby_val == (TB_REL(64) == F1_J ? 0x80 : 0)) /*@C18.SHA1_Final.pad_0x80_then_zeros*/
V_ENSURES(!(TB_HIT(F1_N, 64) && TB_REL(64) >= F1_N * 64 - 8) || g_tby_val == SPEC_PAD_TAIL_BYTE(F1_L, 64, 8, F1_L - F1_J + TB_REL(64))) /*@C18.SHA1_Final.length_field_is_64bit_big_endian_bit_length*/
V_ENSURES(TB_HIT(F1_N, 64) || (g_tby_seen == V_OLD(g_tby_seen) && g_tby_val == V_OLD(g_tby_val))) /*@C18.SHA1_Final.nothing_else_handed_over*/
V_ENSURES((unsigned char)digest[g_k1 % 20] == (unsigned char)(g_last_h[(g_k1 % 20) >> 2] >> (8 * (3 - (g_k1 & 3))))) /*@C18.SHA1_Final.digest_is_big_endian_hash_value*/
;
#endif
#endif
