/* C18: contracts of the three compression ("transform") functions of the bundled SHA code, as ENFORCED
 * against the real functions in units/shablk.c: for ONE block the new chaining value equals the FIPS 180-4
 * reference of spec/spec_sha.h, for every chaining value and every block; nothing but the chaining value is
 * written.  The view of the same functions that their callers (update/final) use is in contracts/sha.h
 * (same requires/assigns; the functional clause replaced by ghost records, the new chaining value
 * unconstrained = a sound weakening of what is proved here). */
#ifndef CONTRACTS_SHA_BLOCK_H
#define CONTRACTS_SHA_BLOCK_H
#include "spec/verif_prelude.h"
#include "spec/spec_sha.h"
#include "src/lib/hash/bundled/sha1/sha1.h"
#include "src/lib/hash/bundled/sha2/sha2.h"

/* "out is the FIPS compression of (h0.., m)" as a predicate over scalars (old values are passed word by word) */
static inline _Bool spec_sha1_is_compress(const uint32_t *out, uint32_t h0, uint32_t h1, uint32_t h2, uint32_t h3, uint32_t h4, const unsigned char *m) {
    uint32_t H[5] = { h0, h1, h2, h3, h4 };
    spec_sha1_compress(H, m);
    return out[0] == H[0] && out[1] == H[1] && out[2] == H[2] && out[3] == H[3] && out[4] == H[4];
}
static inline _Bool spec_sha1_is_compress_ord(const uint32_t *out, uint32_t h0, uint32_t h1, uint32_t h2, uint32_t h3, uint32_t h4, const unsigned char *m) {
    uint32_t H[5] = { h0, h1, h2, h3, h4 };
    spec_sha1_compress_ord(H, m);
    return out[0] == H[0] && out[1] == H[1] && out[2] == H[2] && out[3] == H[3] && out[4] == H[4];
}
static inline _Bool spec_sha256_is_compress(const uint32_t *out, uint32_t h0, uint32_t h1, uint32_t h2, uint32_t h3, uint32_t h4, uint32_t h5, uint32_t h6, uint32_t h7, const unsigned char *m) {
    uint32_t H[8] = { h0, h1, h2, h3, h4, h5, h6, h7 };
    spec_sha256_compress(H, m);
    return out[0] == H[0] && out[1] == H[1] && out[2] == H[2] && out[3] == H[3] && out[4] == H[4] && out[5] == H[5] && out[6] == H[6] && out[7] == H[7];
}
static inline _Bool spec_sha512_is_compress(const unsigned long long *out, uint64_t h0, uint64_t h1, uint64_t h2, uint64_t h3, uint64_t h4, uint64_t h5, uint64_t h6, uint64_t h7, const unsigned char *m) {
    uint64_t H[8] = { h0, h1, h2, h3, h4, h5, h6, h7 };
    spec_sha512_compress(H, m);
    return out[0] == H[0] && out[1] == H[1] && out[2] == H[2] && out[3] == H[3] && out[4] == H[4] && out[5] == H[5] && out[6] == H[6] && out[7] == H[7];
}

/* Two views, selected by the including unit:
 *  - default (units/shablk.c): the FUNCTIONAL clause is enforced against the real function.  It is left out of
 *    the vacuity (cover) build only: reachability of the cover goals does not depend on an enforced
 *    postcondition, and the cover run would otherwise repeat the hour-long SAT call.
 *  - VERIF_SHA_CALLER_VIEW (units of update/final): same requires and same frame on the SHA context; the new
 *    chaining value is unconstrained (weaker than what is proved) and ghost variables record WHAT was handed
 *    over: number of blocks and, for a solver-chosen offset of the transform stream, the byte handed over. */
#include "spec/ghost_sha.h"
#if defined(VERIF_COVER) || defined(VERIF_SHA_CALLER_VIEW)
#define V_ENSURES_FUNCTIONAL(x)
#else
#define V_ENSURES_FUNCTIONAL(x) V_ENSURES(x)
#endif
#ifdef VERIF_SHA_CALLER_VIEW
#define V_ASSIGNS_TB(...) V_ASSIGNS(__VA_ARGS__, g_tb_total, g_tby_seen, g_tby_val)
#define V_ENSURES_GHOST(x) V_ENSURES(x)
#else
#define V_ASSIGNS_TB(...) V_ASSIGNS(__VA_ARGS__)
#define V_ENSURES_GHOST(x)
#endif
/* the watched stream offset lies in the nb blocks of bs bytes handed over by this call */
#define TB_HIT(nb, bs) (g_tby_k >= V_OLD(g_tb_total) * (bs) && g_tby_k - V_OLD(g_tb_total) * (bs) < (g_u64)(nb) * (bs))
#define TB_REL(bs) (g_tby_k - V_OLD(g_tb_total) * (bs))
/* requires + frame, shared textually by both views */
#ifdef VERIF_SHA_CALLER_VIEW
#define V_ASSIGNS_TB1(...) V_ASSIGNS(__VA_ARGS__, g_tb_total, g_tby_seen, g_tby_val, __CPROVER_object_upto(g_last_h, 5 * sizeof(g_u64)))
#else
#define V_ASSIGNS_TB1(...) V_ASSIGNS(__VA_ARGS__)
#endif
#define V_SHA1_TRANSFORM_FRAME() V_REQUIRES(__CPROVER_rw_ok(state, 5 * sizeof(sha1_quadbyte))) V_REQUIRES(__CPROVER_r_ok(buffer, 64)) V_ASSIGNS_TB1(__CPROVER_object_upto(state, 5 * sizeof(sha1_quadbyte)))
#define V_SHA256_TRANSF_FRAME_REQ() V_REQUIRES(__CPROVER_rw_ok(ctx, sizeof(*ctx))) V_REQUIRES(block_nb == 0 || __CPROVER_r_ok(message, (size_t)block_nb * SHA256_BLOCK_SIZE))
#define V_SHA512_TRANSF_FRAME_REQ() V_REQUIRES(__CPROVER_rw_ok(ctx, sizeof(*ctx))) V_REQUIRES(block_nb == 0 || __CPROVER_r_ok(message, (size_t)block_nb * SHA512_BLOCK_SIZE))
#define V_SHA256_TRANSF_FRAME() V_REQUIRES(__CPROVER_rw_ok(ctx, sizeof(*ctx))) V_REQUIRES(block_nb == 0 || __CPROVER_r_ok(message, (size_t)block_nb * SHA256_BLOCK_SIZE)) V_ASSIGNS_TB(__CPROVER_object_upto(ctx->h, sizeof(ctx->h)))
#define V_SHA512_TRANSF_FRAME() V_REQUIRES(__CPROVER_rw_ok(ctx, sizeof(*ctx))) V_REQUIRES(block_nb == 0 || __CPROVER_r_ok(message, (size_t)block_nb * SHA512_BLOCK_SIZE)) V_ASSIGNS_TB(__CPROVER_object_upto(ctx->h, sizeof(ctx->h)))

#if defined(VERIF_SHA_LOG_VIEW)
#include "contracts/sha_block_log.h"
#elif defined(VERIF_SHA_CALLER_VIEW)
#include "contracts/sha_block_cv.h"
#else
void SHA1_Transform(sha1_quadbyte state[5], const sha1_byte buffer[64])
V_SHA1_TRANSFORM_FRAME()
#ifdef VERIF_SHA1_MONOLITHIC
V_ENSURES_FUNCTIONAL(spec_sha1_is_compress(state, V_OLD(state[0]), V_OLD(state[1]), V_OLD(state[2]), V_OLD(state[3]), V_OLD(state[4]), (const unsigned char *)buffer)) /*@C18.SHA1_Transform.equals_fips180_4_compression*/
#else
V_ENSURES_FUNCTIONAL(spec_sha1_is_compress_ord(state, V_OLD(state[0]), V_OLD(state[1]), V_OLD(state[2]), V_OLD(state[3]), V_OLD(state[4]), (const unsigned char *)buffer)) /*@C18.SHA1_Transform.equals_fips180_4_compression_in_the_summation_order_of_the_round_lemma*/
#endif
;

void sha256_transf(sha256_ctx *ctx, const unsigned char *message, unsigned int block_nb)
V_SHA256_TRANSF_FRAME()
V_ENSURES_FUNCTIONAL(block_nb != 1 || spec_sha256_is_compress(ctx->h, V_OLD(ctx->h[0]), V_OLD(ctx->h[1]), V_OLD(ctx->h[2]), V_OLD(ctx->h[3]), V_OLD(ctx->h[4]), V_OLD(ctx->h[5]), V_OLD(ctx->h[6]), V_OLD(ctx->h[7]), message)) /*@C18.sha256_transf.one_block_equals_fips180_4_compression*/
;

void sha512_transf(sha512_ctx *ctx, const unsigned char *message, unsigned int block_nb)
V_SHA512_TRANSF_FRAME()
V_ENSURES_FUNCTIONAL(block_nb != 1 || spec_sha512_is_compress(ctx->h, V_OLD(ctx->h[0]), V_OLD(ctx->h[1]), V_OLD(ctx->h[2]), V_OLD(ctx->h[3]), V_OLD(ctx->h[4]), V_OLD(ctx->h[5]), V_OLD(ctx->h[6]), V_OLD(ctx->h[7]), message)) /*@C18.sha512_transf.one_block_equals_fips180_4_compression*/
;
#endif
#endif
