/* Caller view of the compression functions (included through contracts/sha_block.h with VERIF_SHA_CALLER_VIEW):
 * same requires and frame as the enforced contracts; the new chaining value is left unconstrained; ghost
 * variables record how many blocks were handed over and the byte at a solver-chosen transform-stream offset. */
#ifndef CONTRACTS_SHA_BLOCK_CV_H
#define CONTRACTS_SHA_BLOCK_CV_H
void SHA1_Transform(sha1_quadbyte state[5], const sha1_byte buffer[64])
V_SHA1_TRANSFORM_FRAME()
V_ENSURES(g_tb_total == V_OLD(g_tb_total) + 1) /*@C18.SHA1_Transform.ghost_counts_blocks*/
V_ENSURES(!TB_HIT(1, 64) || (g_tby_seen == V_OLD(g_tby_seen) + 1 && g_tby_val == (unsigned char)buffer[TB_REL(64)])) /*@C18.SHA1_Transform.ghost_records_byte*/
V_ENSURES(TB_HIT(1, 64) || (g_tby_seen == V_OLD(g_tby_seen) && g_tby_val == V_OLD(g_tby_val))) /*@C18.SHA1_Transform.ghost_unchanged_elsewhere*/
V_ENSURES(g_last_h[0] == state[0] && g_last_h[1] == state[1] && g_last_h[2] == state[2] && g_last_h[3] == state[3] && g_last_h[4] == state[4]) /*@C18.SHA1_Transform.ghost_records_new_chaining_value*/
;

void sha256_transf(sha256_ctx *ctx, const unsigned char *message, unsigned int block_nb)
V_SHA256_TRANSF_FRAME()
V_ENSURES(g_tb_total == V_OLD(g_tb_total) + block_nb) /*@C18.sha256_transf.ghost_counts_blocks*/
V_ENSURES(!TB_HIT(block_nb, 64) || (g_tby_seen == V_OLD(g_tby_seen) + 1 && g_tby_val == (unsigned char)message[TB_REL(64)])) /*@C18.sha256_transf.ghost_records_byte*/
V_ENSURES(TB_HIT(block_nb, 64) || (g_tby_seen == V_OLD(g_tby_seen) && g_tby_val == V_OLD(g_tby_val))) /*@C18.sha256_transf.ghost_unchanged_elsewhere*/
;

void sha512_transf(sha512_ctx *ctx, const unsigned char *message, unsigned int block_nb)
V_SHA512_TRANSF_FRAME()
V_ENSURES(g_tb_total == V_OLD(g_tb_total) + block_nb) /*@C18.sha512_transf.ghost_counts_blocks*/
V_ENSURES(!TB_HIT(block_nb, 128) || (g_tby_seen == V_OLD(g_tby_seen) + 1 && g_tby_val == (unsigned char)message[TB_REL(128)])) /*@C18.sha512_transf.ghost_records_byte*/
V_ENSURES(TB_HIT(block_nb, 128) || (g_tby_seen == V_OLD(g_tby_seen) && g_tby_val == V_OLD(g_tby_val))) /*@C18.sha512_transf.ghost_unchanged_elsewhere*/
;

#endif
