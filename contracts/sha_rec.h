/* The SHA init/update/final entry points of the bundled code AS SEEN BY libsha.c (lib_hash_init/update/final):
 * same requires as the contracts that the functions' own units enforce (contracts/sha.h: context invariant,
 * readable message, writable digest), the context stays well-formed, and ghost variables record WHICH function
 * was called with WHICH arguments (call record), so that the dispatch per checksum type and the unchanged
 * hand-over of (ctx, message, length, digest buffer) become postconditions of lib_hash_*.  The digest VALUE is
 * covered by contracts/sha.h + the block equivalences, not here: final's output is an arbitrary byte string of
 * which the byte at a solver-chosen index is recorded (g_fin_byte). */
#ifndef CONTRACTS_SHA_REC_H
#define CONTRACTS_SHA_REC_H
#define VERIF_SHA_MACROS_ONLY
#include "contracts/sha.h"
extern unsigned char g_fin_byte; extern unsigned g_init_calls; extern const char *g_up_end; extern int g_up_inorder;
#define REC_FN_SHA1 1
#define REC_FN_SHA256 256
#define REC_FN_SHA512 512
#define V_REC_INIT(fn, c) V_ENSURES(g_init_calls == V_OLD(g_init_calls) + 1 && g_init_fn == (fn) && g_init_ctx == (const void *)(c))
/* update: which algorithm / context, and byte conservation in the style of C01: g_up_end is the address one past
 * the last byte fed so far (the harness starts it at the message); g_up_inorder stays 1 only while every call
 * starts exactly there; g_up_len is the total number of bytes fed */
#define V_REC_UPDATE(fn, c, m, n) V_ENSURES(g_up_calls == V_OLD(g_up_calls) + 1 && g_up_fn == (fn) && g_up_ctx == (const void *)(c) && g_up_inorder == (V_OLD(g_up_inorder) && (const char *)(m) == V_OLD(g_up_end)) && g_up_end == (const char *)(m) + (n) && g_up_len == V_OLD(g_up_len) + (size_t)(n))
#define V_REC_FINAL(fn, c, d) V_ENSURES(g_fin_calls == V_OLD(g_fin_calls) + 1 && g_fin_fn == (fn) && g_fin_ctx == (const void *)(c) && g_fin_md == (const void *)(d))

void SHA1_Init(SHA_CTX *context)
V_REQUIRES(__CPROVER_w_ok(context, sizeof(*context)))
V_ASSIGNS(__CPROVER_object_upto(context, sizeof(*context)), g_init_calls, g_init_fn, g_init_ctx)
V_REC_INIT(REC_FN_SHA1, context)
V_ENSURES((context->count[0] & 7) == 0)
;
void SHA1_Update(SHA_CTX *context, const sha1_byte *data, unsigned int len)
V_REQUIRES(SHA1_CTX_WF(context))
V_REQUIRES(len <= SHA_MAX_SINGLE_UPDATE)
V_REQUIRES(len == 0 || __CPROVER_r_ok(data, len))
V_ASSIGNS(__CPROVER_object_upto(context, sizeof(*context)), g_up_calls, g_up_fn, g_up_ctx, g_up_end, g_up_inorder, g_up_len)
V_REC_UPDATE(REC_FN_SHA1, context, data, len)
V_ENSURES((context->count[0] & 7) == 0)
;
void SHA1_Final(sha1_byte digest[SHA1_DIGEST_LENGTH], SHA_CTX *context)
V_REQUIRES(SHA1_CTX_WF(context))
V_REQUIRES(__CPROVER_w_ok(digest, SHA1_DIGEST_LENGTH))
V_ASSIGNS(__CPROVER_object_upto(context, sizeof(*context)), __CPROVER_object_upto(digest, SHA1_DIGEST_LENGTH), g_fin_calls, g_fin_fn, g_fin_ctx, g_fin_md, g_fin_byte)
V_REC_FINAL(REC_FN_SHA1, context, digest)
V_ENSURES(g_fin_byte == (unsigned char)digest[g_k1 % SHA1_DIGEST_LENGTH])
;

void sha256_init(sha256_ctx *ctx)
V_REQUIRES(__CPROVER_w_ok(ctx, sizeof(*ctx)))
V_ASSIGNS(__CPROVER_object_upto(ctx, sizeof(*ctx)), g_init_calls, g_init_fn, g_init_ctx)
V_REC_INIT(REC_FN_SHA256, ctx)
V_ENSURES(ctx->len == 0 && ctx->tot_len == 0)
;
void sha256_update(sha256_ctx *ctx, const unsigned char *message, unsigned int len)
V_REQUIRES(SHA256_CTX_WF(ctx))
V_REQUIRES(len <= SHA_MAX_SINGLE_UPDATE)
V_REQUIRES(len == 0 || __CPROVER_r_ok(message, len))
V_ASSIGNS(__CPROVER_object_upto(ctx, sizeof(*ctx)), g_up_calls, g_up_fn, g_up_ctx, g_up_end, g_up_inorder, g_up_len)
V_REC_UPDATE(REC_FN_SHA256, ctx, message, len)
V_ENSURES(ctx->len < SHA256_BLOCK_SIZE && ctx->tot_len % SHA256_BLOCK_SIZE == 0)
;
void sha256_final(sha256_ctx *ctx, unsigned char *digest)
V_REQUIRES(SHA256_CTX_WF(ctx))
V_REQUIRES(__CPROVER_w_ok(digest, SHA256_DIGEST_SIZE))   /* + message below 2^61 bytes (FIPS limit), not tracked at this level */
V_ASSIGNS(__CPROVER_object_upto(ctx, sizeof(*ctx)), __CPROVER_object_upto(digest, SHA256_DIGEST_SIZE), g_fin_calls, g_fin_fn, g_fin_ctx, g_fin_md, g_fin_byte)
V_REC_FINAL(REC_FN_SHA256, ctx, digest)
V_ENSURES(g_fin_byte == digest[g_k1 % SHA256_DIGEST_SIZE])
;

void sha512_init(sha512_ctx *ctx)
V_REQUIRES(__CPROVER_w_ok(ctx, sizeof(*ctx)))
V_ASSIGNS(__CPROVER_object_upto(ctx, sizeof(*ctx)), g_init_calls, g_init_fn, g_init_ctx)
V_REC_INIT(REC_FN_SHA512, ctx)
V_ENSURES(ctx->len == 0 && ctx->tot_len == 0)
;
void sha512_update(sha512_ctx *ctx, const unsigned char *message, unsigned int len)
V_REQUIRES(SHA512_CTX_WF(ctx))
V_REQUIRES(len <= SHA_MAX_SINGLE_UPDATE)
V_REQUIRES(len == 0 || __CPROVER_r_ok(message, len))
V_ASSIGNS(__CPROVER_object_upto(ctx, sizeof(*ctx)), g_up_calls, g_up_fn, g_up_ctx, g_up_end, g_up_inorder, g_up_len)
V_REC_UPDATE(REC_FN_SHA512, ctx, message, len)
V_ENSURES(ctx->len < SHA512_BLOCK_SIZE && ctx->tot_len % SHA512_BLOCK_SIZE == 0)
;
void sha512_final(sha512_ctx *ctx, unsigned char *digest)
V_REQUIRES(SHA512_CTX_WF(ctx))
V_REQUIRES(__CPROVER_w_ok(digest, SHA512_DIGEST_SIZE))   /* + message below 2^61 bytes (FIPS limit), not tracked at this level */
V_ASSIGNS(__CPROVER_object_upto(ctx, sizeof(*ctx)), __CPROVER_object_upto(digest, SHA512_DIGEST_SIZE), g_fin_calls, g_fin_fn, g_fin_ctx, g_fin_md, g_fin_byte)
V_REC_FINAL(REC_FN_SHA512, ctx, digest)
V_ENSURES(g_fin_byte == digest[g_k1 % SHA512_DIGEST_SIZE])
;
#endif
