/* Contracts for the writer side of src/lib/comp/comp.c, src/lib/buzhash/buzhash.c and the codec
 * compress hooks (C01 conservation/termination lemmas, C16 chunking lemmas, C12 failure reporting).
 * Top-level postconditions (zck_write, zck_end_chunk, comp_init) are written from the property
 * texts of C01/C16; helper preconditions and frames from the code and its call sites. */
#ifndef CONTRACTS_WRITER_H
#define CONTRACTS_WRITER_H
#include "spec/ghost.h"
#include "spec/ghost_writer.h"
#include "spec/ghost_close.h"
#include "spec/spec_hash.h"

/* ---- effective chunking parameters (C16: "average/4 and average*4 clamped by configured min/max";
 * the library pins a 48-byte window and 15 match bits, so the average is 32 KiB) -------------------- */
#define SPEC_BZ_WIDTH 48
#define SPEC_BZ_BITS  15
#define SPEC_BZ_MASK  32767
#define SPEC_AVG      32768
/* clamp(v, mn, mx) for mn <= mx */
#define SPEC_CLAMP(v, mn, mx) ((v) < (mn) ? (mn) : (v) > (mx) ? (mx) : (v))
#define SPEC_AUTO_MIN(mn, mx) SPEC_CLAMP(SPEC_AVG / 4, mn, mx)
#define SPEC_AUTO_MAX(mn, mx) SPEC_CLAMP(SPEC_AVG * 4, mn, mx)

/* Writes INTO index nodes (the work item, the previous last node's next link) by callees.  Units whose
 * function under contract never touches an index node (zck_write: it only passes the context on) use
 * the callee contracts without these targets (-DVERIF_OPAQUE_CALLEE_HEAP; also the content of the rolling-hash window, listed as an assumption of
 * that unit): CBMC's loop contracts cannot name "the node allocated two iterations ago".  The
 * callees' own units enforce the full frame. */
#ifdef VERIF_OPAQUE_CALLEE_HEAP
#define V_ASSIGNS_NODES(...)
/* ghost models of the kernel file state and of the hash coverage: in the caller view the callees'
 * updates of these GHOST variables are not modelled either — sound for a unit in whose function,
 * contract and loop invariants those variables do not occur (zck_write: checked by the driver-side
 * grep recorded in the unit's assumptions) */
#define V_ASSIGNS_MODEL(...)
/* assumed postconditions about node contents are not needed by (and therefore not given to) such a caller */
#define V_ENSURES_NODES(x)
/* memory validity of pointers that only the callees assign (chunk buffer, entry under construction, last
 * index entry, rolling-hash window): CBMC cannot carry r_ok facts about a pointer through a loop havoc
 * (an assumed __CPROVER_rw_ok on a havocked pointer does not make a later asserted one true), so in the
 * caller view only the NULL-ness/size structure of these predicates is checked at the call sites.  The
 * validity part holds by the frame argument: zck_write never assigns these fields, every callee
 * re-establishes them on success (its own unit, full view) and every callee failure ends the function. */
#define OWNED_RW_OK(p, n) 1
#else
#define OWNED_RW_OK(p, n) __CPROVER_rw_ok(p, n)
#define V_ASSIGNS_NODES(...) V_ASSIGNS(__VA_ARGS__)
#define V_ASSIGNS_MODEL(...) V_ASSIGNS(__VA_ARGS__)
#define V_ENSURES_NODES(x) V_ENSURES(x)
#endif

/* ---- writer state predicates ---------------------------------------------------------------- */
/* buffer of the chunk under construction: the buffering codec (zstd) keeps dc_data_size bytes in
 * dc_data; the pass-through codec keeps no buffer and only counts */
#define WBUF_WF(c) ((c)->type != ZCK_COMP_ZSTD ? (c)->dc_data == NULL : ((c)->dc_data == NULL ? (c)->dc_data_size == 0 : OWNED_RW_OK((c)->dc_data, (c)->dc_data_size)))
#define WI_WF(z) ((z)->work_index_item == NULL || OWNED_RW_OK((z)->work_index_item, sizeof(zckChunk)))
#define WH1_WF(z, h) (((h)->type == NULL || (h)->type == &(z)->chunk_hash_type))
#define WHASH_WF(z) (WH1_WF(z, &(z)->work_index_hash) && WH1_WF(z, &(z)->work_index_hash_uncomp) && ((z)->full_hash.type == NULL || (z)->full_hash.type == &(z)->hash_type) && \
    SPEC_HASH_VALID((z)->chunk_hash_type.type) && (z)->chunk_hash_type.digest_size == SPEC_DIGEST_SIZE((z)->chunk_hash_type.type) && \
    (z)->index.digest_size == (size_t)(z)->chunk_hash_type.digest_size)
/* the list of finished entries can be appended to */
#define IDXW_WF(z) ((z)->index.first == NULL ? (z)->index.last == NULL : ((z)->index.last != NULL && OWNED_RW_OK((z)->index.last, sizeof(zckChunk))))
/* option setters (comp_ioption) keep: a minimum can only be set below an already set maximum */
#ifndef OPT_WF
#define OPT_WF(z) ((z)->chunk_max_size >= 0 && (z)->chunk_min_size >= 0 && ((z)->chunk_max_size == 0 ? (z)->chunk_min_size == 0 : (z)->chunk_min_size <= (z)->chunk_max_size))
#endif

ssize_t verif_compress(zckCtx *zck, zckComp *comp, const char *src, const size_t src_size, char **dst, size_t *dst_size, bool use_dict);
bool verif_end_cchunk(zckCtx *zck, zckComp *comp, char **dst, size_t *dst_size, bool use_dict);
bool verif_winit(zckCtx *zck, zckComp *comp);
#define WR_HOOKS(z) ((z)->comp.compress == verif_compress && (z)->comp.end_cchunk == verif_end_cchunk && (z)->comp.init == verif_winit && \
    ((z)->comp.type == ZCK_COMP_NONE || (z)->comp.type == ZCK_COMP_ZSTD))
/* what comp_init (write mode) establishes and every later write call keeps.
 * C16: the chunk under construction never exceeds the effective maximum;
 * C01: chunk_auto_min <= chunk_auto_max is what makes the automatic loop terminate. */
#define WR_BOUNDS(z) ((z)->chunk_min_size >= 1 && (z)->chunk_min_size <= (z)->chunk_max_size && \
    ((z)->manual_chunk != 0 ? (z)->comp.dc_data_size <= (size_t)(z)->chunk_max_size : \
     ((z)->buzhash_width == SPEC_BZ_WIDTH && (z)->buzhash_bitmask == SPEC_BZ_MASK && \
      (z)->chunk_auto_min == SPEC_AUTO_MIN((z)->chunk_min_size, (z)->chunk_max_size) && (z)->chunk_auto_max == SPEC_AUTO_MAX((z)->chunk_min_size, (z)->chunk_max_size) && \
      (z)->chunk_auto_min <= (z)->chunk_auto_max && (z)->comp.dc_data_size <= (size_t)(z)->chunk_auto_max)))
#define BZ_WF(b) ((b)->window == NULL || ((b)->window_size >= 1 && OWNED_RW_OK((b)->window, (b)->window_size) && \
    (b)->window_fill >= 0 && (b)->window_fill <= (b)->window_size && (b)->window_loc >= 0 && (b)->window_loc < (b)->window_size))
#define WR_COMMON(z) (WR_HOOKS(z) && WBUF_WF(&(z)->comp) && WI_WF(z) && WHASH_WF(z) && IDXW_WF(z) && BZ_WF(&(z)->buzhash) && \
    ((z)->comp.dict == NULL ? (z)->comp.dict_size == 0 : ((z)->comp.dict_size > 0 && __CPROVER_r_ok((z)->comp.dict, (z)->comp.dict_size))))
/* the same, clause by clause (a failing call-site obligation then names the violated part) */
#define V_REQ_WR_COMMON(z) V_REQUIRES(WR_HOOKS(z)) V_REQUIRES(WBUF_WF(&(z)->comp)) V_REQUIRES(WI_WF(z)) V_REQUIRES(WHASH_WF(z)) V_REQUIRES(IDXW_WF(z)) V_REQUIRES(BZ_WF(&(z)->buzhash)) \
    V_REQUIRES((z)->comp.dict == NULL ? (z)->comp.dict_size == 0 : ((z)->comp.dict_size > 0 && __CPROVER_r_ok((z)->comp.dict, (z)->comp.dict_size)))
#define WR_STARTED_WF(z) (WR_COMMON(z) && (z)->comp.started != 0 && WR_BOUNDS(z))
#define WR_WF(z) (WR_COMMON(z) && ((z)->comp.started != 0 ? WR_BOUNDS(z) : (OPT_WF(z) && (z)->comp.dc_data_size == 0 && (z)->comp.dc_data == NULL && (z)->work_index_item == NULL)))

/* nothing is pending exactly when there is no entry under construction (zck_close relies on it: a context
 * with dc_data_size == 0 has no half-built index entry) */
#define PENDING_WF(z) (((z)->comp.dc_data_size == 0) == ((z)->work_index_item == NULL))

/* frames */
#define WR_GHOST_IO g_fpos, g_wr_bytes, g_io_failed, g_win_bad
#define WR_GHOST_HU g_hu_total, g_hu_seen, g_hu_ptr, g_hu_final, g_hu_inits, g_fin_val, g_fin_total, g_fin_seen, g_fin_ptr
#define WR_WORKHASHES zck->work_index_hash, zck->work_index_hash_uncomp
#define WI_OLD_LEN(z)  (V_OLD((z)->work_index_item) == NULL ? (size_t)0 : V_OLD((z)->work_index_item->length))
/* Dereferences in POSTconditions go through the pre-state snapshot of the pointer whenever the entry existed
 * before the call: CBMC resolves `p->f` by p's value set, and the value set of a pointer FIELD that a replaced
 * callee (or a loop) havocked is not restored by an assumed `p == old(p)` -- `zck->work_index_item->length`
 * would then read a phantom object (found with unit comp_write: clauses about node contents failed although
 * the callee contract implied them).  A pointer assigned by __CPROVER_is_fresh has a precise value set. */
#define WI_NOW(z)   (V_OLD((z)->work_index_item) != NULL ? V_OLD((z)->work_index_item) : (z)->work_index_item)
#define LAST_NOW(z) (V_OLD((z)->work_index_item) != NULL ? V_OLD((z)->work_index_item) : (z)->index.last)
#define WI_OLD_CLEN(z) (V_OLD((z)->work_index_item) == NULL ? (size_t)0 : V_OLD((z)->work_index_item->comp_length))

/* frame of zck_write's loops = union of the caller-view frames of comp_write and zck_end_chunk (started context) */
#define WR_LOOP_FRAME zck->comp.dc_data, zck->comp.dc_data_size, zck->comp.dc_data_loc, zck->work_index_item, WR_WORKHASHES, \
    zck->index.first, zck->index.last, zck->index.count, zck->index.length, zck->error_state, zck->buzhash.window, g_same, g_bz_have, g_bz_last_obj, g_bz_last_off, g_next_off
/* facts about the locations in that frame which the callees need again (their preconditions) */
#define WR_LOOP_INV(z) (WBUF_WF(&(z)->comp) && WI_WF(z) && WH1_WF(z, &(z)->work_index_hash) && WH1_WF(z, &(z)->work_index_hash_uncomp) && IDXW_WF(z) && BZ_WF(&(z)->buzhash))

/* ---- codec hooks, writer side (stand-ins called through the function pointers; the REAL nocomp and
 * zstd hooks are enforced against CONTRACT_COMPRESS / CONTRACT_END_CCHUNK in units/codec_w.c) -------
 * compress: the pass-through codec returns a copy of exactly the bytes it was given; the buffering
 * codec appends exactly those bytes to the chunk buffer and returns nothing.  g_k1: solver-chosen
 * byte index ("for every k"); g_k2/g_old_byte: a watched byte of the old buffer. */
#define CONTRACT_COMPRESS \
V_REQUIRES(__CPROVER_rw_ok(zck, sizeof(*zck)) && comp == &zck->comp) \
V_REQUIRES(src != NULL && src_size > 0 && __CPROVER_r_ok(src, src_size)) \
V_REQUIRES(__CPROVER_w_ok(dst, sizeof(*dst)) && __CPROVER_w_ok(dst_size, sizeof(*dst_size))) \
V_REQUIRES(WBUF_WF(comp) && (zck->comp.type == ZCK_COMP_NONE || zck->comp.type == ZCK_COMP_ZSTD)) \
V_ASSIGNS(*dst, *dst_size, zck->comp.dc_data, zck->error_state) \
V_FREES_HOOK(zck->comp.dc_data) \
V_ENSURES(__CPROVER_return_value >= -1) \
V_ENSURES(__CPROVER_return_value < 0 || (V_OLD(zck->error_state) == 0 && zck->error_state == 0)) /*@C12.compress.no_success_on_a_context_in_error*/ \
V_ENSURES(__CPROVER_return_value < 0 || zck->comp.type != ZCK_COMP_NONE || (*dst_size == src_size && zck->comp.dc_data == V_OLD(zck->comp.dc_data))) /*@C01.compress.pass_through_returns_as_many_bytes_as_given*/ \
V_ENSURES(__CPROVER_return_value < 0 || zck->comp.type != ZCK_COMP_NONE || (*dst != NULL && __CPROVER_is_fresh(*dst, src_size))) /*@C01,C03.compress.pass_through_result_is_a_fresh_buffer*/ \
V_ENSURES(__CPROVER_return_value < 0 || zck->comp.type != ZCK_COMP_NONE || !(g_k1 < src_size) || (*dst)[g_k1] == src[g_k1]) /*@C01.compress.pass_through_output_equals_input*/ \
V_ENSURES(__CPROVER_return_value < 0 || zck->comp.type != ZCK_COMP_ZSTD || (*dst == NULL && *dst_size == 0)) /*@C01.compress.buffering_codec_emits_nothing_before_chunk_end*/ \
V_ENSURES(__CPROVER_return_value < 0 || zck->comp.type != ZCK_COMP_ZSTD || (zck->comp.dc_data != NULL && __CPROVER_is_fresh(zck->comp.dc_data, zck->comp.dc_data_size + src_size))) /*@C01,C03.compress.buffer_grows_by_exactly_the_bytes_given*/ \
V_ENSURES(__CPROVER_return_value < 0 || zck->comp.type != ZCK_COMP_ZSTD || !(g_k1 < src_size) || zck->comp.dc_data[zck->comp.dc_data_size + g_k1] == src[g_k1]) /*@C01.compress.buffer_tail_equals_input*/ \
V_ENSURES(__CPROVER_return_value < 0 || zck->comp.type != ZCK_COMP_ZSTD || !(g_k2 < zck->comp.dc_data_size) || zck->comp.dc_data[g_k2] == g_old_byte) /*@C01.compress.bytes_buffered_earlier_are_kept*/
ssize_t verif_compress(zckCtx *zck, zckComp *comp, const char *src, const size_t src_size, char **dst, size_t *dst_size, bool use_dict)
CONTRACT_COMPRESS
/* ghost bookkeeping of the stand-in only: it records what it was handed */
V_REQUIRES(!g_track || G_NEXT_IS(src)) /*@C01.compress.source_bytes_arrive_in_order_without_gap_or_repeat*/
V_ASSIGNS(g_next_off)
V_ENSURES(g_next_off == V_OLD(g_next_off) + (g_track ? src_size : (size_t)0))
;

/* end_cchunk: emits the stored form of the chunk under construction and empties the chunk buffer */
#define CONTRACT_END_CCHUNK \
V_REQUIRES(__CPROVER_rw_ok(zck, sizeof(*zck)) && comp == &zck->comp) \
V_REQUIRES(__CPROVER_w_ok(dst, sizeof(*dst)) && __CPROVER_w_ok(dst_size, sizeof(*dst_size))) \
V_REQUIRES(WBUF_WF(comp) && (zck->comp.type == ZCK_COMP_NONE || zck->comp.type == ZCK_COMP_ZSTD)) \
V_ASSIGNS(*dst, *dst_size, zck->comp.dc_data, zck->comp.dc_data_loc, zck->error_state) \
V_FREES_HOOK(zck->comp.dc_data) \
V_ENSURES(!__CPROVER_return_value || (V_OLD(zck->error_state) == 0 && zck->error_state == 0)) /*@C12.end_cchunk.no_success_on_a_context_in_error*/ \
V_ENSURES(!__CPROVER_return_value || zck->comp.type != ZCK_COMP_NONE || (*dst == NULL && *dst_size == 0 && zck->comp.dc_data == NULL)) /*@C01.end_cchunk.pass_through_has_nothing_left_to_emit*/ \
V_ENSURES(!__CPROVER_return_value || zck->comp.type != ZCK_COMP_ZSTD || (*dst != NULL && __CPROVER_is_fresh(*dst, *dst_size))) /*@C03.end_cchunk.result_buffer_holds_dst_size_bytes*/ \
V_ENSURES(!__CPROVER_return_value || zck->comp.type != ZCK_COMP_ZSTD || zck->comp.dc_data == NULL) /*@C01.end_cchunk.chunk_buffer_emptied*/
bool verif_end_cchunk(zckCtx *zck, zckComp *comp, char **dst, size_t *dst_size, bool use_dict)
CONTRACT_END_CCHUNK
;

/* init hook: touches only the opaque codec contexts and the error state */
#define CONTRACT_WINIT \
V_REQUIRES(__CPROVER_rw_ok(zck, sizeof(*zck)) && comp == &zck->comp) \
V_REQUIRES(zck->comp.dict == NULL ? zck->comp.dict_size == 0 : (zck->comp.dict_size > 0 && __CPROVER_r_ok(zck->comp.dict, zck->comp.dict_size))) \
V_ASSIGNS(zck->comp.cctx, zck->comp.dctx, zck->comp.cdict_ctx, zck->comp.ddict_ctx, zck->error_state) \
V_ENSURES(!__CPROVER_return_value || (V_OLD(zck->error_state) == 0 && zck->error_state == 0)) /*@C12.codec_init.no_success_on_a_context_in_error*/
bool verif_winit(zckCtx *zck, zckComp *comp)
CONTRACT_WINIT
;

/* ghost bookkeeping clauses: part of the contract only where the function is REPLACED (the real function
 * cannot write ghost variables); units that ENFORCE the function define VERIF_ENFORCE_BUZHASH */
#ifdef VERIF_ENFORCE_BUZHASH
#define V_GHOST_ENSURES(x)
#define V_GHOST_ASSIGNS(...)
#else
#define V_GHOST_ENSURES(x) V_ENSURES(x)
#define V_GHOST_ASSIGNS(...) V_ASSIGNS(__VA_ARGS__)
#endif
/* ---- rolling hash (src/lib/buzhash/buzhash.c) ------------------------------------------------- */
/* C16: every window access stays inside window[0 .. window_size) (generated checks in the function's
 * own unit); a state without a window is rebuilt from the new byte alone (asserted relationally in
 * units/buzhash.c).  Ghost clauses (C01 termination): g_same counts consecutive updates fed from one
 * address since the window was last (re)allocated; once the 48-byte window has been fed the same byte
 * 48 times it holds 48 copies of it and the hash is H48(b), for which the full-domain lemma unit
 * buzhash_same_byte_lemma shows (H48(b) & 0x7fff) != 0 for all 256 byte values (units/buzhash.c). */
bool buzhash_update(buzHash *b, const char *s, size_t window, uint32_t *output)
V_REQUIRES(__CPROVER_rw_ok(b, sizeof(*b)) && BZ_WF(b))
V_REQUIRES(__CPROVER_r_ok(s, 1) && __CPROVER_w_ok(output, sizeof(*output)))
V_REQUIRES(window >= 1 && window <= 4096)
V_ASSIGNS(b->h, b->window, b->window_size, b->window_loc, b->window_fill, *output)
V_GHOST_ASSIGNS(g_same, g_bz_have, g_bz_last_obj, g_bz_last_off)
V_ASSIGNS_NODES(b->window != NULL: __CPROVER_object_whole(b->window))
V_FREES_CALLEE(b->window)
V_ENSURES(!__CPROVER_return_value || (b->window != NULL && b->window_size == (int)window && b->window_fill >= 1 && b->window_fill <= b->window_size && b->window_loc >= 0 && b->window_loc < b->window_size)) /*@C16,C03.buzhash_update.window_state_well_formed*/
V_ENSURES(!__CPROVER_return_value || !(V_OLD(b->window) != NULL && V_OLD(b->window_size) == (int)window) || b->window == V_OLD(b->window)) /*@C16.buzhash_update.window_kept_between_resets*/
V_ENSURES(__CPROVER_return_value || b->window == NULL) /*@C03.buzhash_update.failure_leaves_no_window*/
V_ENSURES(!__CPROVER_return_value || (V_OLD(b->window) != NULL && V_OLD(b->window_size) == (int)window) || (b->window_fill == 1 && b->window_loc == 0 && __CPROVER_is_fresh(b->window, window) && b->window[0] == *s)) /*@C16.buzhash_update.restart_after_reset_forgets_old_window_position*/
V_ENSURES(!__CPROVER_return_value || b->window_fill == b->window_size || *output == 1) /*@C16.buzhash_update.no_boundary_before_window_is_full*/
V_GHOST_ENSURES(!__CPROVER_return_value || (G_BZ_LAST_IS(s) && g_same == ((G_BZ_LAST_WAS(s) && V_OLD(b->window) != NULL && V_OLD(b->window_size) == (int)window) ? V_OLD(g_same) + 1 : 1u)))
V_GHOST_ENSURES(!__CPROVER_return_value || window != SPEC_BZ_WIDTH || g_same < SPEC_BZ_WIDTH || (*output & SPEC_BZ_MASK) != 0) /*@C01.buzhash_update.window_full_of_one_byte_never_matches*/
;

void buzhash_reset(buzHash *b)
V_REQUIRES(__CPROVER_rw_ok(b, sizeof(*b)) && BZ_WF(b))
V_ASSIGNS(b->window)
V_GHOST_ASSIGNS(g_same, g_bz_have)
V_FREES_CALLEE(b->window)
V_ENSURES(b->window == NULL) /*@C16.buzhash_reset.state_discarded_at_chunk_end*/
V_GHOST_ENSURES(g_same == 0 && g_bz_have == 0)
;

/* ---- index under construction (src/lib/index/index_create.c) ------------------------------------ */
/* adds comp_size stored bytes / orig_size source bytes to the entry under construction (created on
 * demand) and feeds exactly the stored bytes to the chunk hash and (unless the file carries the
 * uncompressed-source flag) to the whole-data hash */
bool index_add_to_chunk(zckCtx *zck, char *data, size_t comp_size, size_t orig_size)
V_REQUIRES(__CPROVER_rw_ok(zck, sizeof(*zck)) && WI_WF(zck) && WHASH_WF(zck))
V_REQUIRES(comp_size == 0 || (data != NULL && __CPROVER_r_ok(data, comp_size)))
V_ASSIGNS(zck->work_index_item, WR_WORKHASHES, zck->error_state)
V_ASSIGNS_MODEL(WR_GHOST_HU)
V_ASSIGNS_NODES(zck->work_index_item != NULL: __CPROVER_object_whole(zck->work_index_item))
V_FREES_CALLEE(zck->work_index_hash.ctx, zck->work_index_hash_uncomp.ctx)
V_ENSURES(!__CPROVER_return_value || V_OLD(zck->error_state) <= 0) /*@C12.index_add_to_chunk.no_success_on_a_context_in_error*/
V_ENSURES(!__CPROVER_return_value || zck->work_index_item != NULL) /*@C01.index_add_to_chunk.entry_under_construction_exists*/
V_ENSURES(V_OLD(zck->work_index_item) == NULL || zck->work_index_item == V_OLD(zck->work_index_item)) /*@C01.index_add_to_chunk.keeps_the_entry_under_construction*/
V_ENSURES(V_OLD(zck->work_index_item) != NULL || zck->work_index_item == NULL || __CPROVER_is_fresh(zck->work_index_item, sizeof(zckChunk)))
V_ENSURES(!__CPROVER_return_value || (WI_NOW(zck)->length == WI_OLD_LEN(zck) + orig_size && WI_NOW(zck)->comp_length == WI_OLD_CLEN(zck) + comp_size)) /*@C01.index_add_to_chunk.lengths_accumulate_exactly*/
V_ENSURES(!__CPROVER_return_value || comp_size == 0 || g_hu_hash != &zck->work_index_hash || g_hu_total == (V_OLD(zck->work_index_item) == NULL ? 0 : V_OLD(g_hu_total)) + comp_size) /*@C01,C06.index_add_to_chunk.chunk_hash_fed_exactly_the_stored_bytes*/
V_ENSURES(!__CPROVER_return_value || comp_size == 0 || g_hu_hash != &zck->full_hash || zck->has_uncompressed_source != 0 || g_hu_total == V_OLD(g_hu_total) + comp_size) /*@C01,C06.index_add_to_chunk.data_hash_fed_exactly_the_stored_bytes*/
V_ENSURES(!__CPROVER_return_value || WHASH_WF(zck))
V_ENSURES(!__CPROVER_return_value || comp_size != 0 || g_hu_hash != &zck->full_hash || g_hu_total == V_OLD(g_hu_total)) /*@C01,C06.index_add_to_chunk.data_hash_untouched_when_nothing_is_stored*/
V_ENSURES(!__CPROVER_return_value || V_OLD(zck->work_index_item) == NULL || g_hu_hash != &zck->work_index_hash_uncomp || g_hu_total == V_OLD(g_hu_total)) /*@C01.index_add_to_chunk.uncompressed_chunk_hash_not_fed_here*/
V_ENSURES(!__CPROVER_return_value || zck->error_state == V_OLD(zck->error_state)) /*@C12.index_add_to_chunk.success_keeps_error_state*/
;

/* finishes the entry under construction: it becomes the last entry of the index with the
 * accumulated lengths, start = sum of the stored sizes before it */
bool index_finish_chunk(zckCtx *zck)
V_REQUIRES(__CPROVER_rw_ok(zck, sizeof(*zck)) && WI_WF(zck) && WHASH_WF(zck) && IDXW_WF(zck))
V_ASSIGNS(zck->work_index_item, WR_WORKHASHES, zck->index.first, zck->index.last, zck->index.count, zck->index.length, zck->error_state)
V_ASSIGNS_MODEL(WR_GHOST_HU)
V_ASSIGNS_NODES(zck->work_index_item != NULL: __CPROVER_object_whole(zck->work_index_item); zck->index.last != NULL: zck->index.last->next)
V_FREES_CALLEE(zck->work_index_hash.ctx, zck->work_index_hash_uncomp.ctx)
V_ENSURES(!__CPROVER_return_value || V_OLD(zck->error_state) <= 0) /*@C12.index_finish_chunk.no_success_on_a_context_in_error*/
V_ENSURES(!__CPROVER_return_value || (zck->work_index_item == NULL && zck->index.count == V_OLD(zck->index.count) + 1)) /*@C01.index_finish_chunk.entry_moves_to_the_index*/
V_ENSURES(!__CPROVER_return_value || (zck->index.last != NULL && zck->index.first != NULL && (V_OLD(zck->work_index_item) != NULL ? zck->index.last == V_OLD(zck->work_index_item) : __CPROVER_is_fresh(zck->index.last, sizeof(zckChunk))))) /*@C01.index_finish_chunk.appended_as_last*/
V_ENSURES(!__CPROVER_return_value || (LAST_NOW(zck)->length == WI_OLD_LEN(zck) && LAST_NOW(zck)->comp_length == WI_OLD_CLEN(zck) && LAST_NOW(zck)->start == V_OLD(zck->index.length) && zck->index.length == V_OLD(zck->index.length) + WI_OLD_CLEN(zck) && LAST_NOW(zck)->next == NULL)) /*@C01,C13.index_finish_chunk.entry_carries_the_accumulated_lengths*/
V_ENSURES(!__CPROVER_return_value || (zck->work_index_hash.ctx == NULL && zck->work_index_hash.type == NULL && zck->work_index_hash_uncomp.ctx == NULL && zck->work_index_hash_uncomp.type == NULL))
V_ENSURES(__CPROVER_return_value || zck->index.count == V_OLD(zck->index.count)) /*@C01.index_finish_chunk.no_entry_on_failure*/
V_ENSURES(!__CPROVER_return_value || zck->error_state == V_OLD(zck->error_state)) /*@C12.index_finish_chunk.success_keeps_error_state*/
;

/* ---- comp.c, writer side -------------------------------------------------------------------------- */
/* comp_write: hands exactly (src, src_size) to the codec, writes to the temp file exactly the bytes it
 * indexes, and reports src_size only if every step succeeded. */
static ssize_t comp_write(zckCtx *zck, const char *src, const size_t src_size)
V_REQUIRES(__CPROVER_rw_ok(zck, sizeof(*zck)))
V_REQ_WR_COMMON(zck)
V_REQUIRES(src_size == 0 || (src != NULL && __CPROVER_r_ok(src, src_size)))
V_REQUIRES(g_track == 1 && G_NEXT_IS(src)) /*@C01.comp_write.source_bytes_arrive_in_order_without_gap_or_repeat*/
V_ASSIGNS(zck->comp.dc_data, zck->comp.dc_data_size, zck->work_index_item, WR_WORKHASHES, zck->error_state, g_next_off)
V_ASSIGNS_MODEL(WR_GHOST_IO, WR_GHOST_HU)
V_ASSIGNS_NODES(zck->work_index_item != NULL: __CPROVER_object_whole(zck->work_index_item))
V_FREES_CALLEE(zck->comp.dc_data, zck->work_index_hash.ctx, zck->work_index_hash_uncomp.ctx)
V_ENSURES(__CPROVER_return_value == -1 || (__CPROVER_return_value >= 0 && (size_t)__CPROVER_return_value == src_size)) /*@C01,C12.comp_write.all_or_error*/
V_ENSURES(__CPROVER_return_value < 0 || (V_OLD(zck->error_state) <= 0 && zck->mode == ZCK_MODE_WRITE)) /*@C12.comp_write.no_success_on_a_context_in_error*/
V_ENSURES(__CPROVER_return_value < 0 || g_next_off == V_OLD(g_next_off) + src_size) /*@C01.comp_write.hands_exactly_its_bytes_to_the_codec*/
V_ENSURES(__CPROVER_return_value < 0 || zck->comp.dc_data_size == V_OLD(zck->comp.dc_data_size) + src_size) /*@C01,C16.comp_write.chunk_length_grows_by_exactly_src_size*/
V_ENSURES(__CPROVER_return_value < 0 || (WH1_WF(zck, &zck->work_index_hash) && WH1_WF(zck, &zck->work_index_hash_uncomp))) /*@C03.comp_write.keeps_work_hashes_typed*/
V_ENSURES(__CPROVER_return_value < 0 || (zck->comp.type == ZCK_COMP_ZSTD && src_size != 0) || zck->comp.dc_data == V_OLD(zck->comp.dc_data)) /*@C03.comp_write.pass_through_keeps_no_buffer*/
V_ENSURES(__CPROVER_return_value < 0 || zck->comp.type != ZCK_COMP_ZSTD || src_size == 0 || (zck->comp.dc_data != NULL && __CPROVER_is_fresh(zck->comp.dc_data, zck->comp.dc_data_size))) /*@C01,C03.comp_write.chunk_buffer_holds_dc_data_size_bytes*/
V_ENSURES(__CPROVER_return_value < 0 || zck->work_index_item == V_OLD(zck->work_index_item) || (V_OLD(zck->work_index_item) == NULL && zck->work_index_item != NULL && __CPROVER_is_fresh(zck->work_index_item, sizeof(zckChunk)))) /*@C01,C03.comp_write.entry_under_construction_kept_or_created*/
V_ENSURES(__CPROVER_return_value <= 0 || zck->work_index_item != NULL) /*@C01.comp_write.bytes_taken_have_an_entry_under_construction*/
V_ENSURES(__CPROVER_return_value < 0 || src_size != 0 || zck->work_index_item == V_OLD(zck->work_index_item)) /*@C01.comp_write.empty_write_creates_no_entry*/
V_ENSURES_NODES(__CPROVER_return_value <= 0 || (zck->work_index_item != NULL && WI_NOW(zck)->length == WI_OLD_LEN(zck) + src_size)) /*@C01.comp_write.indexes_exactly_src_size_source_bytes*/
V_ENSURES_NODES(__CPROVER_return_value <= 0 || zck->no_write != 0 || g_wr_bytes[G_IX(zck->temp_fd)] - V_OLD(g_wr_bytes[G_IX(zck->temp_fd)]) == WI_NOW(zck)->comp_length - WI_OLD_CLEN(zck)) /*@C01,C12.comp_write.writes_exactly_the_bytes_it_indexes*/
V_ENSURES_NODES(__CPROVER_return_value < 0 || zck->no_write == 0 || g_wr_bytes[G_IX(zck->temp_fd)] == V_OLD(g_wr_bytes[G_IX(zck->temp_fd)])) /*@C01.comp_write.no_write_writes_nothing*/
V_ENSURES_NODES(__CPROVER_return_value <= 0 || g_hu_hash != &zck->full_hash || zck->has_uncompressed_source != 0 || g_hu_total - V_OLD(g_hu_total) == WI_NOW(zck)->comp_length - WI_OLD_CLEN(zck)) /*@C01,C06.comp_write.data_hash_covers_exactly_the_bytes_indexed*/
V_ENSURES_NODES(__CPROVER_return_value <= 0 || g_hu_hash != &zck->work_index_hash_uncomp || zck->has_uncompressed_source == 0 || V_OLD(zck->work_index_item) == NULL || g_hu_total == V_OLD(g_hu_total) + src_size) /*@C01.comp_write.uncompressed_chunk_hash_fed_the_source_bytes*/
;

/* comp_init in WRITE mode (C16: effective bounds; C01: termination precondition of the automatic
 * loop, dictionary entry) */
#define COMP_INIT_FRAME zck->comp.started, zck->comp.cctx, zck->comp.dctx, zck->comp.cdict_ctx, zck->comp.ddict_ctx, zck->comp.dc_data, zck->comp.dc_data_size, zck->comp.dc_data_loc, \
    zck->chunk_min_size, zck->chunk_max_size, zck->buzhash_width, zck->buzhash_match_bits, zck->buzhash_bitmask, zck->chunk_auto_min, zck->chunk_auto_max, \
    zck->work_index_item, WR_WORKHASHES, zck->index.first, zck->index.last, zck->index.count, zck->index.length, zck->error_state
bool comp_init(zckCtx *zck)
V_REQUIRES(__CPROVER_rw_ok(zck, sizeof(*zck)) && zck->mode == ZCK_MODE_WRITE)
V_REQ_WR_COMMON(zck)
V_REQUIRES(OPT_WF(zck))
V_REQUIRES(zck->comp.dc_data_size == 0 && zck->comp.dc_data == NULL && zck->work_index_item == NULL)
V_ASSIGNS(COMP_INIT_FRAME)
V_ASSIGNS_MODEL(WR_GHOST_IO, WR_GHOST_HU)
V_ASSIGNS_NODES(zck->index.last != NULL: zck->index.last->next)
V_FREES_CALLEE(zck->work_index_hash.ctx, zck->work_index_hash_uncomp.ctx)
V_ENSURES(!__CPROVER_return_value || (V_OLD(zck->error_state) <= 0 && V_OLD(zck->comp.started) == 0 && zck->comp.started != 0)) /*@C12.comp_init.no_success_on_a_context_in_error*/
V_ENSURES(!__CPROVER_return_value || (zck->chunk_min_size >= 1 && zck->chunk_min_size <= zck->chunk_max_size)) /*@C01,C16.comp_init.min_le_max*/
V_ENSURES(!__CPROVER_return_value || ((V_OLD(zck->chunk_min_size) == 0 || zck->chunk_min_size == V_OLD(zck->chunk_min_size)) && (V_OLD(zck->chunk_max_size) == 0 || zck->chunk_max_size == V_OLD(zck->chunk_max_size)))) /*@C16.comp_init.configured_sizes_kept*/
V_ENSURES(!__CPROVER_return_value || zck->manual_chunk != 0 || (zck->buzhash_width == SPEC_BZ_WIDTH && zck->buzhash_bitmask == SPEC_BZ_MASK)) /*@C16.comp_init.window_and_mask_pinned*/
V_ENSURES(!__CPROVER_return_value || zck->manual_chunk != 0 || (zck->chunk_auto_min == SPEC_AUTO_MIN(zck->chunk_min_size, zck->chunk_max_size) && zck->chunk_auto_max == SPEC_AUTO_MAX(zck->chunk_min_size, zck->chunk_max_size))) /*@C16.comp_init.effective_bounds_are_quarter_and_fourfold_average_clamped*/
V_ENSURES(!__CPROVER_return_value || zck->manual_chunk != 0 || zck->chunk_auto_min <= zck->chunk_auto_max) /*@C01,C16.comp_init.effective_min_not_above_effective_max*/
V_ENSURES(!__CPROVER_return_value || (zck->comp.dc_data_size == 0 && zck->work_index_item == NULL)) /*@C01.comp_init.nothing_pending_after_the_dictionary_chunk*/
V_ENSURES(!__CPROVER_return_value || zck->index.count == V_OLD(zck->index.count) + 1) /*@C01.comp_init.dictionary_entry_exists_whatever_the_descriptor_numbers*/
V_ENSURES(!__CPROVER_return_value || (zck->comp.dc_data == NULL && WH1_WF(zck, &zck->work_index_hash) && WH1_WF(zck, &zck->work_index_hash_uncomp))) /*@C03.comp_init.keeps_writer_state_well_formed*/
V_ENSURES(!__CPROVER_return_value || zck->index.count != V_OLD(zck->index.count) || (zck->index.first == V_OLD(zck->index.first) && zck->index.last == V_OLD(zck->index.last)))
V_ENSURES(!__CPROVER_return_value || zck->index.count == V_OLD(zck->index.count) || (zck->index.first != NULL && zck->index.last != NULL && __CPROVER_is_fresh(zck->index.last, sizeof(zckChunk)))) /*@C01,C03.comp_init.dictionary_entry_is_the_new_last_entry*/
V_ENSURES(!__CPROVER_return_value || zck->error_state == V_OLD(zck->error_state)) /*@C12.comp_init.success_keeps_error_state*/
;

/* zck_end_chunk (API).  C01: on a non-negative result either the chunk was finished (nothing pending,
 * one more index entry carrying the accumulated sizes) or it was refused with nothing changed.
 * C16: a finished chunk discards the rolling-hash state; chunks ended by zck_write's loops have a legal
 * size (call-site obligation, switched on by g_from_write).
 * Two texts, both enforced for the real function (units zck_end_chunk / zck_end_chunk.started): callers
 * that have already started the writer (zck_write's loops) use the one that requires it and therefore
 * does not carry comp_init's frame. */
#define EC_FINISHES(z) (V_OLD((z)->comp.started) != 0 && V_OLD((z)->comp.dc_data_size) >= (size_t)V_OLD((z)->chunk_min_size))
#define EC_FRAME zck->comp.dc_data, zck->comp.dc_data_size, zck->comp.dc_data_loc, zck->work_index_item, WR_WORKHASHES, \
    zck->index.first, zck->index.last, zck->index.count, zck->index.length, zck->error_state, zck->buzhash.window, g_same, g_bz_have
#ifdef VERIF_EC_STARTED
#define V_EC_VARIANT() V_REQUIRES(zck->comp.started != 0) V_ASSIGNS(EC_FRAME)
#else
#define V_EC_VARIANT() V_ASSIGNS(EC_FRAME, zck->comp.started, zck->comp.cctx, zck->comp.dctx, zck->comp.cdict_ctx, zck->comp.ddict_ctx, zck->chunk_min_size, zck->chunk_max_size, zck->buzhash_width, zck->buzhash_match_bits, zck->buzhash_bitmask, zck->chunk_auto_min, zck->chunk_auto_max)
#endif
ssize_t zck_end_chunk(zckCtx *zck)
V_REQUIRES(__CPROVER_rw_ok(zck, sizeof(*zck)))
V_REQ_WR_COMMON(zck)
V_REQUIRES(zck->comp.started != 0 ? WR_BOUNDS(zck) : (OPT_WF(zck) && zck->comp.dc_data_size == 0 && zck->comp.dc_data == NULL && zck->work_index_item == NULL))
V_REQUIRES(PENDING_WF(zck))
V_REQUIRES(!g_from_write || (zck->comp.started != 0 && (zck->manual_chunk != 0 ? zck->comp.dc_data_size == (size_t)zck->chunk_max_size : ((size_t)zck->chunk_auto_min <= zck->comp.dc_data_size && zck->comp.dc_data_size <= (size_t)zck->chunk_auto_max)))) /*@C16.zck_end_chunk.chunks_ended_by_the_write_loops_respect_the_effective_bounds*/
V_EC_VARIANT()
V_ASSIGNS_MODEL(WR_GHOST_IO, WR_GHOST_HU)
V_ASSIGNS_NODES(zck->index.last != NULL: zck->index.last->next; zck->work_index_item != NULL: __CPROVER_object_whole(zck->work_index_item))
V_FREES_CALLEE(zck->buzhash.window, zck->comp.dc_data, zck->work_index_hash.ctx, zck->work_index_hash_uncomp.ctx)
V_ENSURES(__CPROVER_return_value >= -1)
V_ENSURES(__CPROVER_return_value < 0 || (V_OLD(zck->error_state) <= 0 && zck->mode == ZCK_MODE_WRITE)) /*@C12.zck_end_chunk.no_success_on_a_context_in_error*/
V_ENSURES(__CPROVER_return_value < 0 || (zck->comp.started != 0 && WR_BOUNDS(zck))) /*@C16.zck_end_chunk.effective_bounds_in_force*/
V_ENSURES(__CPROVER_return_value < 0 || (WH1_WF(zck, &zck->work_index_hash) && WH1_WF(zck, &zck->work_index_hash_uncomp) && (zck->comp.dc_data == NULL || zck->comp.dc_data == V_OLD(zck->comp.dc_data)) && (zck->work_index_item == NULL || zck->work_index_item == V_OLD(zck->work_index_item)) && (zck->buzhash.window == NULL || zck->buzhash.window == V_OLD(zck->buzhash.window)))) /*@C03.zck_end_chunk.keeps_writer_state_well_formed*/
V_ENSURES(__CPROVER_return_value < 0 || (zck->index.first == NULL ? zck->index.last == NULL : zck->index.last != NULL)) /*@C03.zck_end_chunk.index_list_ends_consistent*/
V_ENSURES(__CPROVER_return_value < 0 || zck->index.last == V_OLD(zck->index.last) || (V_OLD(zck->work_index_item) != NULL && zck->index.last == V_OLD(zck->work_index_item)) || (zck->index.last != NULL && __CPROVER_is_fresh(zck->index.last, sizeof(zckChunk)))) /*@C01,C03.zck_end_chunk.last_entry_is_the_old_one_the_finished_one_or_new*/
V_ENSURES(__CPROVER_return_value < 0 || !EC_FINISHES(zck) || (zck->comp.dc_data_size == 0 && zck->work_index_item == NULL && (size_t)__CPROVER_return_value == V_OLD(zck->comp.dc_data_size))) /*@C01.zck_end_chunk.finished_chunk_leaves_nothing_pending*/
V_ENSURES(__CPROVER_return_value < 0 || !EC_FINISHES(zck) || zck->index.count == V_OLD(zck->index.count) + 1) /*@C01.zck_end_chunk.finished_chunk_is_indexed*/
V_ENSURES_NODES(__CPROVER_return_value < 0 || !EC_FINISHES(zck) || (zck->index.last != NULL && LAST_NOW(zck)->length == WI_OLD_LEN(zck))) /*@C01.zck_end_chunk.finished_chunk_is_indexed_with_its_accumulated_size*/
V_ENSURES_NODES(__CPROVER_return_value < 0 || !EC_FINISHES(zck) || zck->no_write != 0 || g_wr_bytes[G_IX(zck->temp_fd)] - V_OLD(g_wr_bytes[G_IX(zck->temp_fd)]) == LAST_NOW(zck)->comp_length - WI_OLD_CLEN(zck)) /*@C01,C12.zck_end_chunk.writes_exactly_the_bytes_it_indexes*/
V_ENSURES(__CPROVER_return_value < 0 || !EC_FINISHES(zck) || (zck->buzhash.window == NULL && g_bz_have == 0 && g_same == 0)) /*@C16.zck_end_chunk.rolling_hash_state_discarded_at_chunk_end*/
V_ENSURES(__CPROVER_return_value < 0 || V_OLD(zck->comp.started) == 0 || EC_FINISHES(zck) || (zck->comp.dc_data_size == V_OLD(zck->comp.dc_data_size) && zck->work_index_item == V_OLD(zck->work_index_item) && zck->index.count == V_OLD(zck->index.count) && (size_t)__CPROVER_return_value == zck->comp.dc_data_size && zck->buzhash.window == V_OLD(zck->buzhash.window) && g_bz_have == V_OLD(g_bz_have) && g_same == V_OLD(g_same))) /*@C01.zck_end_chunk.refusal_changes_nothing*/
V_ENSURES_NODES(__CPROVER_return_value < 0 || V_OLD(zck->comp.started) == 0 || EC_FINISHES(zck) || g_wr_bytes[G_IX(zck->temp_fd)] == V_OLD(g_wr_bytes[G_IX(zck->temp_fd)])) /*@C01.zck_end_chunk.refusal_writes_nothing*/
V_ENSURES(__CPROVER_return_value < 0 || PENDING_WF(zck)) /*@C01.zck_end_chunk.no_half_built_entry_without_pending_bytes*/
;

/* comp_end_chunk(zck, force): the worker behind zck_end_chunk (force == false) and zck_close (force == true:
 * the last chunk of a file is ended even when it is shorter than the minimum chunk size -- C01: "a successful
 * close never loses bytes").  Same text as zck_end_chunk with the refusal made conditional on !force; with
 * force nothing is ever refused: a non-negative result means nothing is pending any more. */
#define ECF_FINISHES(z) (V_OLD((z)->comp.started) != 0 && V_OLD((z)->comp.dc_data_size) > 0 && (force || V_OLD((z)->comp.dc_data_size) >= (size_t)V_OLD((z)->chunk_min_size)))
#define ECF_REFUSES(z) (V_OLD((z)->comp.started) != 0 && !force && V_OLD((z)->comp.dc_data_size) < (size_t)V_OLD((z)->chunk_min_size))
ssize_t comp_end_chunk(zckCtx *zck, bool force)
V_REQUIRES(__CPROVER_rw_ok(zck, sizeof(*zck)))
V_REQ_WR_COMMON(zck)
V_REQUIRES(zck->comp.started != 0 ? WR_BOUNDS(zck) : (OPT_WF(zck) && zck->comp.dc_data_size == 0 && zck->comp.dc_data == NULL && zck->work_index_item == NULL))
V_REQUIRES(PENDING_WF(zck))
V_REQUIRES(!g_from_write || (!force && zck->comp.started != 0 && (zck->manual_chunk != 0 ? zck->comp.dc_data_size == (size_t)zck->chunk_max_size : ((size_t)zck->chunk_auto_min <= zck->comp.dc_data_size && zck->comp.dc_data_size <= (size_t)zck->chunk_auto_max)))) /*@C16.comp_end_chunk.chunks_ended_by_the_write_loops_respect_the_effective_bounds*/
V_EC_VARIANT()
V_ASSIGNS_MODEL(WR_GHOST_IO, WR_GHOST_HU)
V_ASSIGNS_NODES(zck->index.last != NULL: zck->index.last->next; zck->work_index_item != NULL: __CPROVER_object_whole(zck->work_index_item))
V_FREES_CALLEE(zck->buzhash.window, zck->comp.dc_data, zck->work_index_hash.ctx, zck->work_index_hash_uncomp.ctx)
V_ENSURES(__CPROVER_return_value >= -1)
V_ENSURES(__CPROVER_return_value < 0 || (V_OLD(zck->error_state) <= 0 && zck->mode == ZCK_MODE_WRITE)) /*@C12.comp_end_chunk.no_success_on_a_context_in_error*/
V_ENSURES(__CPROVER_return_value < 0 || (zck->comp.started != 0 && WR_BOUNDS(zck))) /*@C16.comp_end_chunk.effective_bounds_in_force*/
V_ENSURES(__CPROVER_return_value < 0 || (WH1_WF(zck, &zck->work_index_hash) && WH1_WF(zck, &zck->work_index_hash_uncomp) && (zck->comp.dc_data == NULL || zck->comp.dc_data == V_OLD(zck->comp.dc_data)) && (zck->work_index_item == NULL || zck->work_index_item == V_OLD(zck->work_index_item)) && (zck->buzhash.window == NULL || zck->buzhash.window == V_OLD(zck->buzhash.window)))) /*@C03.comp_end_chunk.keeps_writer_state_well_formed*/
V_ENSURES(__CPROVER_return_value < 0 || (zck->index.first == NULL ? zck->index.last == NULL : zck->index.last != NULL)) /*@C03.comp_end_chunk.index_list_ends_consistent*/
V_ENSURES(__CPROVER_return_value < 0 || zck->index.last == V_OLD(zck->index.last) || (V_OLD(zck->work_index_item) != NULL && zck->index.last == V_OLD(zck->work_index_item)) || (zck->index.last != NULL && __CPROVER_is_fresh(zck->index.last, sizeof(zckChunk)))) /*@C01,C03.comp_end_chunk.last_entry_is_the_old_one_the_finished_one_or_new*/
V_ENSURES(__CPROVER_return_value < 0 || !ECF_FINISHES(zck) || (zck->comp.dc_data_size == 0 && zck->work_index_item == NULL && (size_t)__CPROVER_return_value == V_OLD(zck->comp.dc_data_size))) /*@C01.comp_end_chunk.finished_chunk_leaves_nothing_pending*/
V_ENSURES(__CPROVER_return_value < 0 || !ECF_FINISHES(zck) || zck->index.count == V_OLD(zck->index.count) + 1) /*@C01.comp_end_chunk.finished_chunk_is_indexed*/
V_ENSURES_NODES(__CPROVER_return_value < 0 || !ECF_FINISHES(zck) || (zck->index.last != NULL && LAST_NOW(zck)->length == WI_OLD_LEN(zck))) /*@C01.comp_end_chunk.finished_chunk_is_indexed_with_its_accumulated_size*/
V_ENSURES_NODES(__CPROVER_return_value < 0 || !ECF_FINISHES(zck) || zck->no_write != 0 || g_wr_bytes[G_IX(zck->temp_fd)] - V_OLD(g_wr_bytes[G_IX(zck->temp_fd)]) == LAST_NOW(zck)->comp_length - WI_OLD_CLEN(zck)) /*@C01,C12.comp_end_chunk.writes_exactly_the_bytes_it_indexes*/
V_ENSURES(__CPROVER_return_value < 0 || V_OLD(zck->comp.started) == 0 || ECF_REFUSES(zck) || (zck->buzhash.window == NULL && g_bz_have == 0 && g_same == 0)) /*@C16.comp_end_chunk.rolling_hash_state_discarded_at_chunk_end*/
V_ENSURES(__CPROVER_return_value < 0 || !ECF_REFUSES(zck) || (zck->comp.dc_data_size == V_OLD(zck->comp.dc_data_size) && zck->work_index_item == V_OLD(zck->work_index_item) && zck->index.count == V_OLD(zck->index.count) && (size_t)__CPROVER_return_value == zck->comp.dc_data_size && zck->buzhash.window == V_OLD(zck->buzhash.window) && g_bz_have == V_OLD(g_bz_have) && g_same == V_OLD(g_same))) /*@C01.comp_end_chunk.refusal_changes_nothing*/
V_ENSURES_NODES(__CPROVER_return_value < 0 || !ECF_REFUSES(zck) || g_wr_bytes[G_IX(zck->temp_fd)] == V_OLD(g_wr_bytes[G_IX(zck->temp_fd)])) /*@C01.comp_end_chunk.refusal_writes_nothing*/
V_ENSURES(__CPROVER_return_value < 0 || !force || (zck->comp.dc_data_size == 0 && zck->work_index_item == NULL)) /*@C01.comp_end_chunk.forced_end_is_never_refused_nothing_stays_pending*/
V_ENSURES(__CPROVER_return_value < 0 || V_OLD(zck->comp.started) == 0 || V_OLD(zck->comp.dc_data_size) != 0 || zck->index.count == V_OLD(zck->index.count)) /*@C01.comp_end_chunk.no_entry_for_an_empty_chunk*/
V_ENSURES(__CPROVER_return_value < 0 || PENDING_WF(zck)) /*@C01.comp_end_chunk.no_half_built_entry_without_pending_bytes*/
V_ENSURES(__CPROVER_return_value < 0 || zck->error_state == V_OLD(zck->error_state)) /*@C12.comp_end_chunk.success_keeps_error_state*/
V_ZC_ASSIGNS(g_res_ec)
V_ZC_ENSURES(g_res_ec == (__CPROVER_return_value >= 0))
;


/* zck_write (API).  C01: a non-negative result is src_size and means every source byte was handed to
 * the codec exactly once, in order (ghost offset g_next_off); termination is the decreases clauses of both loops.
 * C16: the chunk under construction stays within the effective maximum (WR_BOUNDS). */
ssize_t zck_write(zckCtx *zck, const char *src, const size_t src_size)
V_REQUIRES(__CPROVER_rw_ok(zck, sizeof(*zck)) && zck->error_state >= 0)
V_REQ_WR_COMMON(zck)
V_REQUIRES(zck->comp.started != 0 ? WR_BOUNDS(zck) : (OPT_WF(zck) && zck->comp.dc_data_size == 0 && zck->comp.dc_data == NULL && zck->work_index_item == NULL))
V_REQUIRES(src_size == 0 || (src != NULL && __CPROVER_r_ok(src, src_size)))
V_REQUIRES(PENDING_WF(zck))
V_REQUIRES(g_src_base == src && g_next_off == G_OFF(src) && g_track == 1 && g_from_write == 1 && g_bz_have == 0 && g_same == 0)
V_ASSIGNS(COMP_INIT_FRAME, zck->buzhash, g_same, g_bz_have, g_bz_last_obj, g_bz_last_off, g_next_off)
V_ASSIGNS_MODEL(WR_GHOST_IO, WR_GHOST_HU)
V_ASSIGNS_NODES(zck->buzhash.window != NULL: __CPROVER_object_whole(zck->buzhash.window))
V_ENSURES(__CPROVER_return_value == -1 || (__CPROVER_return_value >= 0 && (size_t)__CPROVER_return_value == src_size)) /*@C01,C12.zck_write.all_or_error*/
V_ENSURES(__CPROVER_return_value < 0 || (V_OLD(zck->error_state) == 0 && zck->mode == ZCK_MODE_WRITE)) /*@C12.zck_write.no_success_on_a_context_in_error*/
V_ENSURES(__CPROVER_return_value < 0 || g_next_off == G_OFF(src) + src_size) /*@C01.zck_write.every_source_byte_handed_on_exactly_once_in_order*/
V_ENSURES(__CPROVER_return_value <= 0 || (zck->comp.started != 0 && WR_BOUNDS(zck))) /*@C16.zck_write.chunk_under_construction_within_effective_maximum*/
V_ENSURES(__CPROVER_return_value < 0 || PENDING_WF(zck)) /*@C01.zck_write.no_half_built_entry_without_pending_bytes*/
;
#endif
