/* Contracts for src/lib/zck.c (option setters, hex decoding) */
#ifndef CONTRACTS_ZCK_H
#define CONTRACTS_ZCK_H
#include "spec/spec_hash.h"
#include "spec/ghost.h"

static int hex_to_int(char c)
V_ASSIGNS()
V_ENSURES(__CPROVER_return_value == SPEC_HEX(c)) /*@C07.hex_to_int.equals_spec*/
;

/* g_k1: solver-chosen character index, g_k2: solver-chosen byte index ("for every k").
 * checksum_length <= 2*SPEC_MAX_DIGEST is what the only call site guarantees. */
static char *ascii_checksum_to_bin(zckCtx *zck, char *checksum, int checksum_length)
V_REQUIRES(checksum_length >= 0 && checksum_length <= 2 * SPEC_MAX_DIGEST)
V_REQUIRES(__CPROVER_r_ok(checksum, checksum_length))
V_ASSIGNS()
V_ENSURES(__CPROVER_return_value == NULL || __CPROVER_is_fresh(__CPROVER_return_value, checksum_length / 2)) /*@C07,C03.ascii_checksum.result_fresh*/
V_ENSURES(__CPROVER_return_value == NULL || !(g_k1 < (size_t)checksum_length) || SPEC_HEX(checksum[g_k1]) >= 0) /*@C07.ascii_checksum.accepted_only_if_all_hex*/
V_ENSURES(__CPROVER_return_value == NULL || !(g_k2 < (size_t)(checksum_length / 2)) || (unsigned char)__CPROVER_return_value[g_k2] == 16 * SPEC_HEX(checksum[2 * g_k2]) + SPEC_HEX(checksum[2 * g_k2 + 1])) /*@C07.ascii_checksum.byte_value*/
;

/* C07: pinning the expected header digest.  This contract covers option ==
 * ZCK_VAL_HEADER_DIGEST (the compression-dictionary branch belongs to the writer units). */
bool zck_set_soption(zckCtx *zck, zck_soption option, const char *value, size_t length)
V_REQUIRES(__CPROVER_rw_ok(zck, sizeof(*zck)))
V_REQUIRES(option == ZCK_VAL_HEADER_DIGEST)
V_REQUIRES(length == 0 || __CPROVER_r_ok(value, length))
V_ASSIGNS(zck->prep_digest, zck->error_state)
V_ENSURES(!__CPROVER_return_value || (V_OLD(zck->error_state) == 0 && zck->mode == ZCK_MODE_READ)) /*@C07.set_digest.needs_clean_read_ctx*/
V_ENSURES(!__CPROVER_return_value || (SPEC_HASH_VALID(zck->prep_hash_type) && length == 2 * (size_t)SPEC_DIGEST_SIZE(zck->prep_hash_type))) /*@C07.set_digest.exact_length_for_pinned_type*/
V_ENSURES(!__CPROVER_return_value || (zck->prep_digest != NULL && __CPROVER_r_ok(zck->prep_digest, length / 2))) /*@C07.set_digest.stored*/
V_ENSURES(!__CPROVER_return_value || !(g_k1 < length) || SPEC_HEX(value[g_k1]) >= 0) /*@C07.set_digest.accepted_only_if_all_hex*/
V_ENSURES(!__CPROVER_return_value || !(g_k2 < length / 2) || (unsigned char)zck->prep_digest[g_k2] == 16 * SPEC_HEX(value[2 * g_k2]) + SPEC_HEX(value[2 * g_k2 + 1])) /*@C07.set_digest.compared_by_value*/
;

/* C07: pinning hash type / header length (the other options belong to the writer units) */
bool zck_set_ioption(zckCtx *zck, zck_ioption option, ssize_t value)
V_REQUIRES(__CPROVER_rw_ok(zck, sizeof(*zck)))
V_REQUIRES(option == ZCK_VAL_HEADER_HASH_TYPE || option == ZCK_VAL_HEADER_LENGTH)
V_ASSIGNS(zck->prep_hash_type, zck->prep_hdr_size, zck->error_state)
V_ENSURES(!__CPROVER_return_value || (V_OLD(zck->error_state) == 0 && zck->mode == ZCK_MODE_READ && value >= 0)) /*@C07.set_ioption.needs_clean_read_ctx*/
V_ENSURES(!__CPROVER_return_value || option != ZCK_VAL_HEADER_HASH_TYPE || ((ssize_t)zck->prep_hash_type == value && zck->prep_digest == NULL && zck->prep_hdr_size == V_OLD(zck->prep_hdr_size))) /*@C07.set_ioption.hash_type_pinned_exactly*/
V_ENSURES(!__CPROVER_return_value || option != ZCK_VAL_HEADER_LENGTH || (zck->prep_hdr_size == value && zck->prep_hash_type == V_OLD(zck->prep_hash_type))) /*@C07.set_ioption.length_pinned_exactly*/
V_ENSURES(__CPROVER_return_value || (zck->prep_hash_type == V_OLD(zck->prep_hash_type) && zck->prep_hdr_size == V_OLD(zck->prep_hdr_size))) /*@C07.set_ioption.failure_changes_no_pin*/
V_ENSURES(__CPROVER_return_value == (V_OLD(zck->error_state) == 0 && zck->mode == ZCK_MODE_READ && value >= 0 && (option != ZCK_VAL_HEADER_HASH_TYPE || (zck->prep_digest == NULL && value <= INT_MAX)))) /*@C07.set_ioption.accept_iff*/
;

/* zck_close on a context opened for READING (C02 v): success only if the whole-data checksum,
 * finalised over everything the reads fed to it, equals the stored one (validate_file's verdict) */
bool zck_close(zckCtx *zck)
V_REQUIRES(__CPROVER_rw_ok(zck, sizeof(*zck)) && zck->mode == ZCK_MODE_READ)
V_REQUIRES(HASH_OBJ_WF(&zck->check_full_hash) && (zck->check_full_hash.type == NULL || zck->check_full_hash.type == &zck->hash_type))
V_REQUIRES(SPEC_HASH_VALID(zck->hash_type.type) && zck->hash_type.digest_size == SPEC_DIGEST_SIZE(zck->hash_type.type))
V_REQUIRES(zck->has_uncompressed_source != 0 || (zck->full_hash_digest != NULL && __CPROVER_r_ok(zck->full_hash_digest, zck->hash_type.digest_size)))
V_ASSIGNS(zck->check_full_hash.type, zck->check_full_hash.ctx, zck->error_state, g_hu_final, g_fin_val, g_fin_total, g_fin_seen, g_fin_ptr)
V_FREES(zck->check_full_hash.ctx)
V_ENSURES(!__CPROVER_return_value || V_OLD(zck->error_state) == 0) /*@C02,C12.zck_close.never_succeeds_on_a_context_in_error*/
V_ENSURES(!__CPROVER_return_value || zck->has_uncompressed_source != 0 || &zck->check_full_hash != g_hu_hash || (g_hu_final == V_OLD(g_hu_final) + 1 && g_fin_total == V_OLD(g_hu_total) && g_fin_seen == V_OLD(g_hu_seen))) /*@C02.zck_close.read_mode_success_only_after_the_data_checksum_was_finalised_over_all_bytes_read*/
V_ENSURES(!__CPROVER_return_value || zck->has_uncompressed_source != 0 || &zck->check_full_hash != g_hu_hash || !(g_k1 < (size_t)zck->hash_type.digest_size) || g_fin_val == zck->full_hash_digest[g_k1]) /*@C02.zck_close.read_mode_success_only_if_every_data_digest_byte_equal*/
;
#endif
