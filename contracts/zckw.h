/* Contracts for the WRITE-mode side of zck_close (src/lib/zck.c) and the header steps it calls
 * (src/lib/header.c: header_create, write_header).  C01: when header_create is reached nothing is pending
 * (every byte written is in a finished index entry); C12/C01: zck_close reports success only if the last
 * chunk was ended, the header created and written, and the body copied from the temp file -- in that order. */
#ifndef CONTRACTS_ZCKW_H
#define CONTRACTS_ZCKW_H
#include "spec/ghost.h"
#include "spec/ghost_close.h"
#include "contracts/writer.h"
#include "contracts/io_temp.h"

#include "contracts/headerw.h"

/* comp_close: ASSUMED frame only (releases codec state; not a subject of C01/C12 beyond its verdict) */
bool comp_close(zckCtx *zck)
V_REQUIRES(__CPROVER_rw_ok(zck, sizeof(*zck)))
V_ASSIGNS(zck->comp, zck->error_state)
;
/* libc close: ASSUMED */
int close(int __fd)
V_ASSIGNS()
V_ENSURES(__CPROVER_return_value == 0 || __CPROVER_return_value == -1)
;

/* zck_close on a context opened for WRITING */
bool zck_close(zckCtx *zck)
V_REQUIRES(__CPROVER_rw_ok(zck, sizeof(*zck)) && zck->mode == ZCK_MODE_WRITE && zck->error_state >= 0)
V_REQ_WR_COMMON(zck)
V_REQUIRES(zck->comp.started != 0 ? WR_BOUNDS(zck) : (OPT_WF(zck) && zck->comp.dc_data_size == 0 && zck->comp.dc_data == NULL && zck->work_index_item == NULL))
V_REQUIRES(PENDING_WF(zck))
V_REQUIRES(zck->header_digest == NULL || __CPROVER_rw_ok(zck->header_digest, 1))
V_REQUIRES(G_IX(zck->fd) != G_IX(zck->temp_fd) && g_from_write == 0)
V_REQUIRES(g_res_ec == 0 && g_res_hc == 0 && g_res_wh == 0 && g_res_cft == 0)
V_ASSIGNS(__CPROVER_object_whole(zck), g_same, g_bz_have, WR_GHOST_IO, WR_GHOST_HU, g_rd_bytes, g_last_read, g_watch_seen, g_watch_val, g_res_ec, g_res_hc, g_res_wh, g_res_cft)
V_ASSIGNS(zck->index.last != NULL: zck->index.last->next; zck->work_index_item != NULL: __CPROVER_object_whole(zck->work_index_item))
V_ENSURES(!__CPROVER_return_value || V_OLD(zck->error_state) <= 0) /*@C12.zck_close.never_succeeds_on_a_context_in_error*/
V_ENSURES(!__CPROVER_return_value || g_res_ec == 1) /*@C01,C12.zck_close.write_mode_success_only_if_the_last_chunk_was_ended*/
V_ENSURES(!__CPROVER_return_value || g_res_hc == 1) /*@C01,C12.zck_close.write_mode_success_only_if_the_header_was_created*/
V_ENSURES(!__CPROVER_return_value || g_res_wh == 1) /*@C01,C12.zck_close.write_mode_success_only_if_the_header_was_written*/
V_ENSURES(!__CPROVER_return_value || g_res_cft == 1) /*@C01,C12.zck_close.write_mode_success_only_if_the_body_was_copied_from_the_temp_file*/
V_ENSURES(!__CPROVER_return_value || zck->no_write == 1 || g_last_read == 0) /*@C01,C12.zck_close.write_mode_success_only_after_the_temp_file_was_read_to_its_end*/
;
#endif
