#!/usr/bin/env python3
"""Mechanical insertion of loop contracts into a scratch copy of a real source file.

An entry is {file, function, anchor, clauses}: `anchor` is a regex that must match exactly one
loop header (`for(...)`, `while(...)`; for do-while the `while(...)` tail) inside the body of
`function` in `file`.  The clause text is inserted right after the closing parenthesis of the
matched header (that is where CBMC expects loop contracts).  Nothing else is changed.  Any
entry that matches zero or several places aborts with ExtractionError -> the check is
UNDECIDED (exit 2), never a violation."""
import re


class ExtractionError(Exception):
    pass


def _strip_comments_keep_layout(src):
    """Replace comments and string/char literals by spaces (same length) so that brace matching
    and regexes do not trip over them."""
    out = []
    i, n = 0, len(src)
    while i < n:
        c = src[i]
        if src.startswith('/*', i):
            j = src.find('*/', i + 2)
            j = n if j < 0 else j + 2
            out.append(re.sub(r'[^\n]', ' ', src[i:j]))
            i = j
        elif src.startswith('//', i):
            j = src.find('\n', i)
            j = n if j < 0 else j
            out.append(' ' * (j - i))
            i = j
        elif c in '"\'':
            j = i + 1
            while j < n and src[j] != c:
                if src[j] == '\\':
                    j += 1
                j += 1
            j = min(j + 1, n)
            out.append(c + ' ' * (j - i - 2) + c if j - i >= 2 else src[i:j])
            i = j
        else:
            out.append(c)
            i += 1
    return ''.join(out)


def find_function_body(clean, name):
    """Return (start, end) offsets of the body braces of the definition of `name`."""
    hits = []
    for m in re.finditer(r'\b' + re.escape(name) + r'\s*\(', clean):
        # match parentheses
        i = m.end() - 1
        depth = 0
        while i < len(clean):
            if clean[i] == '(':
                depth += 1
            elif clean[i] == ')':
                depth -= 1
                if depth == 0:
                    break
            i += 1
        j = i + 1
        while j < len(clean) and clean[j] in ' \t\r\n':
            j += 1
        if j < len(clean) and clean[j] == '{':
            # must be at top level: count braces before m.start()
            if clean[:m.start()].count('{') != clean[:m.start()].count('}'):
                continue
            depth = 0
            k = j
            while k < len(clean):
                if clean[k] == '{':
                    depth += 1
                elif clean[k] == '}':
                    depth -= 1
                    if depth == 0:
                        break
                k += 1
            hits.append((j, k + 1))
    if len(hits) != 1:
        raise ExtractionError("function %s: %d definitions found" % (name, len(hits)))
    return hits[0]


def patch_source(src, entries, fname='?'):
    """entries: list of {function, anchor, clauses}. Returns patched text."""
    clean = _strip_comments_keep_layout(src)
    inserts = []
    for e in entries:
        b, en = find_function_body(clean, e['function'])
        body = clean[b:en]
        ms = list(re.finditer(e['anchor'], body))
        if len(ms) != 1:
            raise ExtractionError("%s:%s: anchor %r matched %d times (must be exactly 1)"
                                  % (fname, e['function'], e['anchor'], len(ms)))
        m = ms[0]
        if 'cover' in e:
            # reachability probe (vacuity guard INSIDE an abstracted loop body / behind a replaced callee):
            # a statement inserted right after the matched text, which must end a statement or open/close a block.
            # V_PROBE(x) expands to x only in the cover build (spec/verif_prelude.h), to nothing otherwise.
            if body[m.end() - 1] not in ';{}':
                raise ExtractionError("%s:%s: probe anchor %r must end in ';', '{' or '}'" % (fname, e['function'], e['anchor']))
            inserts.append((b + m.end(), ' V_PROBE(__CPROVER_assert(!(%s), "COVER probe:%s")); ' % (e['cover'], e.get('name', '?'))))
            continue
        if 'assert' in e:
            # in-body obligation (per-iteration fact that no loop invariant can state because it speaks about the state in the middle of
            # an iteration): an assertion inserted right after the matched text, live in the proof run; `tag` is the obligation text
            if body[m.end() - 1] not in ';{}':
                raise ExtractionError("%s:%s: assert anchor %r must end in ';', '{' or '}'" % (fname, e['function'], e['anchor']))
            inserts.append((b + m.end(), ' __CPROVER_assert(%s, "%s"); ' % (e['assert'], e['tag'])))
            continue
        # find the first '(' at/after match start, then its closing ')'
        i = body.find('(', m.start())
        if i < 0:
            raise ExtractionError("%s:%s: no '(' after anchor" % (fname, e['function']))
        depth = 0
        while i < len(body):
            if body[i] == '(':
                depth += 1
            elif body[i] == ')':
                depth -= 1
                if depth == 0:
                    break
            i += 1
        if depth != 0:
            raise ExtractionError("%s:%s: unbalanced loop header" % (fname, e['function']))
        pos = b + i + 1
        clauses = e['clauses']
        if isinstance(clauses, list):
            clauses = ' '.join(clauses)
        inserts.append((pos, ' ' + clauses + ' '))
    inserts.sort(reverse=True)
    out = src
    for pos, text in inserts:
        # keep line numbers identical to the original: the clause goes on the header's own line
        out = out[:pos] + text.replace('\n', ' ') + out[pos:]
    return out


def extract_functions(src, names, fname='?'):
    """Return the verbatim text of the definitions of `names` (return type .. closing brace),
    in the order given.  Everything else of the file is dropped (stated in the evidence)."""
    clean = _strip_comments_keep_layout(src)
    out = []
    for name in names:
        b, e = find_function_body(clean, name)
        # walk back from the body to the start of the declaration: previous '}' ';' or '#...' line
        m = None
        for m in re.finditer(r'\b' + re.escape(name) + r'\s*\(', clean[:b]):
            pass
        if m is None:
            raise ExtractionError("%s: cannot locate %s" % (fname, name))
        i = m.start()
        j = max(clean.rfind('}', 0, i), clean.rfind(';', 0, i))
        # skip preprocessor lines between j and i
        start = j + 1
        seg = clean[start:i]
        k = seg.rfind('\n#')
        if k >= 0:
            start = start + seg.find('\n', k + 1) + 1
        out.append(src[start:e].strip('\n') + '\n')
    return '\n'.join(out)


if __name__ == '__main__':
    import sys, json
    src = open(sys.argv[1]).read()
    entries = json.load(open(sys.argv[2]))
    sys.stdout.write(patch_source(src, entries, sys.argv[1]))
