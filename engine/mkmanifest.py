#!/usr/bin/env python3
"""Regenerates /verif/MANIFEST.json from the table below and the unit files (so that the claimed
checks always correspond to units that exist).  Run by hand after adding units."""
import json, os, sys
sys.path.insert(0, os.path.dirname(os.path.abspath(__file__)))
V = os.path.dirname(os.path.dirname(os.path.abspath(__file__)))
import vp
units = vp.load_units()
CLAIMS = json.load(open(os.path.join(V, 'engine', 'claims.json')))
checks, na = [], []
allp = [json.loads(l)['id'] for l in open(os.path.join(V, 'properties.jsonl'))]
for pid in allp:
    c = CLAIMS.get(pid)
    mine = [u for u in units if pid in u['properties']]
    if pid == 'C19' and c and c.get('claim'):
        mine = [{'enforce': [], 'name': 'symtab'}]
    if not c or not c.get('claim') or not mine:
        na.append({'property_id': pid, 'reason': (c or {}).get('reason', 'not built in this round')})
        continue
    fns = sorted({f for u in mine for f in ([u['enforce']] if isinstance(u.get('enforce'), str) else (u.get('enforce') or []))})
    bounded = sorted({u.get('variant_of', u['name']) for u in mine if u.get('mode', 'proof') != 'proof'})
    checks.append({
        'property_id': pid, 'quick_cmd': './check %s quick' % pid, 'thorough_cmd': './check %s thorough' % pid,
        'evidence_file': 'evidence/%s.json' % pid, 'engine': 'static-ownership-scan' if pid == 'C19' else 'cbmc-contracts',
        'level_claimed': {'category': c['level'], 'text': c['text'] + (' Functions under contract: ' + ', '.join(fns) if fns else '') + ('. Bounded units (reported separately, not counted as proved): ' + ', '.join(bounded) if bounded else '') + '.',
                          'design_ref': 'DESIGN.md section 6, ' + pid},
        'level_note': c['note'], 'technique': c.get('technique', 'contract-based deductive verification (CBMC --dfcc function and loop contracts on the real sources)')})
m = {'version': 1, 'setup_cmd': 'true',
     'hooks': {'guard': 'ZCHUNK_ZCHUNK_VERIF', 'enable': 'no hooks inside /repo: -DZCHUNK_ZCHUNK_VERIF is passed to goto-cc for /verif wrapper translation units that #include the real sources; loop contracts are inserted mechanically into scratch copies on every run',
               'baseline_off_cmd': 'meson test -C /repo/_build', 'source_commits': [], 'add_only': True},
     'engines': [{'name': 'cbmc-contracts', 'path': 'engine/vp.py', 'serves_properties': [c['property_id'] for c in checks if c['property_id'] != 'C19'],
                  'kind_free_text': 'CBMC 6.11 goto-instrument --dfcc function/loop contract enforcement on the real C sources; plain CBMC for the bounded list-shaped units'},
                 {'name': 'static-ownership-scan', 'path': 'engine/symtab.py', 'serves_properties': ['C19'], 'kind_free_text': 'goto-cc symbol table / goto program scan for static mutable objects, their writers and address escapes'}],
     'checks': checks, 'not_applicable': na,
     'notes': 'exit 0 ok / exit 1 VIOLATION (failed obligation not listed in known_findings.json) / exit 2 UNDECIDED (timeout, extraction or build failure, vacuity). Seeded changes used to test the checks: seeded/.'}
json.dump(m, open(os.path.join(V, 'MANIFEST.json'), 'w'), indent=1)
print('claimed:', [c['property_id'] for c in checks]); print('not applicable:', [n['property_id'] for n in na])
