#!/usr/bin/env python3
"""Developer helper: run every unit of a tier once (no traces) and print one status line per unit.
   runall.py [-j N] [--tier quick|thorough] [name-substring ...]"""
import sys, os, subprocess, re
from concurrent.futures import ThreadPoolExecutor
sys.path.insert(0, os.path.dirname(os.path.abspath(__file__)))
import vp
args = sys.argv[1:]; jobs = 5; tier = 'quick'
while args and args[0].startswith('-'):
    if args[0] == '-j': jobs = int(args[1]); args = args[2:]
    elif args[0] == '--tier': tier = args[1]; args = args[2:]
units = [u for u in vp.load_units() if u.get('tier', 'quick') == tier and (not args or any(a in u['name'] for a in args))]
def one(u):
    env = dict(os.environ, VERIF_NOTRACE='1')
    p = subprocess.run([sys.executable, os.path.join(vp.VERIF, 'engine/vp.py'), 'unit', u['name'], '--tier', tier], stdout=subprocess.PIPE, stderr=subprocess.STDOUT, env=env)
    out = p.stdout.decode()
    st = re.search(r'^unit \S+: (\S+) ?(.*)$', out, flags=re.M)
    ob = re.search(r'^obligations: (\d+) (\{.*\})', out, flags=re.M)
    wall = re.search(r'wall ([0-9.]+)s', out)
    fails = re.findall(r'^  FAILURE  (\S+)', out, flags=re.M)
    return '%-40s %-9s %-34s wall %-6s %s %s' % (u['name'], st.group(1) if st else '?', ob.group(2) if ob else '', wall.group(1) if wall else '?', (st.group(2)[:110] if st else out[-200:]), ' | '.join(fails[:4]))
with ThreadPoolExecutor(max_workers=jobs) as ex:
    for line in ex.map(one, units):
        print(line, flush=True)
