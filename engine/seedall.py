#!/usr/bin/env python3
"""Run every seeded change (seeded/<id>/patch.diff) against the quick check of its property (plus extra
properties given in seeded/<id>/also.txt) on a scratch worktree, and record the outcome in meta.json.
   seedall.py [-j N] [seed-id ...]"""
import sys, os, json, subprocess, re
from concurrent.futures import ThreadPoolExecutor
V = os.path.dirname(os.path.dirname(os.path.abspath(__file__)))
claimed = {c['property_id'] for c in json.load(open(os.path.join(V, 'MANIFEST.json')))['checks']}
args = sys.argv[1:]
jobs = 3
if args and args[0] == '-j':
    jobs = int(args[1]); args = args[2:]
seeds = args or sorted(d for d in os.listdir(os.path.join(V, 'seeded')) if os.path.exists(os.path.join(V, 'seeded', d, 'patch.diff')))

def one(sid):
    d = os.path.join(V, 'seeded', sid)
    meta = json.load(open(os.path.join(d, 'meta.json')))
    props = [meta['property']]
    if os.path.exists(os.path.join(d, 'also.txt')):
        props += open(os.path.join(d, 'also.txt')).read().split()
    props = [p for p in props if p in claimed]
    if not props:
        meta['checks_run'] = []; meta['caught'] = None
        meta['note'] = 'property not claimed in MANIFEST.json: no check to run'
        json.dump(meta, open(os.path.join(d, 'meta.json'), 'w'), indent=1)
        return sid, 'unclaimed'
    p = subprocess.run([os.path.join(V, 'engine/seedtest.sh'), sid] + props, stdout=subprocess.PIPE, stderr=subprocess.STDOUT, env=dict(os.environ, VERIF_JOBS=os.environ.get('VERIF_JOBS', '4')))
    out = p.stdout.decode()
    runs = []
    for m in re.finditer(r'^SEEDTEST (\S+) (\S+) rc=(\d+) (\d+) violation-lines: (.*)$', out, flags=re.M):
        runs.append({'check': './check %s quick (VERIF_REPO=<scratch worktree with the change applied>)' % m.group(2), 'rc': int(m.group(3)),
                     'violation_lines': int(m.group(4)), 'failed_obligations': sorted(set(x for x in m.group(5).split('|') if x))[:12]})
    if 'does not apply' in out:
        meta['checks_run'] = []; meta['caught'] = None; meta['note'] = 'patch no longer applies to /repo HEAD (the code it changes was repaired by a fix: commit)'
    else:
        meta['checks_run'] = runs
        meta['caught'] = any(r['rc'] == 1 for r in runs)
        meta.pop('note', None)
    json.dump(meta, open(os.path.join(d, 'meta.json'), 'w'), indent=1)
    return sid, ('CAUGHT' if meta['caught'] else 'does-not-apply' if meta['caught'] is None else 'MISSED rc=%s' % [r['rc'] for r in runs])

with ThreadPoolExecutor(max_workers=jobs) as ex:
    for sid, res in ex.map(one, seeds):
        print(sid, res, flush=True)
