#!/bin/bash
# seedconfirm.sh <property-id> <worktree> <seeddir-name> <target-name>
# Confirms a seeded change produced in a scratch worktree: with the patch the 37 tests pass and the
# demonstration fails; without it the demonstration passes.  On success copies it to /verif/seeded/<target>.
PID="$1"; WT="$2"; SD="$3"; TGT="$4"
cd "$WT" || exit 2
git checkout -q -- src 2>/dev/null
git apply --check "$SD/patch.diff" || { echo "RESULT $TGT patch-does-not-apply"; exit 1; }
git apply "$SD/patch.diff"
ninja -C _build >/dev/null 2>&1 || { echo "RESULT $TGT build-fails-with-patch"; git checkout -q -- src; exit 1; }
T=$(meson test -C _build 2>&1 | egrep "^(Ok|Fail|Expected Fail|Unexpected Pass|Timeout):" | tr -s ' ' | tr '\n' ';')
timeout 900 sh "$SD/run.sh" >/tmp/seed_$TGT.with.log 2>&1; RW=$?
git checkout -q -- src
ninja -C _build >/dev/null 2>&1
timeout 900 sh "$SD/run.sh" >/tmp/seed_$TGT.without.log 2>&1; RO=$?
echo "RESULT $TGT tests=[$T] demo_with_patch_rc=$RW demo_pristine_rc=$RO"
case "$T" in *"Fail: 0"*) ;; *) echo "RESULT $TGT tests-not-clean"; exit 1;; esac
if [ $RW -ne 0 ] && [ $RO -eq 0 ]; then
  mkdir -p /verif/seeded/$TGT
  cp -r "$SD"/. /verif/seeded/$TGT/
  python3 - "$PID" "$TGT" "$T" "$RW" "$RO" <<'PY'
import json,sys,os
pid,tgt,t,rw,ro=sys.argv[1:6]
d='/verif/seeded/'+tgt
meta=open(d+'/meta.txt').read() if os.path.exists(d+'/meta.txt') else ''
json.dump({'property':pid,'id':tgt,'origin':'independent sub-agent given only the property text and a scratch worktree',
 'needs_to_manifest':meta,'confirmed':{'tests_with_patch':t,'demo_rc_with_patch':int(rw),'demo_rc_pristine':int(ro),
 'how':'engine/seedconfirm.sh: git apply in scratch worktree, ninja, meson test, sh run.sh; git checkout, ninja, sh run.sh'},
 'checks_run':[]},open(d+'/meta.json','w'),indent=1)
PY
  echo "RESULT $TGT CONFIRMED"
else
  echo "RESULT $TGT NOT-CONFIRMED"; exit 1
fi
