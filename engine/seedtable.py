#!/usr/bin/env python3
"""Prints the markdown table of seeded changes (DESIGN.md 12.6) from seeded/*/meta.json."""
import json, os, glob
V = os.path.dirname(os.path.dirname(os.path.abspath(__file__)))
DESC = {
 'C01-s1': 'comp_ioption accepts a minimum chunk size while no maximum is set (min > default max: manual zck_write never returns)',
 'C01-s2': 'write_data retries in a loop but passes `data` instead of `data + loc` (duplicated prefix, lost tail after a short write)',
 'C02-s1': 'comp_end_dchunk advances the cursor before validating', 'C02-s2': 'zck_close (read) skips validate_file unless the cursor is at the end',
 'C02-s3': 'zstd end_dchunk drops the "decoded size == declared size" check', 'C02-s4': 'zck_close (read) skips validate_file when every chunk flag is 1',
 'C03-s1': 'zstd end_dchunk detaches the compressed buffer only after success', 'C03-s2': 'read_preface bounds its cursor by header_size instead of header_length',
 'C04-s1': 'write_and_verify_chunk rewritten with a tail block helper that fails for sizes k*32768', 'C04-s2': 'zck_dl_reset keeps the compiled regexes across requests (stale boundary)',
 'C05-s1': 'multipart_extract resumes the CRLFCRLF search at (stored length - 3): the terminator is missed when it straddles the boundary in one particular way', 'C05-s2': 'zck_dl_reset clears the per-transfer state field by field and forgets write_in_chunk',
 'C06-s1': 'validate_header compares fewer digest bytes', 'C06-s2': 'header hash fed from a re-encoded lead instead of the file bytes',
 'C07-s1': 'hex_to_int accepts non-hex characters again', 'C07-s2': 'read_lead compares the pinned length against the wrong quantity',
 'C08-s1': 'in-place seek optimisation in zck_copy_chunks/write_and_verify_chunk', 'C08-s2': 'zero_chunk zeroes `length` instead of `comp_length` bytes',
 'C08-s3': 'write_and_verify_chunk skips hashing when the SOURCE chunk is flagged valid', 'C08-s4': 'zck_copy_chunks drops the stored-size equality test',
 'C09-s1': 'validate_file compares the data digest over the CHUNK digest size (16 of 32 bytes with the default types)', 'C09-s2': 'validate_checksums tail flattened: returns early and no longer invalidates all chunks when only the data checksum fails',
 'C10-s1': 'range_merge_combined computes the gap in a 32-bit signed int (wrong merge for gaps >= 2 GiB)', 'C10-s2': 'zck_get_range_char loop turned into a for loop: the item that did not fit is skipped after growth',
 'C10-s3': 'zck_get_range_char growth test `>=` back to `>` (exact fit drops the rest of the list)', 'C10-s4': 'limit 0 treated as "unlimited" in zck_get_missing_range',
 'C12-s1': 'chunks_from_temp "goto out" rewrite that reports success after a failing read()', 'C12-s2': 'write_data retry writes from `data` instead of `data + write_bytes`',
 'C13-s1': 'compint_to_int narrows before the range check', 'C13-s2': 'index_read reads the uncompressed digest at the wrong cursor position',
 'C14-s1': 'zck_get_chunk_data no longer loads the dictionary when chunk 0 itself is requested', 'C14-s2': 'zck_get_chunk_comp_data clamps to the uncompressed instead of the stored size',
 'C14-s3': 'zck_get_chunk_data skips reset and seek for "sequential" requests (ignores the descriptor position)', 'C14-s4': 'comp_reset_comp_data returns early without clearing data_eof',
 'C15-s1': 'validate_current_chunk trusts a chunk already flagged valid', 'C15-s2': 'comp_read sets data_eof from `next == NULL` BEFORE comp_end_dchunk (a failed last chunk looks like EOF)',
 'C15-s3': 'comp_end_dchunk stores the verdict in a bool (-1 becomes true)', 'C15-s4': 'validate_current_chunk shortcut on valid == 1 (closes the hash, returns 1)',
 'C16-s1': 'automatic loop tests a buffer-relative maximum that goes stale after a refused boundary', 'C16-s2': 'comp_init resolves crossed bounds by widening the maximum',
 'C17-s1': 'multipart_get_boundary unquoting guard rewritten: a boundary of one quote character indexes [-1] / copies a negative length', 'C17-s2': 'set_chunk_valid takes the chunk into a local but still passes the (now NULL) dl->tgt_check to zero_chunk',
 'C18-s1': 'SHA1_Final padding computed in one update (wrong for lengths = 56 mod 64)', 'C18-s2': 'sha256/512_update fast path leaves a full block pending',
 'C19-s1': 'validators use a static read buffer', 'C19-s2': 'process-wide lazily compiled boundary regex',
 'C20-s1': 'compint_to_size bound check regression', 'C20-s2': 'compint_to_int narrowing regression',
}
print('| seed | property | change | outcome | first failing obligations / reason |')
print('|------|----------|--------|---------|--------------------------------------|')
for f in sorted(glob.glob(os.path.join(V, 'seeded', '*', 'meta.json'))):
    m = json.load(open(f)); sid = m['id']
    runs = m.get('checks_run') or []
    if m.get('caught') is None:
        out, why = 'n/a', m.get('note', 'not run')
    elif m['caught']:
        out = 'caught'
        r = [x for x in runs if x['rc'] == 1][0]
        why = r['check'].split(' (')[0] + ': ' + '; '.join('`%s`' % k.split('/', 1)[-1][:90] for k in r['failed_obligations'][:2])
    else:
        out = 'MISSED'
        why = ', '.join('%s rc=%d' % (x['check'].split(' ')[1], x['rc']) for x in runs) + (' — ' + m['miss_reason'] if m.get('miss_reason') else '')
    print('| %s | %s | %s | %s | %s |' % (sid, m['property'], DESC.get(sid, ''), out, why))
