#!/bin/bash
# seedtest.sh <seed-id> <property-id>...   apply /verif/seeded/<seed-id>/patch.diff to a scratch
# worktree of /repo (so that /repo itself is never disturbed while other checks run), run the quick
# checks of the given properties against it (VERIF_REPO), remove the worktree.  One line per check.
SID="$1"; shift
V=$(cd "$(dirname "$0")/.." && pwd)
WT=/tmp/seedrepo.$SID.$$
git -C /repo worktree add -q --detach $WT HEAD || exit 2
trap 'git -C /repo worktree remove --force '$WT' >/dev/null 2>&1' EXIT
git -C $WT apply $V/seeded/$SID/patch.diff || { echo "SEEDTEST $SID patch does not apply"; exit 2; }
mkdir -p /tmp/seed_evidence.$SID
for P in "$@"; do
  (cd $V && VERIF_REPO=$WT VERIF_EVIDENCE_DIR=/tmp/seed_evidence.$SID ${VERIF_CHECK:-./check} $P quick > /tmp/seedtest_${SID}_$P.log 2>&1); RC=$?
  echo "SEEDTEST $SID $P rc=$RC $(grep -c '^VIOLATION' /tmp/seedtest_${SID}_$P.log) violation-lines: $(grep '^FAILED-OBLIGATION' /tmp/seedtest_${SID}_$P.log | sed 's/.*key=//' | tr '\n' '|' | cut -c1-600)"
done
rm -rf /tmp/seed_evidence.$SID
