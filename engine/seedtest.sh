#!/bin/bash
# seedtest.sh <seed-id> <property-id>...   apply /verif/seeded/<seed-id>/patch.diff to /repo, run the
# quick checks of the given properties, restore /repo.  Prints one line per check.
SID="$1"; shift
cd /verif
git -C /repo diff --quiet || { echo "repo dirty, refusing"; exit 2; }
git -C /repo apply /verif/seeded/$SID/patch.diff || { echo "patch does not apply"; exit 2; }
for P in "$@"; do
  VERIF_EVIDENCE_DIR=/tmp/seed_evidence ./check $P quick > /tmp/seedtest_${SID}_$P.log 2>&1; RC=$?
  echo "SEEDTEST $SID $P rc=$RC $(grep -c '^VIOLATION' /tmp/seedtest_${SID}_$P.log) violation-lines: $(grep '^FAILED-OBLIGATION' /tmp/seedtest_${SID}_$P.log | sed 's/.*key=//' | tr '\n' '|' | cut -c1-400)"
done
git -C /repo checkout -- .
