#!/usr/bin/env python3
"""C19 "independent contexts do not interfere when used from different threads":
static-ownership scan of the whole library (DESIGN.md section 6, C19).

  symtab.py check [--tier quick|thorough]      the property check (also reachable as `vp.py check C19`)
  symtab.py --selftest                         vacuity self-test of the scanner on a tiny C file
  symtab.py list                               developer helper: print every static object + accesses

CBMC has no threads.  What is decided here is the sequential ownership fact the property rests on:
no library function writes, or hands out a pointer to, static-lifetime mutable memory - except the
three logging setters writing the three logging variables - so two contexts driven by two threads
have disjoint footprints as far as library-owned static memory is concerned (the heap part is
decided by the `assigns` clauses of the contract units of the other properties).

Obligations (each named, each decided by enumeration over the goto binaries of EVERY library
translation unit the real build compiles, built on this run from the current working tree):
  A  C19.static_mutable_object:<file>:<symbol>   one per static-lifetime object defined in a library
       file.  Discharged iff the object is const-qualified, thread-local, one of the three
       allow-listed logging variables, or *effectively read-only* (internal linkage and the whole
       translation unit contains no assignment to it and never takes its address - e.g. a
       `static const char *TABLE[]` whose elements are not const-qualified but never written).
  B  C19.static_written:<function>:<symbol>, C19.static_address_escapes:<function>:<symbol>
       one per (function, non-const static object) pair where the function assigns to the object
       (directly, through index/member) or takes its address (address_of, array-to-pointer decay when
       passed to a callee, returned pointer, stored pointer).  Discharged iff the pair is one of the
       three logging setters writing its own variable.  Reads are not obligations.

exit 0: all obligations discharged or listed status=known in known_findings.json (KNOWN-FINDING lines)
exit 1: a failed obligation that is not a known finding (FAILED-OBLIGATION + VIOLATION lines)
exit 2: undecided: compile/extraction failure, tool failure, vacuity guard tripped
Needs only the system python3, goto-cc, goto-instrument (and gcc -fsanitize=thread for the replay).
"""
import sys, os, json, re, subprocess, tempfile, shutil, time, hashlib, argparse
from concurrent.futures import ThreadPoolExecutor

VERIF = os.path.dirname(os.path.dirname(os.path.abspath(__file__)))
REPO = os.environ.get('VERIF_REPO', '/repo')
EVID = os.environ.get('VERIF_EVIDENCE_DIR') or os.path.join(VERIF, 'evidence')
KNOWN = os.environ.get('VERIF_KNOWN_FINDINGS') or os.path.join(VERIF, 'known_findings.json')   # override: testing only
SCENARIO = os.path.join(VERIF, 'replay', 'scenarios', 'c19_two_threads.c')
PID = 'C19'

# the real build's flags (meson: c_std=gnu11, -D_FILE_OFFSET_BITS=64, -DZCHUNK_ZSTD when zstd is found)
CFLAGS = ['-std=gnu11', '-D_FILE_OFFSET_BITS=64', '-DZCHUNK_ZSTD']

# ---- allow-list (the only static mutable state the property permits: logging configuration) ----
ALLOW_OBJECTS = {
    ('src/lib/log.c', 'log_level'): 'process-wide logging level (set once before threads start)',
    ('src/lib/log.c', 'log_fd'): 'process-wide logging file descriptor',
    ('src/lib/log.c', 'callback'): 'process-wide logging callback',
}
ALLOW_WRITERS = {
    ('zck_set_log_level', 'src/lib/log.c', 'log_level'),
    ('zck_set_log_fd', 'src/lib/log.c', 'log_fd'),
    ('zck_set_log_callback', 'src/lib/log.c', 'callback'),
}


class Undecided(Exception):
    pass


def log(*a):
    print(*a, file=sys.stderr, flush=True)


def jobs():
    try:
        return max(1, min(4, int(os.environ.get('VERIF_JOBS', '4'))))
    except ValueError:
        return 4


def run(cmd, cwd=None, timeout=300, env=None):
    try:
        p = subprocess.run(cmd, cwd=cwd, stdout=subprocess.PIPE, stderr=subprocess.PIPE, timeout=timeout, env=env)
        return p.returncode, p.stdout.decode('utf-8', 'replace'), p.stderr.decode('utf-8', 'replace')
    except subprocess.TimeoutExpired:
        return -9, '', 'TIMEOUT after %ss' % timeout
    except FileNotFoundError as e:
        return -127, '', str(e)


# ------------------------------------------------------------------------------------------
# which files does the real build compile?  (meson.build of src/lib and its sub-directories)
# ------------------------------------------------------------------------------------------
def _cond_value(cond, openssl):
    """Evaluate the few meson conditions the library build files use.  None = unknown."""
    c = cond.strip()
    if c == 'zstd_dep.found()':
        return True                       # -DZCHUNK_ZSTD configuration
    if c == 'openssl_dep.found()':
        return openssl
    m = re.match(r"(host|build)_machine\.system\(\)\s*(==|!=)\s*'(\w+)'$", c)
    if m:
        is_it = (m.group(3) == 'linux')
        return is_it if m.group(2) == '==' else not is_it
    return None


def meson_sources(repo, openssl, notes):
    """Source files (relative to repo) added to lib_sources, following subdir() and if/else/endif.
    win32 is skipped (host is not windows).  An unknown condition takes BOTH branches (scans more)."""
    out = []

    def parse(d):
        path = os.path.join(repo, d, 'meson.build')
        if not os.path.exists(path):
            raise Undecided('no meson.build in %s' % d)
        # stack of booleans: is the current block active?
        active = [True]
        taken = []
        text = open(path).read()
        # join continued bracket lines
        joined, depth, cur = [], 0, ''
        for line in text.splitlines():
            s = line.split('#', 1)[0]
            cur += ' ' + s
            depth += s.count('(') + s.count('[') - s.count(')') - s.count(']')
            if depth <= 0:
                joined.append(cur.strip())
                cur, depth = '', 0
        for s in joined:
            if not s:
                continue
            m = re.match(r'(el)?if\s+(.*)$', s)
            if m:
                v = _cond_value(m.group(2), openssl)
                if v is None and all(active[:-1] if m.group(1) else active):
                    notes.append('%s/meson.build: condition "%s" not understood: both branches scanned' % (d, m.group(2)))
                if m.group(1):          # elif
                    prev_taken = taken[-1]
                    active[-1] = (v is None) or (bool(v) and not prev_taken)
                    taken[-1] = prev_taken or bool(v)
                else:
                    active.append(True if v is None else bool(v))
                    taken.append(bool(v) if v is not None else False)
                continue
            if s == 'else':
                active[-1] = not taken[-1]
                continue
            if s == 'endif':
                active.pop()
                taken.pop()
                continue
            if not all(active):
                continue
            m = re.match(r"subdir\(\s*'([^']+)'\s*\)", s)
            if m:
                parse(os.path.join(d, m.group(1)))
                continue
            m = re.match(r"lib_sources\s*\+?=\s*files\((.*)\)\s*$", s)
            if m:
                for f in re.findall(r"'([^']+)'", m.group(1)):
                    out.append(os.path.normpath(os.path.join(d, f)))
    parse('src/lib')
    out = [f for f in out if '/win32/' not in f]
    seen, res = set(), []
    for f in out:
        if f not in seen:
            seen.add(f)
            res.append(f)
    return res


def have_openssl_headers():
    return any(os.path.exists(os.path.join(d, 'openssl/evp.h')) for d in ('/usr/include', '/usr/local/include'))


def make_zck_h(repo, scratch):
    """zck.h generated from include/zck.h.in exactly as engine/vp.py prepare_scratch does."""
    src = open(os.path.join(repo, 'include/zck.h.in')).read()
    m = re.search(r"version\s*:\s*'([^']+)'", open(os.path.join(repo, 'meson.build')).read())
    open(os.path.join(scratch, 'zck.h'), 'w').write(src.replace('@version@', m.group(1) if m else '0'))


# ------------------------------------------------------------------------------------------
# goto binaries -> symbol table and goto functions (JSON)
# ------------------------------------------------------------------------------------------
def compile_tu(src_abs, gb, incs, flags):
    cmd = ['goto-cc'] + flags + ['-I' + i for i in incs] + ['-c', src_abs, '-o', gb]
    rc, out, err = run(cmd, timeout=300)
    if rc != 0 or not os.path.exists(gb):
        raise Undecided('goto-cc failed on %s (rc=%s): %s' % (src_abs, rc, (out + err)[-1500:]))
    return ' '.join(cmd)


def goto_json(gb, what):
    """what: 'symbol-table' or 'goto-functions'"""
    outp = gb + '.' + what + '.json'
    with open(outp, 'wb') as fo:
        try:
            p = subprocess.run(['goto-instrument', '--show-' + what, '--json-ui', gb], stdout=fo,
                               stderr=subprocess.PIPE, timeout=600)
        except subprocess.TimeoutExpired:
            raise Undecided('goto-instrument --show-%s timed out on %s' % (what, gb))
    if p.returncode != 0:
        raise Undecided('goto-instrument --show-%s failed on %s: %s' % (what, gb, p.stderr.decode('utf-8', 'replace')[-800:]))
    return outp


def load_section(path, key):
    try:
        d = json.load(open(path, encoding='utf-8', errors='replace'), strict=False)   # string constants may hold raw bytes
    except Exception as e:
        raise Undecided('cannot parse %s: %s' % (path, e))
    for x in d:
        if isinstance(x, dict) and key in x:
            return x[key]
    raise Undecided('%s has no "%s" section' % (path, key))


# ---- irep helpers -------------------------------------------------------------------------
def type_is_const(t):
    ns = t.get('namedSub', {})
    if '#constant' in ns:
        return True
    if t.get('id') in ('array', 'vector') and t.get('sub'):
        return type_is_const(t['sub'][0])
    return False


def type_size_bytes(t):
    """Size of scalar / array-of-scalar types (for matching TSan's 'global X of size N'); None if unknown."""
    ns = t.get('namedSub', {})
    i = t.get('id')
    if i in ('signedbv', 'unsignedbv', 'pointer', 'floatbv', 'c_bool', 'c_enum_tag', 'bool'):
        w = ns.get('width', {}).get('id')
        try:
            return int(w) // 8 if w else None
        except ValueError:
            return None
    if i == 'array' and t.get('sub'):
        sz = ns.get('size', {})
        if sz.get('id') == 'constant':
            try:
                n = int(sz['namedSub']['value']['id'], 16)
            except Exception:
                return None
            e = type_size_bytes(t['sub'][0])
            return n * e if e is not None else None
    return None


def walk(e, ctx, acc):
    """Collect (ctx, identifier) for every symbol occurring in expression e.
    ctx: 'R' value read, 'W' assignment target, 'A' address taken."""
    if not isinstance(e, dict):
        return
    i = e.get('id')
    ns = e.get('namedSub', {})
    sub = e.get('sub', [])
    if i == 'symbol':
        ident = ns.get('identifier', {}).get('id')
        if ident:
            acc.append((ctx, ident))
        return
    if i == 'address_of' and sub:
        lvalue(sub[0], 'A', acc)
        return
    for s in sub:
        walk(s, 'R', acc)
    for k, v in ns.items():
        if k == 'type' or k.startswith('#'):
            continue
        if isinstance(v, dict) and (v.get('sub') or v.get('namedSub')):
            walk(v, 'R', acc)


def lvalue(e, ctx, acc):
    """e is used as an lvalue (assignment target: ctx W; operand of address_of: ctx A): the root
    object gets ctx, everything else (indices, pointers being dereferenced) is read."""
    if not isinstance(e, dict):
        return
    i = e.get('id')
    sub = e.get('sub', [])
    if i == 'symbol':
        walk(e, ctx, acc)
    elif i == 'index' and len(sub) == 2:
        lvalue(sub[0], ctx, acc)
        walk(sub[1], 'R', acc)
    elif i in ('member', 'typecast', 'byte_extract_little_endian', 'byte_extract_big_endian') and sub:
        lvalue(sub[0], ctx, acc)
        for s in sub[1:]:
            walk(s, 'R', acc)
    elif i == 'dereference' and sub:
        walk(sub[0], 'R', acc)          # *p: p is read; an address_of below it is reported as 'A'
    elif i == 'if' and len(sub) == 3:
        walk(sub[0], 'R', acc)
        lvalue(sub[1], ctx, acc)
        lvalue(sub[2], ctx, acc)
    else:
        walk(e, 'R', acc)


# OTHER statements that only evaluate their operands; every other OTHER statement (array_set,
# array_copy, havoc_object, asm, ...) is treated as writing every static object it mentions.
OTHER_READS_ONLY = {'expression', 'printf', 'fence', 'skip', 'assert', 'assume', 'input', 'output', 'decl', 'dead'}


def instruction_accesses(ins):
    """[(kind, identifier)] with kind in W (assigned), A (address taken), T (address returned), R."""
    acc = []
    iid = ins.get('instructionId', '')
    code = ins.get('code')
    if 'guard' in ins:
        walk(ins['guard'], 'R', acc)
    if isinstance(code, dict):
        st = code.get('namedSub', {}).get('statement', {}).get('id', '')
        sub = code.get('sub', [])
        if st == 'assign' and len(sub) == 2:
            lvalue(sub[0], 'W', acc)
            walk(sub[1], 'R', acc)
        elif st == 'function_call' and len(sub) == 3:
            if sub[0].get('id') not in ('nil', None):
                lvalue(sub[0], 'W', acc)
            walk(sub[1], 'R', acc)
            walk(sub[2], 'R', acc)
        elif st in ('return', 'set_return_value'):
            tmp = []
            for s in sub:
                walk(s, 'R', tmp)
            acc += [('T' if c == 'A' else c, s) for c, s in tmp]
        elif iid == 'OTHER' and st not in OTHER_READS_ONLY:
            tmp = []
            for s in sub:
                walk(s, 'R', tmp)
            acc += [('W', s) for c, s in tmp]
        else:
            for s in sub:
                walk(s, 'R', acc)
    return acc


# ------------------------------------------------------------------------------------------
# scanning one translation unit
# ------------------------------------------------------------------------------------------
def rel_file(path, repo_real, scratch_real):
    """repo-relative name of a source file, or None when the file is not part of the library tree."""
    if not path or path.startswith('<'):
        return None
    rp = os.path.realpath(path)
    if rp.startswith(repo_real + os.sep):
        return os.path.relpath(rp, repo_real)
    if scratch_real and rp == os.path.join(scratch_real, 'zck.h'):
        return 'include/zck.h.in'
    return None


def scan_tu(tu_rel, gb, repo_real, scratch_real):
    """Returns dict with objects (static-lifetime objects defined in library files) and accesses."""
    symp = goto_json(gb, 'symbol-table')
    st = load_section(symp, 'symbolTable')
    os.unlink(symp)
    n_symbols = len(st)
    objects = {}          # identifier -> record
    externs = set()       # static-lifetime objects only declared here (defined in another translation unit)
    skipped = {'function': 0, 'type': 0, 'cprover_internal': 0, 'extern_declaration': 0,
               'not_static_lifetime': 0, 'outside_library': 0, 'macro_or_other': 0}
    for name, s in st.items():
        t = s.get('type', {})
        if s.get('isType'):
            skipped['type'] += 1
            continue
        if t.get('id') == 'code':
            skipped['function'] += 1
            continue
        if not s.get('isStaticLifetime'):
            skipped['not_static_lifetime'] += 1
            continue
        if name.startswith('__CPROVER') or s.get('baseName', '').startswith('__CPROVER'):
            skipped['cprover_internal'] += 1
            continue
        if s.get('isMacro') or not s.get('isLvalue', True):
            skipped['macro_or_other'] += 1
            continue
        loc = s.get('location', {})
        rf = rel_file(loc.get('file'), repo_real, scratch_real)
        if s.get('isExtern'):
            # accesses through an extern declaration are attributed to the defining translation unit's
            # object (external linkage: one object per name in the whole library) by build_obligations
            externs.add(name)
            skipped['extern_declaration'] += 1
            continue
        if rf is None:
            skipped['outside_library'] += 1
            continue
        const = type_is_const(t)
        val = s.get('value', {})
        objects[name] = {
            'symbol': name, 'base': s.get('baseName', name), 'file': rf, 'line': loc.get('line'),
            'function': loc.get('function'), 'type': s.get('prettyType'), 'const': const,
            'thread_local': bool(s.get('isThreadLocal')), 'file_local': bool(s.get('isFileLocal')),
            'volatile': bool(s.get('isVolatile')), 'size': type_size_bytes(t), 'tu': tu_rel,
            '_value': val if isinstance(val, dict) else {},
        }
    # pointers to static objects stored in static initialisers (e.g. `static char *p = buf;`)
    init_escapes = []
    for name, o in objects.items():
        v = o.pop('_value')
        if v and v.get('id') not in (None, 'nil'):
            txt_has = 'address_of' in json.dumps(v) if o['size'] is None or o['size'] < (1 << 20) else True
            if txt_has:
                acc = []
                walk(v, 'R', acc)
                for c, ident in acc:
                    if c == 'A' and ident in objects:
                        init_escapes.append((name, ident))
    del st

    fnp = goto_json(gb, 'goto-functions')
    fns = load_section(fnp, 'functions')
    os.unlink(fnp)
    accesses = []        # (function, identifier, kind, file, line, text)
    n_fn = n_fn_lib = n_ins = 0
    fn_names = []
    for f in fns:
        if not f.get('isBodyAvailable') or not f.get('instructions'):
            continue
        fname = f['name']
        if fname.startswith('__CPROVER'):
            continue
        n_fn += 1
        in_lib = False
        for ins in f['instructions']:
            n_ins += 1
            sl = ins.get('sourceLocation', {})
            if not in_lib and rel_file(sl.get('file'), repo_real, scratch_real):
                in_lib = True
            for kind, ident in instruction_accesses(ins):
                if ident in objects or ident in externs:
                    accesses.append({'function': fname, 'symbol': ident, 'kind': kind,
                                     'file': rel_file(sl.get('file'), repo_real, scratch_real) or sl.get('file'),
                                     'line': sl.get('line'),
                                     'text': ' '.join((ins.get('instruction') or '').split())[:400]})
        if in_lib:
            n_fn_lib += 1
            fn_names.append(fname)
    for holder, ident in init_escapes:
        accesses.append({'function': '<static initializer of %s>' % holder, 'symbol': ident, 'kind': 'A',
                         'file': objects[holder]['file'], 'line': objects[holder]['line'],
                         'text': 'initial value of %s holds address_of(%s)' % (holder, ident)})
    return {'tu': tu_rel, 'objects': objects, 'externs': externs, 'accesses': accesses, 'symbols_scanned': n_symbols,
            'functions_scanned': n_fn, 'library_functions_scanned': n_fn_lib,
            'instructions_scanned': n_ins, 'skipped': skipped, 'function_names': fn_names}


# ------------------------------------------------------------------------------------------
# whole-library scan -> obligations
# ------------------------------------------------------------------------------------------
def scan_library(repo, scratch, notes):
    repo_real = os.path.realpath(repo)
    scratch_real = os.path.realpath(scratch)
    make_zck_h(repo, scratch)
    configs = [('bundled-sha', CFLAGS, meson_sources(repo, False, notes))]
    if have_openssl_headers():
        configs.append(('openssl', CFLAGS + ['-DZCHUNK_OPENSSL'], meson_sources(repo, True, notes)))
    else:
        notes.append('OpenSSL headers not installed: only the bundled-SHA configuration of the hash back end is scanned (hash/openssl/openssl.c not compiled)')
    # every .c file below src/lib that no configuration compiles (apart from win32) is reported
    compiled = set(f for _, _, fl in configs for f in fl)
    for root, _, files in os.walk(os.path.join(repo, 'src/lib')):
        for fn in files:
            rel = os.path.relpath(os.path.join(root, fn), repo)
            if fn.endswith('.c') and rel not in compiled and '/win32/' not in rel:
                notes.append('source file %s is not named by any meson.build file list: not scanned' % rel)
    incs = [scratch, os.path.join(repo, 'src/lib'), os.path.join(repo, 'include')]
    work = []
    for cname, flags, files in configs:
        if not files:
            raise Undecided('meson.build parse produced no source files for configuration %s' % cname)
        for f in files:
            work.append((cname, flags, f))
    cmds = []

    def one(w):
        cname, flags, f = w
        gb = os.path.join(scratch, cname + '.' + f.replace('/', '_') + '.gb')
        cmd = compile_tu(os.path.join(repo_real, f), gb, incs, flags)
        r = scan_tu(f, gb, repo_real, scratch_real)
        r['config'] = cname
        r['cmd'] = cmd
        os.unlink(gb)
        return r
    with ThreadPoolExecutor(max_workers=jobs()) as pool:
        results = list(pool.map(one, work))
    return configs, results


def build_obligations(results):
    """Merge the per-TU scans (several configurations) into objects and obligations."""
    objects = {}      # (file, symbol) -> record (+ accesses)
    for r in results:
        for ident, o in r['objects'].items():
            k = (o['file'], ident)
            if k not in objects:
                objects[k] = dict(o)
                objects[k]['configs'] = set()
                objects[k]['tus'] = set()
                objects[k]['accesses'] = {}
            else:
                # the same object seen in another configuration / TU: keep the weaker classification
                objects[k]['const'] = objects[k]['const'] and o['const']
                objects[k]['thread_local'] = objects[k]['thread_local'] and o['thread_local']
                objects[k]['file_local'] = objects[k]['file_local'] and o['file_local']
            objects[k]['configs'].add(r['config'])
            objects[k]['tus'].add(r['tu'])
    # external-linkage objects: one per name in the whole library
    global_defs = {}
    for k, o in objects.items():
        if not o['file_local']:
            global_defs.setdefault(k[1], k)
    for r in results:
        for a in r['accesses']:
            if a['symbol'] in r['objects']:
                k = (r['objects'][a['symbol']]['file'], a['symbol'])
            elif a['symbol'] in global_defs:
                k = global_defs[a['symbol']]          # access through an extern declaration
            else:
                continue                              # extern object of libc etc.: not library-owned
            ak = (a['function'], a['kind'], a['file'], a['line'], a['text'])
            objects[k]['accesses'].setdefault(ak, dict(a, tu=r['tu']))
    obligations = []
    for k in sorted(objects):
        o = objects[k]
        acc = list(o['accesses'].values())
        writers = sorted(set(a['function'] for a in acc if a['kind'] == 'W'))
        leakers = sorted(set(a['function'] for a in acc if a['kind'] in ('A', 'T')))
        readers = sorted(set(a['function'] for a in acc if a['kind'] == 'R'))
        o['writers'], o['leakers'], o['readers'] = writers, leakers, readers
        key = 'C19.static_mutable_object:%s:%s' % (o['file'], o['symbol'])
        if o['const']:
            cls, ok = 'const-qualified', True
        elif o['thread_local']:
            cls, ok = 'thread-local', True
        elif k in ALLOW_OBJECTS:
            cls, ok = 'allow-listed logging variable', True
        elif o['file_local'] and not writers and not leakers:
            cls, ok = 'effectively read-only (internal linkage, no assignment and no address-of in its translation unit)', True
        elif not writers and not leakers:
            cls, ok = 'effectively read-only (external linkage, no assignment and no address-of in any translation unit of the library)', True
        else:
            cls, ok = 'static mutable object', False
        o['class'] = cls
        obligations.append({'key': key, 'set': 'A', 'object': k, 'status': 'SUCCESS' if ok else 'FAILURE',
                            'reason': cls, 'sites': []})
    # set B: (function, object, kind) pairs on non-const objects
    pairs = {}
    for k in sorted(objects):
        o = objects[k]
        if o['const'] or o['thread_local']:
            continue
        for a in o['accesses'].values():
            if a['kind'] == 'R':
                continue
            kind = 'static_written' if a['kind'] == 'W' else 'static_address_escapes'
            pk = (kind, a['function'], k)
            pairs.setdefault(pk, []).append(a)
    # disambiguate keys only if two different objects/functions would share one
    names = {}
    for (kind, fn, k) in pairs:
        names.setdefault((kind, fn, k[1]), set()).add(k[0])
    for (kind, fn, k) in sorted(pairs):
        sym = k[1] if len(names[(kind, fn, k[1])]) == 1 else '%s@%s' % (k[1], k[0])
        key = 'C19.%s:%s:%s' % (kind, fn, sym)
        allowed = kind == 'static_written' and (fn, k[0], k[1]) in ALLOW_WRITERS
        sites = sorted(pairs[(kind, fn, k)], key=lambda a: (a['file'] or '', int(a['line'] or 0)))
        how = 'returns a pointer to it' if any(a['kind'] == 'T' for a in sites) and kind != 'static_written' else ''
        obligations.append({'key': key, 'set': 'B', 'object': k, 'function': fn,
                            'status': 'SUCCESS' if allowed else 'FAILURE',
                            'reason': 'allow-listed logging setter' if allowed else
                                      ('function assigns to a static object' if kind == 'static_written' else
                                       'function takes the address of a static object (' + (how or 'passes/stores a pointer to it') + ')'),
                            'sites': sites})
    return objects, obligations


# ------------------------------------------------------------------------------------------
# native two-thread demonstration (ThreadSanitizer)
# ------------------------------------------------------------------------------------------
def run_tsan_scenario(repo, tier):
    """Build replay/scenarios/c19_two_threads.c with the real library sources under
    -fsanitize=thread and run it.  Returns dict(built, cmd, rc, stdout, reports[list of text blocks])."""
    res = {'built': False, 'reports': [], 'stdout': '', 'cmd': '', 'rc': None, 'why': ''}
    if not os.path.exists(SCENARIO):
        res['why'] = 'scenario source missing'
        return res
    scratch = tempfile.mkdtemp(prefix='zc19tsan.')
    try:
        make_zck_h(repo, scratch)
        srcs = [os.path.join(os.path.realpath(repo), f) for f in meson_sources(repo, False, [])]
        exe = os.path.join(scratch, 'c19_two_threads')
        cmd = ['gcc', '-g', '-O1', '-fsanitize=thread', '-fno-omit-frame-pointer', '-w'] + CFLAGS + \
              ['-I' + scratch, '-I' + os.path.join(repo, 'src/lib'), SCENARIO] + srcs + ['-o', exe, '-lzstd', '-lpthread']
        res['cmd'] = ' '.join(cmd)
        rc, out, err = run(cmd, cwd=scratch, timeout=600)
        if rc != 0:
            res['why'] = 'build failed: ' + (out + err)[-2000:]
            return res
        res['built'] = True
        wd = os.path.join(scratch, 'files')
        os.makedirs(wd)
        rounds = '12' if tier == 'thorough' else '4'
        env = dict(os.environ, TSAN_OPTIONS='halt_on_error=0 exitcode=66 second_deadlock_stack=0')
        rc, out, err = run([exe, wd, '2', rounds], cwd=scratch, timeout=600, env=env)
        res['run'] = '%s <tmpdir> 2 %s' % (os.path.basename(exe), rounds)
        res['rc'] = rc
        res['stdout'] = out
        blocks = re.findall(r'WARNING: ThreadSanitizer: data race.*?SUMMARY: ThreadSanitizer:[^\n]*', err, flags=re.S)
        res['reports'] = blocks
        res['stderr_tail'] = err[-1500:] if not blocks else ''
        # the same program without instrumentation (-O2, as the real build), 4 threads: does the
        # interference change RESULTS (bytes in the target files, error texts) compared with serial?
        exe2 = os.path.join(scratch, 'c19_two_threads_plain')
        cmd2 = ['gcc', '-g', '-O2', '-w'] + CFLAGS + ['-I' + scratch, '-I' + os.path.join(repo, 'src/lib'), SCENARIO] + srcs + \
               ['-o', exe2, '-lzstd', '-lpthread']
        rc2, out2, err2 = run(cmd2, cwd=scratch, timeout=600)
        if rc2 == 0:
            wd2 = os.path.join(scratch, 'files2')
            os.makedirs(wd2)
            rc2, out2, err2 = run([exe2, wd2, '4', '40' if tier == 'thorough' else '20'], cwd=scratch, timeout=600)
            res['plain'] = {'cmd': ' '.join(cmd2), 'run': '%s <tmpdir> 4 %s' % (os.path.basename(exe2), '40' if tier == 'thorough' else '20'),
                            'rc': rc2, 'stdout': out2}
        return res
    finally:
        shutil.rmtree(scratch, ignore_errors=True)


def report_matches_object(block, o):
    """Does this TSan report name the static object o (global of that name [and size] touched in a
    frame of one of the functions the scan lists for it)?"""
    m = re.search(r"Location is global '([^']+)' of size (\d+)", block)
    if not m:
        return False
    g = re.sub(r'\.\d+$', '', m.group(1))       # function-local statics are emitted as name.N
    if g != o['base']:
        return False
    if o.get('size') is not None and int(m.group(2)) != o['size']:
        return False
    fns = set(o['writers']) | set(o['leakers']) | set(o['readers'])
    frames = set(re.findall(r'#\d+ (\S+) ', block))
    return bool(fns & frames) or os.path.basename(o['file']) in block


def library_frame_summary(block):
    m = re.search(r'SUMMARY: ThreadSanitizer: data race (\S+) in (\S+)', block)
    return '%s in %s' % (m.group(1), m.group(2)) if m else 'unknown location'


# ------------------------------------------------------------------------------------------
# advisory: calls to non-reentrant libc functions (thorough tier)
# ------------------------------------------------------------------------------------------
def advisory_scan(repo, scratch, files):
    adv, tools = [], []
    flags = CFLAGS + ['-I' + scratch, '-I' + os.path.join(repo, 'src/lib')]
    srcs = [os.path.join(repo, f) for f in files]
    if shutil.which('clang-tidy'):
        tools.append('clang-tidy -checks=-*,concurrency-mt-unsafe')
        rc, out, err = run(['clang-tidy', '-checks=-*,concurrency-mt-unsafe', '--quiet'] + srcs + ['--'] + flags, timeout=900)
        lines = out.splitlines()
        seen = set()
        for i, l in enumerate(lines):
            m = re.match(r'(\S+):(\d+):(\d+): warning: function is not thread safe \[concurrency-mt-unsafe\]', l)
            if not m:
                continue
            # the callee is named by the innermost expansion note (macro definition) or the line itself
            callee, j = None, i + 1
            srcline, col = (lines[i + 1] if i + 1 < len(lines) else ''), int(m.group(3))
            mm = re.match(r'\w+', srcline[col - 1:])
            callee = mm.group(0) if mm else '?'
            while j < len(lines) and not re.match(r'\S+:\d+:\d+: warning:', lines[j]):
                n = re.match(r'(\S+):(\d+):(\d+): note: expanded from macro', lines[j])
                if n and j + 1 < len(lines):
                    mm = re.match(r'\w+', lines[j + 1][int(n.group(3)) - 1:])
                    if mm:
                        callee = mm.group(0)
                j += 1
            f = os.path.relpath(os.path.realpath(m.group(1)), os.path.realpath(repo))
            k = (f, m.group(2), callee)
            if k not in seen and not f.startswith('..'):
                seen.add(k)
                adv.append({'tool': 'clang-tidy concurrency-mt-unsafe', 'file': f, 'line': int(m.group(2)), 'callee': callee,
                            'message': 'call to a function that is not thread safe'})
    if shutil.which('cppcheck'):
        tools.append('cppcheck --enable=all')
        rc, out, err = run(['cppcheck', '--enable=all', '--inconclusive', '--quiet', '--template={file}:{line}:{id}:{message}',
                            '-DZCHUNK_ZSTD', '-D_FILE_OFFSET_BITS=64', '-I' + scratch, '-I' + os.path.join(repo, 'src/lib'),
                            '--suppress=missingIncludeSystem'] + srcs, timeout=900)
        nmsg = 0
        for l in (out + err).splitlines():
            m = re.match(r'(\S+?):(\d+):(\w+):(.*)$', l)
            if not m:
                continue
            nmsg += 1
            if re.search(r'reentrant|thread', m.group(3) + m.group(4), flags=re.I):
                f = os.path.relpath(os.path.realpath(m.group(1)), os.path.realpath(repo))
                adv.append({'tool': 'cppcheck', 'file': f, 'line': int(m.group(2)), 'callee': '', 'message': '%s: %s' % (m.group(3), m.group(4).strip())})
        tools.append('cppcheck messages total (all ids): %d' % nmsg)
    return adv, tools


# ------------------------------------------------------------------------------------------
# replay file
# ------------------------------------------------------------------------------------------
def source_line(repo, rel, line):
    try:
        return open(os.path.join(repo, rel)).read().splitlines()[int(line) - 1].rstrip()
    except Exception:
        return ''


def write_replay(repo, o, obls, tsan, tier):
    os.makedirs(os.path.join(EVID, 'replay'), exist_ok=True)
    h = hashlib.sha1(('|'.join(sorted(x['key'] for x in obls))).encode()).hexdigest()[:10]
    path = os.path.join(EVID, 'replay', '%s-%s.txt' % (PID, h))
    mine = [b for b in tsan.get('reports', []) if report_matches_object(b, o)] if tsan else []
    with open(path, 'w') as f:
        f.write('property: %s\n' % PID)
        f.write('static object: %s   type %s   defined at %s:%s%s\n' % (
            o['symbol'], o['type'], o['file'], o['line'], (' in function ' + o['function']) if o.get('function') else ''))
        f.write('declaration: %s\n' % source_line(repo, o['file'], o['line']).strip())
        f.write('scanned in translation units: %s (configurations: %s)\n' % (', '.join(sorted(o['tus'])), ', '.join(sorted(o['configs']))))
        f.write('failed obligations:\n')
        for x in obls:
            f.write('  %s   [%s]\n' % (x['key'], x['reason']))
        f.write('\nwhy this matters: the object has static lifetime, so every context in the process uses the same\n'
                'storage; a function that writes it or passes its address on, called for two independent contexts\n'
                'from two threads, accesses the same bytes without synchronisation.\n')
        f.write('\n--- goto-program instructions that write the object or take its address (goto-instrument --show-goto-functions) ---\n')
        for x in obls:
            for s in x.get('sites', []):
                f.write('  [%s] %s:%s in %s\n      %s\n' % ({'W': 'assigns', 'A': 'address taken', 'T': 'address returned'}.get(s['kind'], s['kind']),
                                                        s['file'], s['line'], s['function'], s['text']))
                sl = source_line(repo, s['file'], s['line']) if s.get('file') else ''
                if sl:
                    f.write('      source: %s\n' % sl.strip())
        f.write('  readers (not obligations): %s\n' % (', '.join(o['readers']) or '-'))
        f.write('\n--- native demonstration: replay/scenarios/c19_two_threads.c, real library sources, gcc -fsanitize=thread ---\n')
        if not tsan:
            f.write('not run\n')
        elif not tsan.get('built'):
            f.write('scenario not built: %s\n' % tsan.get('why'))
        else:
            f.write('build: %s\nrun: %s   exit status %s\n' % (tsan['cmd'], tsan.get('run'), tsan['rc']))
            f.write('ThreadSanitizer data-race reports in this run: %d, of which naming this object: %d\n' % (len(tsan['reports']), len(mine)))
            f.write('replay against real code: %s\n\n' % ('REPRODUCED (data race on this object between two threads that use only their own contexts)' if mine else 'no-failing-input-found'))
            for b in mine[:2]:
                f.write(b + '\n\n')
            if len(mine) > 2:
                f.write('... %d further reports for this object omitted\n\n' % (len(mine) - 2))
            f.write('--- scenario stdout (results compared with the serial run of the same work; first 16 lines) ---\n')
            f.write('\n'.join(tsan['stdout'].splitlines()[:16]) + '\n')
            last = tsan['stdout'].strip().splitlines()[-1:]
            if last:
                f.write('...\n%s\n' % last[0])
            pl = tsan.get('plain')
            if pl:
                lines = pl['stdout'].splitlines()
                fns = set(o['writers']) | set(o['leakers'])
                # result differences attributable to this object: phase B = chunk copy buffer, phase C = name buffers
                phase = 'phase B' if 'write_and_verify_chunk' in fns else ('phase C' if fns & {'zck_hash_name_from_type', 'zck_comp_name_from_type'} else None)
                rel = [l for l in lines if l.startswith('MISMATCH') and (phase is None or phase in l)]
                if phase == 'phase C':
                    which = 'hash' if 'zck_hash_name_from_type' in fns else 'comp'
                    rel = [l for l in rel if ('zck_%s_name_from_type' % which) in l or ('hash type' in l if which == 'hash' else 'compression type' in l)]
                f.write('\n--- same program WITHOUT sanitizer (-O2), 4 threads: results compared with the serial run ---\n')
                f.write('run: %s   exit status %s\n' % (pl['run'], pl['rc']))
                f.write('result differences attributable to this object: %d\n' % len(rel))
                for l in rel[:12]:
                    f.write('  ' + l + '\n')
                f.write('%s\n%s\n' % (lines[0] if lines else '', lines[-1] if lines else ''))
    return path, bool(mine)


# ------------------------------------------------------------------------------------------
# the check
# ------------------------------------------------------------------------------------------
def load_known():
    if not os.path.exists(KNOWN):
        return []
    return [k for k in json.load(open(KNOWN)).get('findings', []) if k.get('property') == PID]


def jsonable_object(o):
    return {'symbol': o['symbol'], 'file': o['file'], 'line': o['line'], 'type': o['type'], 'class': o['class'],
            'writers': o['writers'], 'address_taken_in': o['leakers'], 'readers': o['readers'],
            'translation_units': sorted(o['tus']), 'configurations': sorted(o['configs'])}


def check_c19(tier='quick'):
    t0 = time.time()
    notes = []
    scratch = tempfile.mkdtemp(prefix='zc19.')
    try:
        try:
            configs, results = scan_library(REPO, scratch, notes)
            objects, obligations = build_obligations(results)
        except Undecided as e:
            print('UNDECIDED property=%s %s' % (PID, ' '.join(str(e).split())[:900]))
            return 2
        n_symbols = sum(r['symbols_scanned'] for r in results)
        n_fn = sum(r['functions_scanned'] for r in results)
        n_fn_lib = sum(r['library_functions_scanned'] for r in results)
        n_ins = sum(r['instructions_scanned'] for r in results)
        lib_fn_names = sorted(set(n for r in results for n in r['function_names']))
        for n in notes:
            log('[%s] note: %s' % (PID, n))
        log('[%s] %d translation units (%s), %d symbols, %d functions with bodies (%d defined in library files, %d distinct), %d instructions, %d static objects' % (
            PID, len(results), ', '.join('%s: %d files' % (c[0], len(c[2])) for c in configs), n_symbols, n_fn, n_fn_lib, len(lib_fn_names), n_ins, len(objects)))

        # ---- vacuity guards
        vac = []
        if n_symbols <= 0:
            vac.append('no symbols scanned')
        if n_fn_lib <= 0 or n_ins <= 0:
            vac.append('no library functions scanned')
        for k in ALLOW_OBJECTS:
            if k not in objects:
                vac.append('allow-listed logging variable %s:%s not found by the symbol scan' % k)
            elif objects[k]['const']:
                vac.append('allow-listed logging variable %s:%s classified const' % k)
        for (fn, f, s) in ALLOW_WRITERS:
            if (f, s) in objects and fn not in objects[(f, s)]['writers']:
                vac.append('the scan does not see %s assigning %s (writer detection broken?)' % (fn, s))
        for k in ALLOW_OBJECTS:
            if k in objects and not objects[k]['readers']:
                vac.append('the scan sees no reader of %s (reference detection broken?)' % k[1])
        if vac:
            print('UNDECIDED property=%s vacuity guard: %s' % (PID, '; '.join(vac)))
            return 2

        known = load_known()
        failed = [x for x in obligations if x['status'] == 'FAILURE']
        known_hits, viol = [], []
        for x in failed:
            kf = [k for k in known if k.get('status') == 'known' and k.get('key') == x['key']]
            (known_hits if kf else viol).append((x, kf[0] if kf else None))

        # ---- native demonstration (needed for violations; in the thorough tier always, as a cross-check)
        tsan = None
        if viol or tier == 'thorough':
            log('[%s] building and running the two-thread ThreadSanitizer scenario' % PID)
            tsan = run_tsan_scenario(REPO, tier)
            log('[%s] scenario: built=%s rc=%s reports=%d %s' % (PID, tsan['built'], tsan['rc'], len(tsan['reports']), tsan.get('why', '')[:300]))
        # races TSan sees that the static scan does not explain (heap shared between contexts, scan miss):
        # obligations of their own in the thorough tier
        unexplained = []
        if tsan and tsan.get('reports'):
            flagged = [objects[x['object']] for x in failed] + [objects[k] for k in ALLOW_OBJECTS if k in objects]
            seen = set()
            for b in tsan['reports']:
                if any(report_matches_object(b, o) for o in flagged):
                    continue
                s = library_frame_summary(b)
                if s not in seen:
                    seen.add(s)
                    unexplained.append((s, b))
        for s, b in unexplained:
            x = {'key': 'C19.tsan_race_not_on_a_flagged_static:%s' % s.replace(' ', '_'), 'set': 'T', 'object': None,
                 'status': 'FAILURE', 'reason': 'ThreadSanitizer reports a race between two threads using independent contexts that the static scan does not account for',
                 'sites': [], 'tsan_block': b}
            obligations.append(x)
            kf = [k for k in known if k.get('status') == 'known' and k.get('key') == x['key']]
            (known_hits if kf else viol).append((x, kf[0] if kf else None))

        rc = 0
        for x, k in known_hits:
            print('KNOWN-FINDING: property=%s %s [%s]' % (PID, k.get('what', x['key']), x['key']))
        # one replay file / VIOLATION line per object (its obligations are listed in the file)
        groups = {}
        for x, _ in viol:
            groups.setdefault(x['object'] or x['key'], []).append(x)
        nviol = 0
        replay_paths = []
        for g in sorted(groups, key=str):
            xs = groups[g]
            for x in xs:
                print('FAILED-OBLIGATION property=%s obligation=%s' % (PID, x['key']))
            if xs[0]['object'] is not None:
                path, reproduced = write_replay(REPO, objects[g], xs, tsan, tier)
            else:
                os.makedirs(os.path.join(EVID, 'replay'), exist_ok=True)
                path = os.path.join(EVID, 'replay', '%s-%s.txt' % (PID, hashlib.sha1(xs[0]['key'].encode()).hexdigest()[:10]))
                open(path, 'w').write('property: %s\nfailed obligation: %s\n%s\n\nbuild: %s\nrun: %s\n\n%s\n' % (
                    PID, xs[0]['key'], xs[0]['reason'], tsan['cmd'], tsan.get('run'), xs[0]['tsan_block']))
                reproduced = True
            nviol += len(xs)
            replay_paths.append(path)
            print('VIOLATION property=%s replay=%s%s' % (PID, path, '' if reproduced else ' no-failing-input-found'))
            rc = 1

        # ---- advisory (thorough): non-reentrant libc calls
        advisory, adv_tools = [], []
        if tier == 'thorough':
            files = sorted(set(f for c in configs for f in c[2] if c[0] == 'bundled-sha' or 'openssl' in f))
            files = [f for f in files if 'openssl' not in f or have_openssl_headers()]
            advisory, adv_tools = advisory_scan(REPO, scratch, files)
            for a in advisory:
                print('ADVISORY property=%s %s:%s %s %s (%s)' % (PID, a['file'], a['line'], a['callee'], a['message'], a['tool']))
        ro = [o for o in objects.values() if o['class'].startswith('effectively read-only')]
        for o in sorted(ro, key=lambda o: (o['file'], o['symbol'])):
            advisory.append({'tool': 'symtab', 'file': o['file'], 'line': int(o['line'] or 0), 'callee': '',
                             'message': 'static object %s (%s) is not const-qualified but is never written and its address is never taken: could be declared const' % (o['symbol'], o['type'])})

        # ---- evidence
        n_ok = sum(1 for x in obligations if x['status'] == 'SUCCESS')
        by_class = {}
        for o in objects.values():
            by_class[o['class']] = by_class.get(o['class'], 0) + 1
        samples = []
        for x in obligations:
            if x['status'] == 'FAILURE' or x['set'] == 'B' or (x['object'] and not objects[x['object']]['const']):
                s = {'obligation': x['key'], 'status': x['status'], 'reason': x['reason']}
                if x.get('sites'):
                    s['goto_instructions'] = [{'at': '%s:%s' % (a['file'], a['line']), 'kind': a['kind'], 'text': a['text'][:240]} for a in x['sites'][:3]]
                samples.append(s)
        samples += [{'obligation': x['key'], 'status': x['status'], 'reason': x['reason']} for x in obligations
                    if x['set'] == 'A' and x['object'] and objects[x['object']]['const']][:5]
        skipped = {}
        for r in results:
            for k, v in r['skipped'].items():
                skipped[k] = skipped.get(k, 0) + v
        cov = {
            'explanation': 'Static frame/ownership analysis, not a thread exploration: CBMC has no threads. Every library translation unit the real '
                           'build compiles (file lists parsed from src/lib/**/meson.build; win32 skipped) is compiled on this run with goto-cc from the '
                           'current working tree with the real flags; the symbol table of every goto binary is enumerated for static-lifetime objects '
                           '(set A) and every instruction of every function body is walked for assignments to, and address-of on, those objects (set B). '
                           'Decided: the only static mutable memory the library writes or hands out pointers to is the logging configuration, written only '
                           'by the three logging setters; hence operations on distinct contexts share no library-owned static memory. NOT decided here: '
                           'interleavings, heap sharing between contexts (decided by the assigns clauses of the contract units of the other properties), '
                           'thread-safety of libc/zstd/OpenSSL. The two-thread ThreadSanitizer scenario is a demonstration for failed obligations '
                           '(and a cross-check in the thorough tier), not the deciding argument.',
            'obligations': len(obligations), 'discharged': n_ok,
            'checker_cmd': 'goto-cc %s -I<scratch with generated zck.h> -I%s/src/lib -c <each file> ; goto-instrument --show-symbol-table --json-ui ; goto-instrument --show-goto-functions --json-ui ; engine/symtab.py (enumeration)' % (' '.join(CFLAGS), REPO),
            'trusted_base': [
                'CBMC 6.11 front end (goto-cc): the symbol table and goto program it produces contain every static object and every assignment / address-of of the C source',
                'engine/symtab.py expression walker (self-test: symtab.py --selftest)',
                'meson.build file lists parsed by a small evaluator (zstd found, host linux; both hash back ends scanned when OpenSSL headers are installed)',
                'a const-qualified object is not written (writing one through a cast is undefined behaviour and is not looked for)',
                'static objects of libc, zstd and OpenSSL are outside the scan (thorough tier lists calls to non-reentrant libc functions as advisory)',
            ],
            'exhaustive': True,
            'translation_units': sorted(set(r['tu'] for r in results)),
            'configurations': [{'name': c[0], 'flags': ' '.join(c[1]), 'files': len(c[2])} for c in configs],
            'symbols_scanned': n_symbols, 'functions_scanned': n_fn, 'library_functions_scanned': len(lib_fn_names),
            'instructions_scanned': n_ins,
            'symbols_not_objects_of_the_library': skipped,
            'static_objects': len(objects), 'static_objects_by_class': by_class,
            'obligations_set_A_objects': sum(1 for x in obligations if x['set'] == 'A'),
            'obligations_set_B_function_object_pairs': sum(1 for x in obligations if x['set'] == 'B'),
            'non_const_static_objects': [jsonable_object(o) for o in sorted(objects.values(), key=lambda o: (o['file'], o['symbol'])) if not o['const']],
            'allow_list': {'objects': ['%s:%s' % k for k in sorted(ALLOW_OBJECTS)], 'writers': ['%s -> %s:%s' % w for w in sorted(ALLOW_WRITERS)]},
            'failed_obligations': [x['key'] for x in failed] + [x['key'] for x in obligations if x['set'] == 'T'],
            'known_findings_open': [{'key': x['key'], 'what': k.get('what')} for x, k in known_hits],
            'samples': samples[:60],
            'advisory': advisory, 'advisory_tools': adv_tools,
            'notes': notes,
        }
        if tsan:
            per_loc = {}
            for b in tsan.get('reports', []):
                s = library_frame_summary(b)
                per_loc[s] = per_loc.get(s, 0) + 1
            cov['tsan_scenario'] = {'source': 'replay/scenarios/c19_two_threads.c', 'built': tsan['built'], 'exit_status': tsan['rc'],
                                    'data_race_reports': len(tsan.get('reports', [])), 'reports_by_location': per_loc,
                                    'stdout_last_line': (tsan.get('stdout', '').strip().splitlines() or [''])[-1],
                                    'uninstrumented_4_threads_last_line': ((tsan.get('plain') or {}).get('stdout', '').strip().splitlines() or [''])[-1],
                                    'why_not_built': tsan.get('why', '')[:500]}
        assumptions = [
            'logging settings (zck_set_log_level / zck_set_log_fd / zck_set_log_callback) are set once before the threads start (property text)',
            'libc malloc/free, read/write/lseek on distinct descriptors, zstd contexts and OpenSSL EVP contexts are thread-safe when used on distinct objects',
            'no happens-before analysis: "same results as serial" is deduced from disjoint footprints, not observed',
            'heap disjointness between contexts is decided by the assigns clauses of the other properties\' contract units, not by this check',
        ]
        ev = {'property_id': PID, 'tier': tier, 'seed': int(os.environ.get('VERIF_SEED', '0') or 0), 'level': 'other',
              'coverage': cov, 'assumptions': assumptions, 'wall_s': round(time.time() - t0, 2), 'violations': nviol}
        os.makedirs(EVID, exist_ok=True)
        json.dump(ev, open(os.path.join(EVID, PID + '.json'), 'w'), indent=1)
        if rc == 0:
            print('OK property=%s tier=%s obligations=%d/%d static-objects=%d functions=%d known-findings=%d wall=%.0fs' % (
                PID, tier, n_ok, len(obligations), len(objects), len(lib_fn_names), len(known_hits), time.time() - t0))
        return rc
    finally:
        shutil.rmtree(scratch, ignore_errors=True)


# ------------------------------------------------------------------------------------------
# self-test: the scanner must flag a known static buffer + writer and nothing else
# ------------------------------------------------------------------------------------------
SELFTEST_C = r'''
#include <string.h>
static char sbuf[16];
static const char ctab[4] = {1, 2, 3, 4};
static int counter;
static const char *names[] = {"a", "b"};
const static char *const cnames[] = {"c", "d"};
__thread int tl;
int exported_global;
struct S { int a[4]; char name[8]; };
static struct S s;
static char *alias = sbuf;
void writer(int i) { sbuf[i] = 1; }
char *leak(void) { return sbuf; }
void decay(char *d) { memcpy(d, sbuf, 4); }
int reader(void) { return counter + ctab[1] + sbuf[2] + s.a[1]; }
const char *name(int i) { return names[i]; }
const char *cname(int i) { return cnames[i]; }
void bump(void) { counter++; }
int local(void) { static int calls; calls++; return calls; }
void ws(int v) { s.a[2] = v; }
void wtl(void) { tl = 1; }
char *member_ptr(void) { return &s.name[1]; }
void through_pointer(char *p) { *p = 1; }
int *stored(void) { int *p = &exported_global; return p; }
const char *literal(void) { return "string literal"; }
char via_alias(void) { return alias[0]; }
'''
SELFTEST_EXPECT_OBJECTS = {
    'sbuf': 'static mutable object', 'ctab': 'const-qualified', 'counter': 'static mutable object',
    'names': 'effectively read-only', 'cnames': 'const-qualified', 'tl': 'thread-local',
    'exported_global': 'static mutable object', 's': 'static mutable object', 'alias': 'effectively read-only',
    'local::1::calls': 'static mutable object',
}
SELFTEST_EXPECT_PAIRS = {
    ('static_written', 'writer', 'sbuf'), ('static_address_escapes', 'leak', 'sbuf'),
    ('static_address_escapes', 'decay', 'sbuf'), ('static_written', 'bump', 'counter'),
    ('static_written', 'local', 'local::1::calls'), ('static_written', 'ws', 's'),
    ('static_address_escapes', 'member_ptr', 's'), ('static_address_escapes', 'stored', 'exported_global'),
    ('static_address_escapes', '<static initializer of alias>', 'sbuf'),
}


def selftest():
    scratch = tempfile.mkdtemp(prefix='zc19self.')
    try:
        src = os.path.join(scratch, 'selftest.c')
        open(src, 'w').write(SELFTEST_C)
        gb = os.path.join(scratch, 'selftest.gb')
        try:
            compile_tu(src, gb, [], ['-std=gnu11'])
            r = scan_tu('selftest.c', gb, os.path.realpath(scratch), None)
        except Undecided as e:
            print('SELFTEST UNDECIDED %s' % e)
            return 2
        r['config'] = 'selftest'
        objects, obligations = build_obligations([r])
        bad = []
        got_objs = {k[1]: o['class'] for k, o in objects.items()}
        for name, cls in SELFTEST_EXPECT_OBJECTS.items():
            if name not in got_objs:
                bad.append('object %s not found' % name)
            elif not got_objs[name].startswith(cls):
                bad.append('object %s classified "%s", expected "%s"' % (name, got_objs[name], cls))
        for name in got_objs:
            if name not in SELFTEST_EXPECT_OBJECTS:
                bad.append('unexpected object %s (%s)' % (name, got_objs[name]))
        got_pairs = set()
        for x in obligations:
            if x['set'] == 'B':
                kind, fn, sym = x['key'][len('C19.'):].split(':', 2)
                got_pairs.add((kind, fn, sym))
                if x['status'] != 'FAILURE':
                    bad.append('pair %s not flagged' % x['key'])
        for p in SELFTEST_EXPECT_PAIRS - got_pairs:
            bad.append('missed: %s' % (p,))
        for p in got_pairs - SELFTEST_EXPECT_PAIRS:
            bad.append('spurious: %s' % (p,))
        fa = set(x['key'] for x in obligations if x['set'] == 'A' and x['status'] == 'FAILURE')
        want_fa = set('C19.static_mutable_object:selftest.c:%s' % n for n, c in SELFTEST_EXPECT_OBJECTS.items() if c == 'static mutable object')
        if fa != want_fa:
            bad.append('set A failures %s, expected %s' % (sorted(fa), sorted(want_fa)))
        if r['symbols_scanned'] <= 0 or r['library_functions_scanned'] < 15:
            bad.append('scanned %d symbols / %d functions' % (r['symbols_scanned'], r['library_functions_scanned']))
        if bad:
            for b in bad:
                print('SELFTEST FAIL: %s' % b)
            return 1
        print('SELFTEST OK: %d objects classified, %d (function, object) pairs flagged, %d symbols, %d functions, %d instructions' % (
            len(got_objs), len(got_pairs), r['symbols_scanned'], r['library_functions_scanned'], r['instructions_scanned']))
        return 0
    finally:
        shutil.rmtree(scratch, ignore_errors=True)


def list_objects():
    notes = []
    scratch = tempfile.mkdtemp(prefix='zc19.')
    try:
        configs, results = scan_library(REPO, scratch, notes)
        objects, obligations = build_obligations(results)
        for k in sorted(objects):
            o = objects[k]
            print('%-28s %-34s %-22s %s' % (o['file'] + ':' + str(o['line']), o['symbol'], o['type'], o['class']))
            for a in sorted(o['accesses'].values(), key=lambda a: (a['function'], a['kind'])):
                if a['kind'] != 'R' or not o['const']:
                    print('      %s %-28s %s:%s' % (a['kind'], a['function'], a['file'], a['line']))
        for x in obligations:
            if x['status'] == 'FAILURE':
                print('FAILED', x['key'])
        for n in notes:
            print('note:', n)
        return 0
    except Undecided as e:
        print('UNDECIDED', e)
        return 2
    finally:
        shutil.rmtree(scratch, ignore_errors=True)


def main(argv=None):
    ap = argparse.ArgumentParser(description=__doc__.split('\n\n')[0])
    ap.add_argument('cmd', nargs='?', choices=['check', 'list'])
    ap.add_argument('pid', nargs='?', help='ignored (C19)')
    ap.add_argument('--tier', default=os.environ.get('VERIF_TIER', 'quick'), choices=['quick', 'thorough'])
    ap.add_argument('--selftest', action='store_true')
    a = ap.parse_args(argv)
    if a.selftest:
        return selftest()
    if a.cmd == 'check':
        return check_c19(a.tier)
    if a.cmd == 'list':
        return list_objects()
    ap.print_help()
    return 2


if __name__ == '__main__':
    sys.exit(main())
