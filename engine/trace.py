#!/usr/bin/env python3
"""Developer helper: print a readable trace for one failed obligation from a kept cbmc.json.
   trace.py <cbmc.json> [<property-name-substring>] [--all]      (no name: list failed ones)"""
import sys, json, re


def val(v):
    if not isinstance(v, dict):
        return str(v)
    if 'data' in v:
        return str(v['data'])
    if 'members' in v:
        return '{' + ', '.join('%s=%s' % (m['name'], val(m['value'])) for m in v['members'] if not m['name'].startswith('$pad'))[:400] + '}'
    if 'elements' in v:
        return '[' + ', '.join(val(e['value']) for e in v['elements'][:16]) + (' ...' if len(v['elements']) > 16 else '') + ']'
    return v.get('name', '?')


def main():
    data = json.load(open(sys.argv[1]))
    want = sys.argv[2] if len(sys.argv) > 2 and not sys.argv[2].startswith('--') else None
    show_all = '--all' in sys.argv
    for m in data:
        if 'result' not in m:
            continue
        for r in m['result']:
            if r['status'] != 'FAILURE':
                continue
            if not want:
                print(r['property'], '|', r.get('description', '')[:150])
                continue
            if want not in r['property']:
                continue
            print('=== %s: %s' % (r['property'], r.get('description')))
            for st in r.get('trace', []):
                if st.get('hidden') and not show_all:
                    continue
                sl = st.get('sourceLocation', {})
                fn = sl.get('function', '')
                if not show_all and (fn.startswith('__CPROVER') or '<builtin' in sl.get('file', '')):
                    continue
                t = st.get('stepType')
                if t == 'assignment':
                    lhs = st.get('lhs', '')
                    if not show_all and (lhs.startswith('__dfcc') or '__CPROVER' in lhs or lhs.startswith('return_value_nondet') or 'write_set' in lhs):
                        continue
                    print('  %s:%s  %s = %s' % (fn, sl.get('line', ''), lhs, val(st.get('value'))[:300]))
                elif t == 'failure':
                    print('  FAILURE %s:%s %s' % (fn, sl.get('line', ''), st.get('reason')))
                elif t == 'function-call':
                    print('  -> call %s' % st.get('function', {}).get('displayName'))
                elif t == 'function-return':
                    print('  <- ret  %s' % st.get('function', {}).get('displayName'))
            return


main()
