#!/usr/bin/env python3
"""Driver: contract-based deductive verification of zchunk with CBMC (see /verif/DESIGN.md).

  vp.py check <Cxx> [--tier quick|thorough] [--only unit,unit] [--keep]
  vp.py unit <unit-name> [--keep] [--verbose]        developer helper: run one unit, print table
  vp.py list

exit 0: every obligation of the property discharged (or listed KNOWN-FINDING)
exit 1: an obligation failed that known_findings.json does not list  -> VIOLATION line
exit 2: undecided (timeout, OOM, compile/extraction error, vacuity, UNKNOWN obligations)
"""
import sys, os, json, re, subprocess, tempfile, shutil, time, hashlib, argparse, resource
from concurrent.futures import ThreadPoolExecutor

sys.path.insert(0, os.path.dirname(os.path.abspath(__file__)))
import looppatch

VERIF = os.path.dirname(os.path.dirname(os.path.abspath(__file__)))
REPO = os.environ.get('VERIF_REPO', '/repo')
UNITS_DIR = os.path.join(VERIF, 'units')
EVID = os.environ.get('VERIF_EVIDENCE_DIR') or os.path.join(VERIF, 'evidence')
KNOWN = os.path.join(VERIF, 'known_findings.json')

DEFAULT_REPLACE = ['zck_hash_name_from_type', 'zck_comp_name_from_type']
# libc functions whose CBMC loop models are replaced by assumed contracts when the unit includes stubs/libc_mem.h
MEM_REPLACE = ['memcmp', 'strncmp']
BASE_CHECKS = ['--bounds-check', '--pointer-check', '--div-by-zero-check',
               '--signed-overflow-check', '--undefined-shift-check',
               '--pointer-primitive-check']
CFLAGS = ['-std=gnu11', '-D_FILE_OFFSET_BITS=64', '-DZCHUNK_ZSTD', '-DZCHUNK_ZCHUNK_VERIF']


def log(*a):
    print(*a, file=sys.stderr, flush=True)


def load_units():
    units = []
    for fn in sorted(os.listdir(UNITS_DIR)):
        if fn.endswith('.json'):
            entries = json.load(open(os.path.join(UNITS_DIR, fn)))
            defaults = [e for e in entries if 'defaults_for_file' in e]
            for u in entries:
                if 'defaults_for_file' in u:
                    continue
                for d in defaults:
                    if d['defaults_for_file'] == u.get('file'):
                        for k, v in d.items():
                            if k != 'defaults_for_file':
                                u.setdefault(k, v)
                u.setdefault('_defined_in', fn)
                # case split into variants (e.g. one per checksum type): each variant is its own unit
                if u.get('variants'):
                    for v in u['variants']:
                        uv = dict(u)
                        uv.pop('variants')
                        uv['name'] = u['name'] + '.' + v['suffix']
                        uv['defines'] = list(u.get('defines', [])) + list(v.get('defines', []))
                        uv['variant_of'] = u['name']
                        if v.get('probes'):
                            uv['probes'] = list(u.get('probes', [])) + list(v['probes'])
                        # a variant may override any other unit key (unwindset, bound, timeout, tier ...)
                        for k2, v2 in v.items():
                            if k2 not in ('suffix', 'defines', 'probes'):
                                uv[k2] = v2
                        units.append(uv)
                else:
                    units.append(u)
    names = [u['name'] for u in units]
    assert len(names) == len(set(names)), "duplicate unit names"
    return units


def load_known():
    if not os.path.exists(KNOWN):
        return []
    return json.load(open(KNOWN)).get('findings', [])


def run(cmd, cwd, timeout, mem_gb=None, out=None):
    """Run a command under a time and address-space limit. Returns (rc, stdout+stderr text)."""
    def lim():
        if mem_gb:
            b = int(mem_gb * (1 << 30))
            resource.setrlimit(resource.RLIMIT_AS, (b, b))
        os.setsid()
        try:
            # never leave orphaned solver processes behind when the driver itself is killed
            import ctypes
            ctypes.CDLL('libc.so.6').prctl(1, 9)      # PR_SET_PDEATHSIG, SIGKILL
        except Exception:
            pass
    t0 = time.time()
    try:
        if out:
            with open(out, 'wb') as fo:
                p = subprocess.run(cmd, cwd=cwd, stdout=fo, stderr=subprocess.STDOUT,
                                   timeout=timeout, preexec_fn=lim)
            return p.returncode, '', time.time() - t0
        p = subprocess.run(cmd, cwd=cwd, stdout=subprocess.PIPE, stderr=subprocess.STDOUT,
                           timeout=timeout, preexec_fn=lim)
        return p.returncode, p.stdout.decode('utf-8', 'replace'), time.time() - t0
    except subprocess.TimeoutExpired as e:
        return -9, 'TIMEOUT after %ss' % timeout, time.time() - t0


# ------------------------------------------------------------------------------------------
# scratch preparation
# ------------------------------------------------------------------------------------------
def prepare_scratch(unit, scratch):
    """zck.h from zck.h.in; loop-patched copies of the real files.  Returns diff text."""
    src = open(os.path.join(REPO, 'include/zck.h.in')).read()
    m = re.search(r"version\s*:\s*'([^']+)'", open(os.path.join(REPO, 'meson.build')).read())
    open(os.path.join(scratch, 'zck.h'), 'w').write(src.replace('@version@', m.group(1) if m else '0'))
    diffs = []
    # mechanically extracted functions (verbatim text of the real definitions)
    for ex in unit.get('extract', []):
        text = open(os.path.join(REPO, ex['file'])).read()
        body = looppatch.extract_functions(text, ex['functions'], ex['file'])
        hdr = '/* extracted verbatim on this run from %s: %s (everything else of that file is dropped) */\n' % (
            ex['file'], ', '.join(ex['functions']))
        open(os.path.join(scratch, ex['as']), 'w').write(hdr + body)
    byfile = {}
    for e in unit.get('loop_contracts', []):
        byfile.setdefault(e['file'], []).append(e)
    # in-body assertions (unit key `asserts`: [{file, function, anchor, assert, tag}]): inserted mechanically like loop clauses; a
    # missing anchor is an extraction failure (UNDECIDED), never a silently dropped obligation
    for e in unit.get('asserts', []):
        byfile.setdefault(e['file'], []).append(e)
    # reachability probes: a probe whose anchor no longer matches (the code around it changed) is left out --
    # the proof run still decides the obligations; the cover run then reports the missing probe (UNDECIDED
    # vacuity), never a violation and never a silently green unit
    for e in unit.get('probes', []):
        try:
            looppatch.patch_source(open(os.path.join(REPO, e['file'])).read(), [e], e['file'])
            byfile.setdefault(e['file'], []).append(e)
        except looppatch.ExtractionError as ex:
            log('probe %s left out: %s' % (e.get('name'), ex))
    for f, entries in byfile.items():
        real = os.path.join(REPO, f)
        text = open(real).read()
        patched = looppatch.patch_source(text, entries, f)
        dst = os.path.join(scratch, f)
        os.makedirs(os.path.dirname(dst), exist_ok=True)
        open(dst, 'w').write(patched)
        rc, d, _ = run(['diff', '-u', real, dst], scratch, 30)
        bad = [l for l in d.splitlines() if l.startswith('-') and not l.startswith('---')]
        added = [l for l in d.splitlines() if l.startswith('+') and not l.startswith('+++')]
        # every removed line must re-appear, with only __CPROVER clauses added
        for l in added:
            if '__CPROVER_' not in l:
                raise looppatch.ExtractionError("patched copy of %s differs by more than loop clauses" % f)
        if len(bad) != len(added):
            raise looppatch.ExtractionError("patched copy of %s: line structure changed" % f)
        diffs.append(d)
    return '\n'.join(diffs)


def compile_unit(unit, scratch, cover=False):
    out = os.path.join(scratch, 'cov.gb' if cover else 'u.gb')
    cmd = ['goto-cc'] + CFLAGS + ['-I' + scratch, '-I' + VERIF, '-I' + REPO,
                                  '-I' + os.path.join(REPO, 'src/lib')]
    for d in unit.get('defines', []):
        cmd.append('-D' + d)
    # repo-relative include directories (needed when a loop-patched scratch copy of a file includes siblings by relative path)
    for inc in unit.get('include_dirs', []):
        cmd.append('-I' + os.path.join(REPO, inc))
    if cover:
        cmd.append('-DVERIF_COVER')
    cmd += ['--function', unit['harness'], os.path.join(VERIF, unit['file']), '-o', out]
    rc, txt, _ = run(cmd, scratch, 300)
    if rc != 0 or not os.path.exists(out):
        return None, txt
    return out, txt


def instrument(unit, scratch, gb, cover=False):
    out = os.path.join(scratch, 'cov2.gb' if cover else 'u2.gb')
    if unit.get('pre_unwind'):
        # bounded units that close the inner loops by contract but unwind an outer (list) walk: --dfcc --apply-loop-contracts gives
        # a loop WITHOUT contract an empty write set (spurious 'not assignable' failures), so the walk is unwound by goto-instrument
        # BEFORE the contract instrumentation (with unwinding assertions); each copy of the inner loop keeps its loop contract.
        # Entries as in `unwindset`: {function, line_match | index, n}.
        try:
            pre = resolve_unwindset({'unwindset': unit['pre_unwind']}, scratch, gb)
        except looppatch.ExtractionError as e:
            return None, 'pre_unwind: %s' % e, ['goto-instrument --unwindset (pre_unwind)']
        gbp = os.path.join(scratch, 'cov_pre.gb' if cover else 'u_pre.gb')
        pcmd = ['goto-instrument', '--unwindset', ','.join(pre), '--unwinding-assertions', gb, gbp]
        rcp, txtp, _ = run(pcmd, scratch, 600, mem_gb=16)
        if rcp != 0 or not os.path.exists(gbp):
            return None, 'pre_unwind failed: ' + txtp[-800:], pcmd
        gb = gbp
    cmd = ['goto-instrument', '--dfcc', unit['harness']]
    for f in ([unit['enforce']] if isinstance(unit.get('enforce'), str) else unit.get('enforce', [])):
        # recursive functions: CBMC's --enforce-contract-rec lets the recursive call be replaced by the contract
        cmd += ['--enforce-contract-rec' if unit.get('enforce_rec') else '--enforce-contract', f]
    repl = list(unit.get('replace', []))
    # name-rendering helpers reached through logging arguments: always by contract when present
    rc0, symtxt, _ = run(['goto-instrument', '--show-symbol-table', gb], scratch, 120)
    enf = [unit['enforce']] if isinstance(unit.get('enforce'), str) else unit.get('enforce', [])
    for g in DEFAULT_REPLACE:
        if g not in repl and g not in enf and re.search(r'^Symbol\.*: ' + g + r'$', symtxt, flags=re.M):
            repl.append(g)
    try:
        if 'stubs/libc_mem.h' in open(os.path.join(VERIF, unit['file'])).read():
            for g in MEM_REPLACE:
                if g not in repl and re.search(r'^Symbol\.*: ' + g + r'$', symtxt, flags=re.M):
                    repl.append(g)
    except Exception:
        pass
    # callees that have a contract in this TU but no body (a call the repository gained after the unit was
    # written, e.g. a parser that starts using an encoder): use the contract instead of failing on
    # "undefined function"
    rc1, undef, _ = run(['goto-instrument', '--list-undefined-functions', gb], scratch, 120)
    undefined = set(l.strip() for l in undef.splitlines())
    contracted = set(re.findall(r'^Symbol\.*: contract::(\w+)$', symtxt, flags=re.M))
    auto = sorted(g for g in (undefined & contracted) if g not in repl and g not in enf)
    repl += auto
    # a listed callee that the code no longer calls has no symbol at all (goto-cc drops unused declarations):
    # --replace-call-with-contract on it aborts goto-instrument; nothing to replace, so leave it out
    absent = [g for g in repl if not re.search(r'^Symbol\.*: ' + re.escape(g) + r'$', symtxt, flags=re.M)]
    repl = [g for g in repl if g not in absent]
    unit['_replace_absent'] = absent
    unit['_auto_replaced'] = auto
    unit['_replace_effective'] = repl
    for g in repl:
        cmd += ['--replace-call-with-contract', g]
    if unit.get('apply_loop_contracts') or unit.get('loop_contracts'):
        cmd.append('--apply-loop-contracts')
    cmd += unit.get('instrument_flags', [])
    cmd += [gb, out]
    rc, txt, _ = run(cmd, scratch, 600, mem_gb=16)
    if rc != 0 or not os.path.exists(out):
        return None, txt, cmd
    return out, txt, cmd


def resolve_unwindset(unit, scratch, gb):
    """unwindset entries {function, line_match (regex on source text of the loop line) | index, n}
    -> ['fn.N:n', ...] using cbmc --show-loops."""
    us = unit.get('unwindset', [])
    if not us:
        return []
    rc, txt, _ = run(['cbmc', '--show-loops', '--json-ui', gb], scratch, 120)
    loops = []
    try:
        for m in json.loads(txt):
            if 'loops' in m:
                loops = m['loops']
    except Exception:
        raise looppatch.ExtractionError("cannot list loops: " + txt[-400:])
    res = []
    for e in us:
        cands = []
        for l in loops:
            sl = l.get('sourceLocation', {})
            fn = sl.get('function', '')
            if fn != e['function'] and fn != e['function'] + '_wrapped_for_contract_checking' \
               and not l['name'].startswith(e['function'] + '.') \
               and not l['name'].startswith(e['function'] + '_wrapped_for_contract_checking.'):
                continue
            if 'line_match' in e:
                f = sl.get('file', '')
                if not os.path.isabs(f):
                    f = os.path.join(sl.get('workingDirectory', ''), f)
                try:
                    line = open(f).read().splitlines()[int(sl.get('line', '0')) - 1]
                except Exception:
                    line = ''
                if not re.search(e['line_match'], line):
                    continue
            cands.append(l['name'])
        if 'index' in e:
            cands = cands[e['index']:e['index'] + 1]
        if not cands:
            raise looppatch.ExtractionError("unwindset: no loop for %r" % e)
        for c in cands:
            res.append('%s:%d' % (c, e['n']))
    return res


# ------------------------------------------------------------------------------------------
# result parsing
# ------------------------------------------------------------------------------------------
_tagcache = {}


def contract_tags(path, fn, ctl=False):
    """Ordered tags of the V_ENSURES clauses of the contract attached to the declaration of `fn`
    in contract header `path` (one clause per line, tag in a trailing /*@tag*/ comment).  CBMC
    numbers postcondition obligations in clause order; its reported line numbers are unreliable
    (off by one for some clauses), so the mapping is by order and is only used when the clause
    count matches the obligation count."""
    key = (path, fn, ctl)
    if key in _tagcache:
        return _tagcache[key]
    tags = None
    try:
        text = open(path).read()
        m = re.search(r'\b' + re.escape(fn) + r'\s*\([^;{]*?\)\s*\n((?:[ \t]*(?:V_\w+\(.*|/\*.*\*/|//.*)?\n)+?)[ \t]*;', text)
        if m:
            tags = []
            for line in m.group(1).splitlines():
                if line.strip().startswith('V_ENSURES_WF') and ctl:
                    continue      # compiled out in control-only units (-DVERIF_CTL)
                if line.strip().startswith('V_ENSURES_CTL') and not ctl:
                    continue      # exists only in control-only units
                if line.strip().startswith('V_ENSURES'):
                    t = re.search(r'/\*@([^*]+)\*/\s*$', line)
                    tags.append(t.group(1).strip() if t else None)
    except Exception:
        tags = None
    _tagcache[key] = tags
    return tags


def norm_desc(d):
    d = re.sub(r'\(signed long int\)|\(unsigned long int\)|\(signed int\)|\(unsigned int\)|\(char \*\)|\(const char \*\)', '', d)
    d = re.sub(r'\s+', ' ', d).strip()
    return d


def classify(prop_name):
    # "fn.class.N" (fn may contain dots? no)
    parts = prop_name.rsplit('.', 2)
    if len(parts) == 3:
        return parts[0], parts[1]
    return prop_name, 'other'


def parse_cbmc_json(path):
    """Returns (results list, messages text, solver_seconds, status)"""
    try:
        data = json.load(open(path))
    except Exception as e:
        try:
            txt = open(path, 'rb').read().decode('utf-8', 'replace')
        except Exception:
            txt = 'no output file %s' % path
        return None, txt[-3000:], 0.0, 'PARSE-ERROR'
    results = None
    msgs = []
    solver_s = 0.0
    status = None
    for m in data:
        if 'result' in m:
            results = m['result']
        if 'messageText' in m:
            t = m['messageText']
            msgs.append(t)
            mm = re.match(r'Runtime (decision procedure): ([0-9.e+-]+)s', t)
            if mm:
                solver_s += float(mm.group(2))
        if 'cProverStatus' in m:
            status = m['cProverStatus']
    return results, '\n'.join(msgs), solver_s, status


def obligation_record(unit, r):
    fn, cls = classify(r['property'])
    sl = r.get('sourceLocation', {})
    desc = r.get('description', '')
    tag = None
    if cls == 'postcondition':
        f = sl.get('file', '')
        if f and not os.path.isabs(f):
            f = os.path.join(sl.get('workingDirectory', ''), f)
        tags = contract_tags(f, fn.replace('_wrapped_for_contract_checking', ''), 'VERIF_CTL' in unit.get('defines', []))
        try:
            k = int(r['property'].rsplit('.', 1)[1])
        except Exception:
            k = 0
        npost = unit.get('_npost', {}).get(fn)
        if tags and npost == len(tags) and 1 <= k <= len(tags):
            tag = tags[k - 1]
    if cls == 'precondition':
        mm = re.search(r'contract::(\w+)', desc)
        tag = ('requires-of-' + mm.group(1)) if mm else None
    if cls == 'assertion':
        tag = desc.strip()
    fnn = fn.replace('_wrapped_for_contract_checking', '')
    if tag:
        key = '%s/%s/%s' % (fnn, cls, tag)
    else:
        key = '%s/%s/%s' % (fnn, cls, norm_desc(desc))
    props = None
    if tag:
        m = re.match(r'^((?:C\d\d,?)+)\.', tag)
        if m:
            props = m.group(1).split(',')
    if props is None:
        props = list(unit['properties'])
        # generated safety checks may be restricted to a subset by the unit
        if 'untagged_properties' in unit:
            props = list(unit['untagged_properties'])
    return {'name': r['property'], 'function': fnn, 'class': cls, 'tag': tag, 'key': key,
            'status': r['status'], 'description': desc,
            'file': sl.get('file'), 'line': sl.get('line'), 'props': props,
            'trace': r.get('trace')}


# ------------------------------------------------------------------------------------------
# running a unit
# ------------------------------------------------------------------------------------------
def run_unit(unit, tier, keep=False, verbose=False):
    t0 = time.time()
    res = {'unit': unit['name'], 'mode': unit.get('mode', 'proof'), 'bound': unit.get('bound'),
           'status': 'OK', 'why': '', 'obligations': [], 'solver_s': 0.0, 'wall_s': 0.0,
           'covers': [], 'cmds': [], 'assumptions': [], 'loop_diff': ''}
    scratch = tempfile.mkdtemp(prefix='zverif.%s.' % unit['name'])
    res['scratch'] = scratch
    try:
        try:
            res['loop_diff'] = prepare_scratch(unit, scratch)
        except looppatch.ExtractionError as e:
            res['status'] = 'UNDECIDED'
            res['why'] = 'extraction broke: %s' % e
            return res
        gb, txt = compile_unit(unit, scratch)
        if not gb:
            res['status'] = 'UNDECIDED'
            res['why'] = 'goto-cc failed: ' + txt[-1500:]
            return res
        if unit.get('dfcc', True):
            gb2, txt, icmd = instrument(unit, scratch, gb)
        else:
            gb2, txt, icmd = gb, 'plain cbmc unit (no contract instrumentation): real bodies executed symbolically', ['(no goto-instrument: plain unit)']
        res['cmds'].append(' '.join(icmd))
        if not gb2:
            res['status'] = 'UNDECIDED'
            res['why'] = 'goto-instrument failed: ' + txt[-1500:]
            return res
        res['instrument_log'] = txt[-4000:]
        try:
            uws = resolve_unwindset(unit, scratch, gb2)
        except looppatch.ExtractionError as e:
            res['status'] = 'UNDECIDED'
            res['why'] = 'extraction broke: %s' % e
            return res
        timeout = unit.get('timeout', 600)
        if tier == 'thorough':
            timeout = unit.get('timeout_thorough', timeout * 3)
        mem = unit.get('mem_gb', 8)
        checks = list(BASE_CHECKS)
        for c in unit.get('drop_checks', []):
            checks.remove(c)
            # CBMC 6 enables the standard checks by default: a dropped class must be switched off explicitly
            checks.append('--no-' + c[2:])
        extra = os.environ.get('VERIF_CBMC_EXTRA', '').split()
        # NOTE: the cost of a --dfcc unit grows steeply with --object-bits (the contract library keeps
        # per-object sets of 2^bits entries): 8 bits 16 s, 10 bits 190 s, 12 bits > 10 min on the same
        # unit.  Start at the unit's value (default 8) and escalate only when CBMC says it needs more.
        obits = unit.get('_object_bits', unit.get('object_bits', 8))
        cmd = ['cbmc', gb2] + checks + unit.get('cbmc_flags', []) + extra + \
              ['--unwind', str(unit.get('unwind', 70)), '--unwinding-assertions',
               '--object-bits', str(obits)]
        if uws:
            cmd += ['--unwindset', ','.join(uws)]
        if not unit.get('dfcc', True):
            cmd += ['--drop-unused-functions']
        solver = os.environ.get('VERIF_SOLVER') or unit.get('solver')
        if tier == 'thorough' and unit.get('solver_thorough'):
            solver = unit['solver_thorough']
        if solver == 'kissat':
            cmd += ['--external-sat-solver', 'kissat']
        elif solver == 'cadical':
            cmd += ['--sat-solver', 'cadical']
        elif solver in ('z3', 'cvc5'):
            cmd += ['--' + solver]
        if unit.get('only') or unit.get('unchecked'):
            # control-only unit: ask CBMC only for the obligations this unit attributes (same formula, far fewer goals)
            # 'unchecked': [{key: regex on the obligation key, line_match: regex on the source line, reason}] = single
            # generated obligations of a class DESIGN section 5 lists as unchecked; left out of the solver's goals,
            # kept in the log, attributed to no property
            props = list_properties(gb2, checks + unit.get('cbmc_flags', []) + ['--unwind', str(unit.get('unwind', 70)), '--unwinding-assertions', '--object-bits', str(obits)] + (['--unwindset', ','.join(uws)] if uws else []) + ([] if unit.get('dfcc', True) else ['--drop-unused-functions']), scratch)
            if props is None:
                res['status'] = 'UNDECIDED'
                res['why'] = 'cannot list properties'
                return res
            npost0 = {}
            for n0, d0, sl0 in props:
                f0, c0 = classify(n0)
                if c0 == 'postcondition':
                    npost0[f0] = npost0.get(f0, 0) + 1
            pats = [re.compile(x) for x in unit.get('only', ['.'])]
            sel = []
            for n0, d0, sl0 in props:
                o0 = obligation_record(dict(unit, _npost=npost0), {'property': n0, 'description': d0, 'sourceLocation': sl0, 'status': 'UNKNOWN'})
                if is_unchecked(unit, o0['key'], sl0):
                    continue
                if any(p.search(o0['key']) for p in pats) or o0['class'] == 'unwind':
                    sel.append(n0)
            if not sel:
                res['status'] = 'UNDECIDED'
                res['why'] = "'only' patterns select no obligation"
                return res
            for n0 in sel:
                cmd += ['--property', n0]
            res['selected_properties'] = len(sel)
        cmd += ([] if os.environ.get('VERIF_NOTRACE') else ['--trace']) + ['--json-ui', '--verbosity', '8']
        res['cmds'].append(' '.join(cmd))
        res['backend'] = solver or 'minisat (cbmc default)'
        outp = os.path.join(scratch, 'cbmc.json')

        # cover (vacuity) run in parallel
        cov_future = None
        if unit.get('covers', True):
            cov_future = _pool2.submit(run_cover, unit, scratch, uws, timeout, mem)

        rc, _, wall = run(cmd, scratch, timeout, mem_gb=mem, out=outp)
        if rc == -9:
            res['status'] = 'UNDECIDED'
            res['why'] = ('cbmc timeout after %ds' % timeout) if wall >= timeout - 1 else 'cbmc was killed after %ds (out of memory?)' % wall
            if cov_future:
                cov_future.cancel()
            return res
        results, msgs, solver_s, status = parse_cbmc_json(outp)
        res['solver_s'] = solver_s
        nb = re.findall(r'no body for function (\w+)', msgs)
        nb = [f for f in nb if f not in unit.get('allow_no_body', [])]
        if nb:
            res['status'] = 'UNDECIDED'
            res['why'] = 'functions without body would be treated as nondet: %s' % sorted(set(nb))
        if 'ignoring' in msgs:
            res['status'] = 'UNDECIDED'
            res['why'] = 'cbmc dropped a quantifier ("ignoring")'
        if results is None and 'too many addressed objects' in msgs and obits < 13:
            if cov_future:
                cov_future.result()
            u3 = dict(unit, _object_bits=obits + 1)
            u3.pop('_npost', None)
            shutil.rmtree(scratch, ignore_errors=True)
            return run_unit(u3, tier, keep=keep, verbose=verbose)
        if results is None:
            res['status'] = 'UNDECIDED'
            res['why'] = 'cbmc produced no result (rc=%s, out of memory or error): %s' % (rc, msgs[-1500:])
            return res
        npost = {}
        for r0 in results:
            f0, c0 = classify(r0['property'])
            if c0 == 'postcondition':
                npost[f0] = npost.get(f0, 0) + 1
        unit = dict(unit, _npost=npost)
        obs = [obligation_record(unit, r) for r in results]
        # control-only units: obligations outside the unit's subject (generated memory checks, callee
        # preconditions about buffer shapes, contract-library internals) are generated by CBMC but belong to
        # the companion memory-safety unit; they are kept in the log and attributed to no property here
        if unit.get('only') or unit.get('unchecked'):
            pats = [re.compile(x) for x in unit.get('only', ['.'])]
            for o in obs:
                if not any(p.search(o['key']) for p in pats) or is_unchecked(unit, o['key'], {'file': o.get('file'), 'line': o.get('line')}):
                    o['props'] = []
                    o['unattributed'] = True
        res['obligations'] = obs
        # silently-dropped-contract guard
        classes = {}
        for o in obs:
            classes[(o['function'], o['class'])] = classes.get((o['function'], o['class']), 0) + 1
        for exp in unit.get('expect', []):
            fn, cls, n = exp['function'], exp['class'], exp.get('min', 1)
            if classes.get((fn, cls), 0) < n:
                res['status'] = 'UNDECIDED'
                res['why'] = 'expected >=%d obligations of class %s in %s, found %d (contract silently dropped?)' % (
                    n, cls, fn, classes.get((fn, cls), 0))
        if not obs:
            res['status'] = 'UNDECIDED'
            res['why'] = 'zero obligations generated'
        for o in obs:
            if o['status'] == 'FAILURE' and 'undefined function should be unreachable' in o['description']:
                # the code now calls a function this unit has neither a body nor a contract for: the unit
                # cannot decide anything about that path (needs a contract) -- not a violation
                res['status'] = 'UNDECIDED'
                res['why'] = 'call to %s, for which the unit has neither body nor contract' % o['function']
                o['status'] = 'UNKNOWN'
        for o in obs:
            if o['class'] == 'unwind' and o['status'] == 'FAILURE':
                # an unwinding assertion failing is "bound too small", not a violation
                res['status'] = 'UNDECIDED'
                res['why'] = 'unwinding assertion %s not discharged (%s)' % (o['name'], o['status'])
        if cov_future:
            cov = cov_future.result()
            res['covers'] = cov['covers']
            if cov['status'] != 'OK' and res['status'] == 'OK':
                res['status'] = 'UNDECIDED'
                res['why'] = cov['why']
        # second phase, only after a failure: re-run with the input ties switched on so that the
        # counterexample's buffer bytes are part of the input record (replayable)
        fails = [o for o in obs if o['status'] == 'FAILURE']
        if fails and not unit.get('_tied'):
            try:
                has_tie = 'V_TIE' in open(os.path.join(VERIF, unit['file'])).read()
            except Exception:
                has_tie = False
            if has_tie:
                u2 = dict(unit, defines=list(unit.get('defines', [])) + ['VERIF_TIE'], covers=False, _tied=True)
                u2.pop('_npost', None)
                r2 = run_unit(u2, tier, keep=False)
                bykey = {o['key']: o for o in r2['obligations'] if o['status'] == 'FAILURE' and o.get('trace')}
                for o in fails:
                    if o['key'] in bykey:
                        o['trace'] = bykey[o['key']]['trace']
                        o['tied'] = True
        return res
    finally:
        res['wall_s'] = time.time() - t0
        if not keep:
            # traces were already loaded in memory
            shutil.rmtree(scratch, ignore_errors=True)



def is_unchecked(unit, key, sl):
    if os.environ.get('VERIF_CHECK_UNCHECKED'):      # development: check the excluded obligations too
        return False
    for e in unit.get('unchecked', []):
        if not re.search(e['key'], key):
            continue
        f = sl.get('file') or ''
        if f and not os.path.isabs(f):
            f = os.path.join(sl.get('workingDirectory', '') or '', f)
        try:
            line = open(f).read().splitlines()[int(sl.get('line') or 0) - 1]
        except Exception:
            line = ''
        if re.search(e.get('line_match', '.'), line):
            return True
    return False


def list_properties(gb, flags, scratch):
    """[(name, description, sourceLocation)] of the goto binary under the given check flags."""
    rc, txt, _ = run(['cbmc', gb] + flags + ['--show-properties', '--json-ui'], scratch, 600, mem_gb=8)
    try:
        for m in json.loads(txt[txt.index('['):]):
            if 'properties' in m:
                return [(p['name'], p.get('description', ''), p.get('sourceLocation', {})) for p in m['properties']]
    except Exception:
        pass
    return None

def run_cover(unit, scratch, uws, timeout, mem):
    out = {'status': 'OK', 'why': '', 'covers': []}
    gb, txt = compile_unit(unit, scratch, cover=True)
    if not gb:
        return {'status': 'UNDECIDED', 'why': 'cover build failed: ' + txt[-800:], 'covers': []}
    if unit.get('dfcc', True):
        gb2, txt, _ = instrument(unit, scratch, gb, cover=True)
    else:
        gb2, txt = gb, ''
    if not gb2:
        return {'status': 'UNDECIDED', 'why': 'cover instrument failed: ' + txt[-800:], 'covers': []}
    cmd = ['cbmc', gb2, '--unwind', str(unit.get('unwind', 70)),
           '--object-bits', str(unit.get('_object_bits', unit.get('object_bits', 8)))] + unit.get('cbmc_flags', [])
    if uws:
        cmd += ['--unwindset', ','.join(uws)]
    # the cover run is incremental (one solver call per goal): a unit may keep CBMC's built-in solver for it
    # ("cover_solver": "default") while the main run uses an external one
    solver = unit.get('cover_solver') or os.environ.get('VERIF_SOLVER') or unit.get('solver')
    if solver == 'kissat':
        cmd += ['--external-sat-solver', 'kissat']
    elif solver == 'cadical':
        cmd += ['--sat-solver', 'cadical']
    props = list_properties(gb2, cmd[2:], scratch)
    if props:
        goals0 = [n0 for n0, d0, sl0 in props if d0.startswith('COVER ') and (sl0.get('function') == unit['harness'] or d0.startswith('COVER probe:'))]
        for n0 in goals0:
            cmd += ['--property', n0]
    cmd += ['--json-ui']
    outp = os.path.join(scratch, 'cover.json')
    rc, _, _ = run(cmd, scratch, timeout, mem_gb=mem, out=outp)
    if rc == -9:
        return {'status': 'UNDECIDED', 'why': 'cover run timeout', 'covers': []}
    results, msgs, _, _ = parse_cbmc_json(outp)
    if results is None:
        return {'status': 'UNDECIDED', 'why': 'cover run produced no result: ' + msgs[-500:], 'covers': []}
    goals = [r for r in results if r.get('description', '').startswith('COVER ')
             and (r.get('sourceLocation', {}).get('function') == unit['harness']
                  or r.get('description', '').startswith('COVER probe:'))]
    nprobes = len(set(g['description'] for g in goals if g.get('description', '').startswith('COVER probe:')))
    if nprobes < len(unit.get('probes', [])):
        return {'status': 'UNDECIDED', 'why': 'reachability probes: %d listed, %d found in the cover run' % (len(unit.get('probes', [])), nprobes), 'covers': []}
    if not goals:
        return {'status': 'UNDECIDED', 'why': 'no cover goals in harness (vacuity guard missing)', 'covers': []}
    # a probe inside a contracted loop shows up once per copy of the loop body the instrumentation makes
    # (first iteration from the entry state + the step from the havocked state): reachable in any copy counts
    probe_sat = set(g['description'] for g in goals if g['description'].startswith('COVER probe:') and g['status'] == 'FAILURE')
    seen_probe = set()
    for g in goals:
        sat = g['status'] == 'FAILURE'   # the negated goal fails <=> the goal is reachable
        if g['description'].startswith('COVER probe:'):
            if g['description'] in seen_probe:
                continue
            seen_probe.add(g['description'])
            sat = g['description'] in probe_sat
        out['covers'].append({'goal': g['description'], 'status': 'satisfied' if sat else 'unreachable',
                              'line': g.get('sourceLocation', {}).get('line')})
        if not sat:
            out['status'] = 'UNDECIDED'
            out['why'] = 'vacuity guard: cover goal at line %s not reachable (%s)' % (
                g.get('sourceLocation', {}).get('line'), g.get('description'))
    return out


_pool2 = ThreadPoolExecutor(max_workers=16)


# ------------------------------------------------------------------------------------------
# replay
# ------------------------------------------------------------------------------------------
def json_value_to_c(v):
    if v is None:
        return '0'
    if 'members' in v:
        return '{ ' + ', '.join('.%s = %s' % (m['name'], json_value_to_c(m['value']))
                                for m in v['members'] if not m['name'].startswith('$pad')) + ' }'
    if 'elements' in v:
        els = sorted(v['elements'], key=lambda e: e['index'])
        return '{ ' + ', '.join(json_value_to_c(e['value']) for e in els) + ' }'
    name = v.get('name')
    if name == 'integer':
        b = v.get('binary')
        t = v.get('type', '')
        if b is not None:
            n = int(b, 2)
            w = v.get('width', len(b))
            signed = not (t.startswith('unsigned') or t in ('_Bool', 'size_t', '__CPROVER_size_t'))
            if signed and n >= (1 << (w - 1)):
                n -= (1 << w)
            if w > 32:
                return '%d%s' % (n, 'LL' if signed else 'ULL') if n != -(1 << 63) else '(-9223372036854775807LL-1)'
            return str(n)
        return str(v.get('data', '0'))
    if name == 'boolean':
        return '1' if v.get('data') in (True, 'true') else '0'
    if name == 'pointer':
        return '0'
    if name == 'float':
        return str(v.get('data', '0'))
    return '0'


def _apply_member(root, path, value):
    """root: json struct value; path like ['b', 3] ; set leaf."""
    cur = root
    for i, p in enumerate(path):
        last = i == len(path) - 1
        if isinstance(p, int):
            els = cur.setdefault('elements', [])
            hit = [e for e in els if e['index'] == p]
            if not hit:
                hit = [{'index': p, 'value': {}}]
                els.append(hit[0])
            if last:
                hit[0]['value'] = value
            else:
                cur = hit[0]['value']
        else:
            ms = cur.setdefault('members', [])
            hit = [m for m in ms if m['name'] == p]
            if not hit:
                hit = [{'name': p, 'value': {}}]
                ms.append(hit[0])
            if last:
                hit[0]['value'] = value
            else:
                cur = hit[0]['value']


def extract_inputs(trace, harness):
    """All nondet input records of the harness: variables named in, in2, ... assigned in the
    harness function. Returns {varname: json value} (last whole assignment + later members)."""
    vals = {}
    for st in trace or []:
        if st.get('stepType') != 'assignment':
            continue
        if st.get('sourceLocation', {}).get('function') != harness:
            continue
        lhs = st.get('lhs', '')
        m = re.match(r'^(in\d*)((?:\.\w+|\[\d+l?\])*)$', lhs)
        if not m:
            continue
        var, rest = m.group(1), m.group(2)
        if not rest:
            v0 = st.get('value') or {}
            if v0.get('name') == 'pointer' or ('members' not in v0):
                continue      # a parameter named like the record (pointer to it), not the record
            vals[var] = json.loads(json.dumps(v0))
        elif var in vals:
            path = []
            for tok in re.findall(r'\.(\w+)|\[(\d+)l?\]', rest):
                path.append(tok[0] if tok[0] else int(tok[1]))
            _apply_member(vals[var], path, st.get('value'))
    return vals


def native_replay(unit, ob, outdir):
    """Compile the same unit file natively against the real source with the counterexample
    inputs and run it under ASan/UBSan. Returns (reproduced: bool, text)."""
    ins = extract_inputs(ob.get('trace'), unit['harness'])
    rp = unit.get('replay', {})
    if not rp or rp.get('kind') != 'native' or not ins:
        return False, 'no native replay for this unit (stub/ghost unit or no input record in trace)'
    scratch = tempfile.mkdtemp(prefix='zreplay.')
    try:
        prepare_scratch({'loop_contracts': [], 'extract': unit.get('extract', [])}, scratch)
        if rp.get('link_rest', True):
            # the extracted (non-static) functions come from the real files linked below
            for ex in unit.get('extract', []):
                open(os.path.join(scratch, ex['as']), 'w').write('/* native replay: %s linked from the real %s */\n' % (', '.join(ex['functions']), ex['file']))
        lines = ['/* counterexample inputs extracted from the CBMC trace of %s */' % ob['name']]
        unit_text = open(os.path.join(VERIF, unit['file'])).read()
        alltypes = re.findall(r'^V_INPUT\((\w+)\)', unit_text, flags=re.M)
        used = {}
        for var, typ in rp['inputs'].items():
            if var in ins:
                used[typ] = json_value_to_c(ins[var])
        for typ in alltypes:
            if typ in used:
                lines.append('static %s nondet_%s(void) { %s r = %s; return r; }' % (typ, typ, typ, used[typ]))
            else:
                lines.append('static %s nondet_%s(void) { %s r; memset(&r, 0, sizeof r); return r; }' % (typ, typ, typ))
        hdr = '\n'.join(lines) + '\n'
        open(os.path.join(scratch, 'replay_in.h'), 'w').write(hdr)
        open(os.path.join(scratch, 'main.c'), 'w').write(
            '#include "%s"\nint main(void) { %s(); printf("REPLAY: harness returned without failure\\n"); return 0; }\n'
            % (os.path.join(VERIF, unit['file']), unit['harness']))
        exe = os.path.join(scratch, 'replay')
        cmd = ['gcc', '-g', '-O0', '-fsanitize=address,undefined', '-fno-sanitize-recover=undefined',
               '-DVERIF_NATIVE', '-w'] + CFLAGS + \
              ['-I' + scratch, '-I' + VERIF, '-I' + REPO, '-I' + os.path.join(REPO, 'src/lib')]
        for d in unit.get('defines', []):
            cmd.append('-D' + d)
        cmd += [os.path.join(scratch, 'main.c'), '-o', exe]
        if rp.get('link_rest', True):
            # the rest of the real library, built from /repo's working tree (bundled SHA, zstd on)
            included = set(re.findall(r'#include "(src/lib/[^"]+\.c)"', unit_text))
            for root, _, files in os.walk(os.path.join(REPO, 'src/lib')):
                if '/win32' in root or '/openssl' in root:
                    continue
                for fn in files:
                    rel = os.path.relpath(os.path.join(root, fn), REPO)
                    if fn.endswith('.c') and rel not in included:
                        cmd.append(os.path.join(root, fn))
            cmd += ['-lzstd']
        cmd += rp.get('link', [])
        rc, txt, _ = run(cmd, scratch, 300)
        if rc != 0:
            return False, 'native replay build failed:\n' + txt[-3000:] + '\n--- inputs ---\n' + hdr
        env_cmd = ['env', 'ASAN_OPTIONS=detect_leaks=0:abort_on_error=0', exe]
        rc, txt, _ = run(env_cmd, scratch, 120)
        text = '--- replay inputs (replay_in.h) ---\n%s\n--- native run (gcc -fsanitize=address,undefined, real source) rc=%s ---\n%s\n' % (
            hdr, rc, txt[-6000:])
        reproduced = rc != 0 and rc != 3
        # keep the replay inputs so that the run can be repeated by hand
        if outdir:
            shutil.copy(os.path.join(scratch, 'replay_in.h'), outdir + '.replay_in.h')
        return reproduced, text
    finally:
        shutil.rmtree(scratch, ignore_errors=True)


def write_replay_file(pid, unit, ob, tier):
    os.makedirs(os.path.join(EVID, 'replay'), exist_ok=True)
    h = hashlib.sha1((unit['name'] + ob['key']).encode()).hexdigest()[:10]
    base = os.path.join(EVID, 'replay', '%s-%s-%s' % (pid, unit['name'], h))
    path = base + '.txt'
    reproduced, text = native_replay(unit, ob, base)
    with open(path, 'w') as f:
        f.write('property: %s\nunit: %s (%s)\nfailed obligation: %s\nkey: %s\nclass: %s\ndescription: %s\nlocation: %s:%s\n' % (
            pid, unit['name'], unit['file'], ob['name'], ob['key'], ob['class'], ob['description'],
            ob['file'], ob['line']))
        f.write('verifier verdict: %s\n' % ob['status'])
        f.write('replay against real code: %s\n\n' % ('REPRODUCED' if reproduced else 'no-failing-input-found'))
        f.write(text + '\n')
        f.write('--- verifier trace (scalar assignments, failures; capped at 400 lines) ---\n')
        nlines = 0
        for st in (ob.get('trace') or []):
            if nlines >= 400:
                f.write('  ... (trace truncated)\n')
                break
            if st.get('hidden') or st.get('internal'):
                continue
            sl = st.get('sourceLocation', {})
            if st.get('stepType') == 'assignment':
                v = st.get('value', {})
                if not isinstance(v, dict) or 'members' in v or 'elements' in v:
                    continue
                lhs = st.get('lhs', '')
                if lhs.startswith('return_value_nondet') or lhs.startswith('__dfcc') or '__CPROVER' in lhs:
                    continue
                f.write('  %s:%s %s = %s\n' % (sl.get('function', ''), sl.get('line', ''), lhs, str(v.get('data'))[:200]))
                nlines += 1
            elif st.get('stepType') == 'failure':
                f.write('  FAILURE %s:%s %s\n' % (sl.get('function', ''), sl.get('line', ''), st.get('reason')))
                nlines += 1
    return path, reproduced


# ------------------------------------------------------------------------------------------
# property-level check
# ------------------------------------------------------------------------------------------
def assumption_scan(unit):
    """Mechanical list of what the unit assumes rather than proves."""
    out = []
    for g in unit.get('replace', []):
        out.append('callee replaced by its contract: %s' % g)
    for g in unit.get('_auto_replaced', []):
        out.append('callee replaced by its contract (no body in this unit): %s' % g)
    text = ''
    try:
        text = open(os.path.join(VERIF, unit['file'])).read()
    except Exception:
        pass
    n_assume = len(re.findall(r'\bV_ASSUME\s*\(|__CPROVER_assume\s*\(', text))
    if n_assume:
        out.append('%s: %d V_ASSUME/__CPROVER_assume statements in harnesses/stubs of this file (input shaping, allocation success)' % (unit['file'], n_assume))
    for inc in re.findall(r'#include "(stubs/[^"]+)"', text):
        out.append('stub in verified text: %s' % inc)
    for a in unit.get('assumes', []):
        out.append(a)
    if unit.get('mode', 'proof') != 'proof':
        out.append('BOUNDED unit %s: %s' % (unit['name'], unit.get('bound', '')))
    for d in unit.get('defines', []):
        out.append('define for this unit: -D%s' % d)
    for ex in unit.get('extract', []):
        out.append('functions %s extracted verbatim from %s on every run (rest of the file not in this unit)' % (','.join(ex['functions']), ex['file']))
    for c in unit.get('drop_checks', []):
        out.append('check class disabled in %s: %s' % (unit['name'], c))
    for e in unit.get('unchecked', []):
        out.append('unit %s: generated obligations %s on source lines matching %s are NOT checked and attributed to no property: %s' % (unit['name'], e['key'], e.get('line_match', '.'), e.get('reason', '')))
    if unit.get('only'):
        out.append('unit %s attributes only obligations matching %s; every other generated obligation of this unit is the subject of its companion memory-safety unit and is not counted here' % (unit['name'], unit['only']))
    return out



# ------------------------------------------------------------------------------------------
# per-unit result cache (accelerator only): the same unit serves several properties; a result that was
# obtained on the byte-identical verified text (repo sources + every file of the machinery) is reused by the
# next property's check instead of being recomputed.  Only fully discharged results are cached.
# ------------------------------------------------------------------------------------------
_tree_key = None


def tree_key():
    global _tree_key
    if _tree_key is None:
        h = hashlib.sha1()
        for root in (os.path.join(REPO, 'src'), os.path.join(REPO, 'include'), os.path.join(REPO, 'meson.build')):
            paths = [root] if os.path.isfile(root) else sorted(os.path.join(d, f) for d, _, fs in os.walk(root) for f in fs)
            for f in paths:
                h.update(f.encode()); h.update(open(f, 'rb').read())
        for sub in ('contracts', 'units', 'spec', 'stubs', 'engine'):
            for d, _, fs in sorted(os.walk(os.path.join(VERIF, sub))):
                for f in sorted(fs):
                    if f.endswith(('.h', '.c', '.json', '.py')):
                        h.update(f.encode()); h.update(open(os.path.join(d, f), 'rb').read())
        for k in ('VERIF_SOLVER', 'VERIF_CBMC_EXTRA'):
            h.update(os.environ.get(k, '').encode())
        _tree_key = h.hexdigest()
    return _tree_key


def run_unit_cached(unit, tier, keep=False):
    if os.environ.get('VERIF_NO_CACHE'):
        return run_unit(unit, tier, keep=keep)
    cdir = os.path.join(VERIF, '.cache')
    key = hashlib.sha1((unit['name'] + '|' + tier + '|' + tree_key()).encode()).hexdigest()
    path = os.path.join(cdir, key + '.json')
    if os.path.exists(path):
        try:
            r = json.load(open(path))
            r['cached'] = True
            return r
        except Exception:
            pass
    r = run_unit(unit, tier, keep=keep)
    if r['status'] == 'OK' and r['obligations'] and all(o['status'] == 'SUCCESS' or o.get('unattributed') for o in r['obligations']):
        try:
            os.makedirs(cdir, exist_ok=True)
            slim = dict(r)
            slim['obligations'] = [dict(o, trace=None) for o in r['obligations']]
            slim.pop('scratch', None)
            json.dump(slim, open(path + '.tmp', 'w'))
            os.replace(path + '.tmp', path)
        except Exception:
            pass
    return r

def check_property(pid, tier, only=None, keep=False):
    t0 = time.time()
    units = [u for u in load_units() if pid in u['properties']]
    if tier == 'quick':
        units = [u for u in units if u.get('tier', 'quick') == 'quick']
    else:
        # 'attic' units (did not finish within the tool limits / not closed) belong to no registered check
        units = [u for u in units if u.get('tier', 'quick') in ('quick', 'thorough')]
    if only:
        units = [u for u in units if u['name'] in only]
    # seed testing: VERIF_CHANGED_FILES=<repo files touched by a change> restricts the run to the units whose
    # verified text contains one of those files (verification is modular: a unit that sees a changed
    # function only through its contract cannot change its verdict).  A changed header selects every unit.
    changed = [f for f in os.environ.get('VERIF_CHANGED_FILES', '').split() if f]
    if changed and not any(f.endswith('.h') or f.endswith('.h.in') for f in changed):
        def sources(u):
            txt = open(os.path.join(VERIF, u['file'])).read()
            src = set(re.findall(r'#include "(src/[^"]+)"', txt))
            src |= {e['file'] for e in u.get('extract', [])} | {e['file'] for e in u.get('loop_contracts', [])}
            return src
        sel = [u for u in units if sources(u) & set(changed)]
        log('[%s] VERIF_CHANGED_FILES=%s: %d of %d units contain a changed file' % (pid, changed, len(sel), len(units)))
        if not sel:
            print('OK property=%s tier=%s no unit of this property contains a changed file (%s)' % (pid, tier, ' '.join(changed)))
            return 0
        units = sel
    if not units:
        print('UNDECIDED property=%s no units' % pid)
        return 2
    known = [k for k in load_known() if k['property'] == pid]
    nworkers = int(os.environ.get('VERIF_JOBS', '16'))
    # memory-hungry units (mem_gb >= 14) run one at a time after the others: several of them side by side exhaust the
    # machine and end as 'undecided'
    light = [u for u in units if u.get('mem_gb', 8) < 14]
    heavy = [u for u in units if u.get('mem_gb', 8) >= 14]
    with ThreadPoolExecutor(max_workers=nworkers) as pool:
        rl = list(pool.map(lambda u: run_unit_cached(u, tier, keep=keep), light))
    rh = [run_unit_cached(u, tier, keep=keep) for u in heavy]
    units = light + heavy
    results = rl + rh

    violations = []
    known_hits = []
    undecided = []
    proof_obl = proof_dis = 0
    bounded_units = []
    samples = []
    per_class = {}
    functions = []
    assumptions = set()
    solver_s = 0.0
    backends = set()
    cover_total = 0
    for u, r in zip(units, results):
        solver_s += r['solver_s']
        backends.add(r.get('backend', '?'))
        for a in assumption_scan(u):
            assumptions.add(a)
        mine = [o for o in r['obligations'] if pid in o['props']]
        nfail = 0
        for o in mine:
            if o['status'] == 'FAILURE':
                nfail += 1
                kf = [k for k in known if k.get('status') == 'known' and k['key'] == o['key']
                      and k.get('unit', u['name']) == u['name']]
                if kf:
                    known_hits.append((u, o, kf[0]))
                else:
                    violations.append((u, o))
        if r['status'] != 'OK':
            undecided.append((u, r['why']))
        n_ok = sum(1 for o in mine if o['status'] == 'SUCCESS')
        n_unknown = sum(1 for o in mine if o['status'] not in ('SUCCESS', 'FAILURE'))
        if n_unknown and nfail == 0 and r['status'] == 'OK':
            undecided.append((u, '%d obligations neither proved nor refuted' % n_unknown))
        fns = u['enforce'] if isinstance(u.get('enforce'), list) else [u.get('enforce')]
        entry = {'unit': u['name'], 'functions': fns, 'mode': u.get('mode', 'proof'),
                 'obligations': len(mine), 'discharged': n_ok, 'failed': nfail, 'unknown': n_unknown,
                 'solver_s': round(r['solver_s'], 2), 'wall_s': round(r['wall_s'], 2),
                 'backend': r.get('backend'), 'covers_satisfied': sum(1 for c in r['covers'] if c['status'] == 'satisfied'),
                 'covers': len(r['covers']), 'status': r['status'], 'why': r['why'][:500],
                 'reused_from_identical_tree': bool(r.get('cached')),
                 'replaced_callees': u.get('replace', []),
                 'loop_contracts_inserted': len(u.get('loop_contracts', []))}
        cover_total += entry['covers_satisfied']
        if u.get('mode', 'proof') == 'proof':
            proof_obl += len(mine)
            proof_dis += n_ok
            functions.append(entry)
        else:
            entry['bound'] = u.get('bound')
            bounded_units.append(entry)
        for o in mine:
            per_class[o['class']] = per_class.get(o['class'], 0) + 1
        # samples: contract-level obligations first
        for o in mine:
            if o['class'] in ('postcondition', 'assertion', 'precondition', 'loop_invariant_step', 'loop_decreases') and len(samples) < 40:
                samples.append({'unit': u['name'], 'obligation': o['name'], 'key': o['key'], 'status': o['status']})
        log('[%s] unit %-34s %-9s %4d obligations (%d ok, %d failed, %d unknown) solver %.1fs wall %.1fs %s' % (
            pid, u['name'], r['status'], len(mine), n_ok, nfail, n_unknown, r['solver_s'], r['wall_s'], r['why'][:300]))

    # output lines
    rc = 0
    for u, o, k in known_hits:
        print('KNOWN-FINDING: property=%s %s [%s %s]' % (pid, k.get('what', o['key']), u['name'], o['key']))
    seen = set()
    nviol = 0
    for u, o in violations:
        if (u['name'], o['key']) in seen:
            continue
        seen.add((u['name'], o['key']))
        path, reproduced = write_replay_file(pid, u, o, tier)
        nviol += 1
        print('FAILED-OBLIGATION property=%s unit=%s obligation=%s key=%s' % (pid, u['name'], o['name'], o['key']))
        print('VIOLATION property=%s replay=%s%s' % (pid, path, '' if reproduced else ' no-failing-input-found'))
        rc = 1
    if rc == 0 and undecided:
        for u, why in undecided:
            print('UNDECIDED property=%s unit=%s %s' % (pid, u['name'], why[:600]))
        rc = 2

    # evidence
    open_known = len(known_hits) > 0
    level = MANIFEST_LEVELS.get(pid, 'proof')
    all_bounded = proof_obl == 0
    cov = {
        'obligations': proof_obl, 'discharged': proof_dis,
        'checker_cmd': '; '.join(results[0]['cmds'][-2:]) if results and results[0]['cmds'] else 'goto-cc; goto-instrument --dfcc; cbmc',
        'trusted_base': TRUSTED_BASE,
        'functions_under_contract': functions,
        'bounded_units': bounded_units,
        'obligations_by_class': per_class,
        'backends': sorted(backends),
        'solver_seconds': round(solver_s, 2),
        'vacuity_covers_satisfied': cover_total,
        'samples': samples,
        'known_findings_open': [{'unit': u['name'], 'key': o['key'], 'what': k.get('what')} for u, o, k in known_hits],
        'undecided': [{'unit': u['name'], 'why': w[:400]} for u, w in undecided],
        'explanation': 'A unit result marked reused_from_identical_tree was computed by an earlier check run on the byte-identical repository sources and verification files (content hash) and not recomputed. CBMC 6.11 --dfcc contract enforcement on the real source (wrapper TU includes the real file; loop contracts inserted mechanically into a scratch copy). "obligations"/"discharged" count proof-mode units only; bounded units are listed separately with their bound and are not counted as proved.',
    }
    if level == 'model_checking' or (all_bounded and bounded_units):
        nb = sum(b['obligations'] for b in bounded_units)
        cov['states'] = max(1, nb)
        cov['transitions'] = max(1, nb)
        cov['traces_validated_against_impl'] = 0
        cov['explanation'] += ' Level model_checking: bounded symbolic exploration; states/transitions are reported as the number of verification conditions discharged within the bound (CBMC does not enumerate explicit states).'
        level = 'model_checking'
    if level == 'proof' and (open_known or proof_obl != proof_dis or proof_obl == 0):
        level = 'other'
        cov['explanation'] += ' Reported at level "other" on this run because not every proof obligation is discharged (open known finding, undecided or violated).'
    if not samples:
        cov['samples'] = [{'note': 'no contract-level obligations attributed'}]
    ev = {'property_id': pid, 'tier': tier, 'seed': int(os.environ.get('VERIF_SEED', '0') or 0),
          'level': level, 'coverage': cov, 'assumptions': sorted(assumptions),
          'wall_s': round(time.time() - t0, 2), 'violations': nviol}
    os.makedirs(EVID, exist_ok=True)
    json.dump(ev, open(os.path.join(EVID, pid + '.json'), 'w'), indent=1)
    if rc == 0:
        print('OK property=%s tier=%s proof-obligations=%d/%d bounded-units=%d known-findings=%d wall=%.0fs' % (
            pid, tier, proof_dis, proof_obl, len(bounded_units), len(known_hits), time.time() - t0))
    return rc


TRUSTED_BASE = [
    'CBMC 6.11.0 (goto-cc, goto-instrument --dfcc, cbmc) and its SAT/SMT back ends',
    "CBMC's C semantics for x86_64 LP64 (char signed) equal to the real build's",
    "CBMC's libc models: memcpy, memset, malloc/calloc/realloc/free",
    'logging macros set_error/set_fatal_error/zck_log replaced (arguments still evaluated, formatting dropped)',
    'contracts of replaced callees that are external (libc I/O, zstd, regex, OpenSSL, uthash) are assumed',
    'collision / second-preimage resistance of SHA-1/SHA-256/SHA-512 where "same digest => same bytes" is used',
]
MANIFEST_LEVELS = {}
try:
    for c in json.load(open(os.path.join(VERIF, 'MANIFEST.json')))['checks']:
        MANIFEST_LEVELS[c['property_id']] = c['level_claimed']['category']
except Exception:
    pass


def main():
    ap = argparse.ArgumentParser()
    sub = ap.add_subparsers(dest='cmd')
    c = sub.add_parser('check')
    c.add_argument('pid')
    c.add_argument('--tier', default=os.environ.get('VERIF_TIER', 'quick'))
    c.add_argument('--only', default=None)
    c.add_argument('--keep', action='store_true')
    u = sub.add_parser('unit')
    u.add_argument('name')
    u.add_argument('--keep', action='store_true')
    u.add_argument('--tier', default='quick')
    u.add_argument('--verbose', '-v', action='store_true')
    u.add_argument('--replay', action='store_true')
    sub.add_parser('list')
    a = ap.parse_args()
    if a.cmd == 'list':
        for x in load_units():
            print('%-36s %-8s %-8s %s' % (x['name'], x.get('mode', 'proof'), x.get('tier', 'quick'), ','.join(x['properties'])))
        return 0
    if a.cmd == 'unit':
        us = [x for x in load_units() if x['name'] == a.name]
        if not us:
            print('no such unit')
            return 2
        r = run_unit(us[0], a.tier, keep=a.keep)
        print('unit %s: %s %s' % (a.name, r['status'], r['why']))
        print('scratch:', r.get('scratch'), ' solver %.1fs wall %.1fs' % (r['solver_s'], r['wall_s']))
        cnt = {}
        for o in r['obligations']:
            cnt[o['status']] = cnt.get(o['status'], 0) + 1
        print('obligations:', len(r['obligations']), cnt)
        for o in r['obligations']:
            if o.get('unattributed') and not a.verbose:
                continue
            if o['status'] != 'SUCCESS' and (o['status'] == 'FAILURE' or a.verbose):
                print('  %-8s %s  [%s] %s:%s' % (o['status'], o['key'], o['name'], o['file'], o['line']))
                if a.replay and o['status'] == 'FAILURE':
                    ok, text = native_replay(us[0], o, None)
                    print('    replay reproduced=%s' % ok)
                    print('    ' + text.replace('\n', '\n    ')[-2500:])
        for cgoal in r['covers']:
            if cgoal['status'] != 'satisfied' or a.verbose:
                print('  cover line %s: %s%s' % (cgoal['line'], cgoal['status'], ('  ' + cgoal['goal'][6:]) if cgoal['goal'].startswith('COVER probe:') else ''))
        print('covers: %d/%d satisfied' % (sum(1 for c in r['covers'] if c['status'] == 'satisfied'), len(r['covers'])))
        return 0
    if a.cmd == 'check':
        if a.pid == 'C19':
            # C19 is decided by the static-ownership scan of the whole library, not by contract units
            import symtab
            return symtab.check_c19(a.tier)
        only = a.only.split(',') if a.only else None
        return check_property(a.pid, a.tier, only=only, keep=a.keep)
    ap.print_help()
    return 2


if __name__ == '__main__':
    sys.exit(main())
