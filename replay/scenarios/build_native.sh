#!/bin/sh
# Build a scenario program against the REAL library sources with ASan+UBSan.
#   usage: build_native.sh <repo-dir> <scenario.c> <out-exe> [extra gcc args...]
# (bundled SHA back end, zstd enabled: the configuration the CBMC units use)
R="$1"; S="$2"; O="$3"; shift 3
G=$(mktemp -d); trap 'rm -rf $G' EXIT
V=$(sed -n "s/.*version *: *'\([^']*\)'.*/\1/p" "$R/meson.build" | head -1)
sed "s/@version@/$V/" "$R/include/zck.h.in" > "$G/zck.h"
SRCS=$(find "$R/src/lib" -name '*.c' ! -path '*/win32/*' ! -path '*/openssl/*')
exec gcc -g -O1 -fsanitize=address,undefined -fno-omit-frame-pointer -w -std=gnu11 -D_FILE_OFFSET_BITS=64 -DZCHUNK_ZSTD \
    -I"$G" -I"$R/src/lib" "$S" $SRCS -o "$O" -lzstd "$@"
