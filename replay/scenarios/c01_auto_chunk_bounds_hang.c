/* C01/C16 scenario (native, real library): automatic chunking must terminate for every legal
 * minimum/maximum chunk size.  With a maximum below average/4 (8 KiB) or a minimum above average*4
 * (128 KiB) comp_init leaves chunk_auto_max < chunk_auto_min and zck_write spins forever once the chunk
 * under construction reaches chunk_auto_max (the size trigger fires, the chunk is "too small", the same
 * byte is fed again).
 *   usage: c01_auto_chunk_bounds_hang <workdir> <max|0> <min|0> <bytes>
 * exit 0: write+close finished and the file reads back; exit 1: REPLAY-FAIL (hang detected by alarm). */
#include <stdio.h>
#include <stdlib.h>
#include <string.h>
#include <signal.h>
#include <fcntl.h>
#include <unistd.h>
#include <zck.h>
static void on_alarm(int s) { (void)s; const char m[] = "REPLAY-FAIL: zck_write did not return within 10 s (automatic chunking does not terminate)\n"; write(1, m, sizeof m - 1); _exit(1); }
int main(int argc, char **argv) {
    if(argc < 5) return 2;
    long mx = atol(argv[2]), mn = atol(argv[3]); size_t n = (size_t)atol(argv[4]);
    char path[4096]; snprintf(path, sizeof path, "%s/c01_hang.zck", argv[1]);
    int fd = open(path, O_CREAT | O_TRUNC | O_RDWR, 0644);
    zckCtx *z = zck_create();
    if(fd < 0 || !z || !zck_init_write(z, fd)) { printf("setup failed\n"); return 2; }
    if(!zck_set_ioption(z, ZCK_COMP_TYPE, ZCK_COMP_NONE)) return 2;
    if(mx && !zck_set_ioption(z, ZCK_CHUNK_MAX, mx)) { printf("max rejected: %s\n", zck_get_error(z)); return 2; }
    if(mn && !zck_set_ioption(z, ZCK_CHUNK_MIN, mn)) { printf("min rejected: %s\n", zck_get_error(z)); return 2; }
    char *buf = malloc(n); for(size_t i = 0; i < n; i++) buf[i] = (char)(i * 2654435761u >> 11);
    signal(SIGALRM, on_alarm); alarm(10);
    ssize_t w = zck_write(z, buf, n);
    alarm(0);
    if(w != (ssize_t)n || !zck_close(z)) { printf("REPLAY-FAIL: write/close failed: %s\n", zck_get_error(z)); return 1; }
    zck_free(&z); close(fd);
    fd = open(path, O_RDONLY); z = zck_create();
    if(!zck_init_read(z, fd)) { printf("REPLAY-FAIL: cannot read back\n"); return 1; }
    char *rb = malloc(n + 1); ssize_t r = zck_read(z, rb, n + 1);
    if(r != (ssize_t)n || memcmp(rb, buf, n) != 0) { printf("REPLAY-FAIL: read back %zd of %zu bytes / content differs\n", r, n); return 1; }
    for(zckChunk *c = zck_get_first_chunk(z); c; c = zck_get_next_chunk(c))
        if(mx && zck_get_chunk_size(c) > mx) { printf("REPLAY-FAIL: chunk of %zd bytes exceeds configured maximum %ld\n", zck_get_chunk_size(c), mx); return 1; }
    printf("ok: %zu bytes, %zd chunks\n", n, zck_get_chunk_count(z));
    return 0;
}
