/* Sanity program (native, NOT evidence): the arithmetic fact behind the assumed ghost clause
 * C01.buzhash_update.window_full_of_one_byte_never_matches -- for every byte value b, 48 updates with b from the
 * reset state give a hash h with (h & 0x7fff) != 0, and further updates with b keep h.  The CBMC lemma units for
 * this fact are in the attic tier (they do not finish).  Build: gcc -I/repo/src/lib -I<build>/include this.c
 * /repo/src/lib/buzhash/buzhash.c (zmalloc provided below). */
#include <stdio.h>
#include <stdlib.h>
#include <stdint.h>
#include <stdbool.h>
#include "buzhash/buzhash.h"
void *zmalloc(size_t n) { return calloc(1, n); }
int main(void) {
    int bad = 0;
    for(int v = 0; v < 256; v++) {
        buzHash b = {0}; char c = (char)v; uint32_t out = 0, h48;
        for(int k = 0; k < 48; k++) if(!buzhash_update(&b, &c, 48, &out)) return 2;
        h48 = out;
        if((h48 & 0x7fff) == 0) { printf("REPLAY-FAIL: byte %d matches\n", v); bad = 1; }
        for(int k = 0; k < 100; k++) { buzhash_update(&b, &c, 48, &out); if(out != h48) { printf("REPLAY-FAIL: byte %d hash moves\n", v); bad = 1; break; } }
        buzhash_reset(&b);
    }
    if(!bad) printf("ok: no byte value matches after 48 equal bytes\n");
    return bad;
}
