/* C01 scenario: ZCK_CHUNK_MAX / ZCK_CHUNK_MIN took an ssize_t and stored it in an int.  A maximum of 2^32 + 1 passed the
 * "maximum >= minimum" test and was stored as 1, below the configured minimum; with manual chunking zck_write then never
 * returned (the chunk is "full" at the maximum and zck_end_chunk refuses it as smaller than the minimum).
 * exit 0: the option is rejected, or the write terminates and the data reads back; exit 1: the write path hangs (alarm). */
#include <stdio.h>
#include <stdlib.h>
#include <string.h>
#include <signal.h>
#include <unistd.h>
#include <fcntl.h>
#include <zck.h>
static void on_alarm(int s) { (void)s; write(2, "write path did not terminate\n", 29); _exit(1); }
int main(void) {
    char path[] = "/tmp/c01trunc.XXXXXX"; int fd = mkstemp(path); unlink(path);
    zckCtx *z = zck_create();
    if(fd < 0 || !z || !zck_init_write(z, fd)) return 2;
    if(!zck_set_ioption(z, ZCK_MANUAL_CHUNK, 1) || !zck_set_ioption(z, ZCK_CHUNK_MAX, 10000) || !zck_set_ioption(z, ZCK_CHUNK_MIN, 5000)) return 2;
    if(!zck_set_ioption(z, ZCK_CHUNK_MAX, ((ssize_t)1 << 32) + 1)) { printf("oversized maximum rejected\n"); return 0; }
    signal(SIGALRM, on_alarm); alarm(5);
    char *buf = calloc(1, 20000);
    ssize_t w = zck_write(z, buf, 20000);
    printf("zck_write returned %zd\n", w);
    return 0;
}
