/* C01 scenario (native, real library): a successful close must not lose bytes.  Manual chunking with a
 * minimum chunk size: the bytes written after the last chunk boundary are fewer than the minimum, so
 * zck_end_chunk() inside zck_close() refuses to end the chunk, returns a non-negative value, and
 * zck_close() goes on to write a header whose index lacks the pending chunk.
 *   usage: c01_final_short_chunk_lost <workdir> <comp: 0 none | 2 zstd>
 * exit 0: file reads back byte-identical; exit 1: REPLAY-FAIL. */
#include <stdio.h>
#include <stdlib.h>
#include <string.h>
#include <fcntl.h>
#include <unistd.h>
#include <zck.h>
int main(int argc, char **argv) {
    if(argc < 3) return 2;
    char path[4096]; snprintf(path, sizeof path, "%s/c01_short.zck", argv[1]);
    int fd = open(path, O_CREAT | O_TRUNC | O_RDWR, 0644);
    zckCtx *z = zck_create();
    if(fd < 0 || !z || !zck_init_write(z, fd)) return 2;
    if(!zck_set_ioption(z, ZCK_COMP_TYPE, atoi(argv[2])) || !zck_set_ioption(z, ZCK_MANUAL_CHUNK, 1)) return 2;
    if(!zck_set_ioption(z, ZCK_CHUNK_MAX, 4096) || !zck_set_ioption(z, ZCK_CHUNK_MIN, 1000)) return 2;
    char data[1500]; for(int i = 0; i < 1500; i++) data[i] = (char)('a' + i % 23);
    if(zck_write(z, data, 1200) != 1200 || zck_end_chunk(z) < 0) return 2;     /* a full chunk of 1200 bytes */
    if(zck_write(z, data + 1200, 300) != 300) return 2;                        /* 300 < minimum: last, short chunk */
    if(!zck_close(z)) { printf("close reported failure (acceptable): %s\n", zck_get_error(z)); return 0; }
    zck_free(&z); close(fd);
    fd = open(path, O_RDONLY); z = zck_create();
    if(!zck_init_read(z, fd)) { printf("REPLAY-FAIL: close() succeeded but the file does not open: %s\n", zck_get_error(z)); return 1; }
    char rb[2000]; ssize_t r = zck_read(z, rb, sizeof rb);
    if(r != 1500 || memcmp(rb, data, 1500) != 0) { printf("REPLAY-FAIL: close() succeeded but only %zd of 1500 bytes read back (index has %zd entries)\n", r, zck_get_chunk_count(z)); return 1; }
    printf("ok: 1500 bytes read back\n");
    return 0;
}
