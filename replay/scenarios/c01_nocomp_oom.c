/* C01/C03 scenario (native, real library, no sanitizer: calloc is interposed): the pass-through codec's compress
 * hook tests `!dst` instead of `!*dst` after its allocation, so a failed allocation is followed by
 * memcpy(NULL, src, n).  The allocation of exactly 3001 bytes is made to fail once.
 *   usage: c01_nocomp_oom <workdir>     exit 0: zck_write reported the failure; killed by SIGSEGV otherwise */
#define _GNU_SOURCE
#include <stdio.h>
#include <stdlib.h>
#include <string.h>
#include <fcntl.h>
#include <unistd.h>
#include <zck.h>
extern void *__libc_calloc(size_t, size_t);
static int fail_armed;
void *calloc(size_t n, size_t s) {
    if(fail_armed && n * s == 3001) { fail_armed = 0; return NULL; }
    return __libc_calloc(n, s);
}
int main(int argc, char **argv) {
    if(argc < 2) return 2;
    char path[4096]; snprintf(path, sizeof path, "%s/c01_oom.zck", argv[1]);
    int fd = open(path, O_CREAT | O_TRUNC | O_RDWR, 0644);
    zckCtx *z = zck_create();
    if(fd < 0 || !z || !zck_init_write(z, fd)) return 2;
    if(!zck_set_ioption(z, ZCK_COMP_TYPE, ZCK_COMP_NONE) || !zck_set_ioption(z, ZCK_MANUAL_CHUNK, 1)) return 2;
    static char data[3001]; memset(data, 'x', sizeof data);
    fail_armed = 1;
    ssize_t r = zck_write(z, data, sizeof data);
    fprintf(stderr, "zck_write returned %zd (%s)\n", r, r < 0 ? "failure reported: ok" : "REPLAY-FAIL: allocation failure not reported");
    return r < 0 ? 0 : 1;
}
