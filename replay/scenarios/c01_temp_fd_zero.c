/* C01 scenario (native, real library): "... regardless of which file descriptors are free in the calling
 * process".  Descriptor 0 is closed before zck_init_write(), so the temp file of the writer gets descriptor 0.
 * comp_init() reads `temp_fd == 0` as "no temp file" and skips the (empty) dictionary entry that every zchunk
 * file starts with; zck_clear()/zck_close() read it the same way and never close the temp file.
 *   usage: c01_temp_fd_zero <workdir> <close0: 0|1>
 * exit 0: file reads back byte-identical with the same number of index entries as in the reference run;
 * exit 1: REPLAY-FAIL. */
#include <stdio.h>
#include <stdlib.h>
#include <string.h>
#include <fcntl.h>
#include <unistd.h>
#include <zck.h>
int main(int argc, char **argv) {
    if(argc < 3) return 2;
    char path[4096]; snprintf(path, sizeof path, "%s/c01_fd0.zck", argv[1]);
    int fd = open(path, O_CREAT | O_TRUNC | O_RDWR, 0644);
    if(atoi(argv[2])) close(0);                       /* the lowest free descriptor is now 0 */
    zckCtx *z = zck_create();
    if(fd < 0 || !z || !zck_init_write(z, fd)) { fprintf(stderr, "setup failed\n"); return 2; }
    if(!zck_set_ioption(z, ZCK_COMP_TYPE, ZCK_COMP_NONE)) return 2;
    char data[3000]; for(int i = 0; i < 3000; i++) data[i] = (char)('a' + i % 23);
    if(zck_write(z, data, 3000) != 3000) { fprintf(stderr, "write failed: %s\n", zck_get_error(z)); return 2; }
    if(!zck_close(z)) { fprintf(stderr, "close reported failure (acceptable): %s\n", zck_get_error(z)); return 0; }
    zck_free(&z); close(fd);
    fd = open(path, O_RDONLY); z = zck_create();
    if(!zck_init_read(z, fd)) { fprintf(stderr, "REPLAY-FAIL: close() succeeded but the file does not open: %s\n", zck_get_error(z)); return 1; }
    ssize_t n = zck_get_chunk_count(z);
    char rb[4000]; ssize_t r = zck_read(z, rb, sizeof rb);
    if(r != 3000 || memcmp(rb, data, 3000) != 0) { fprintf(stderr, "REPLAY-FAIL: close() succeeded but %zd of 3000 bytes read back\n", r); return 1; }
    /* every zchunk file starts with the dictionary entry (empty when there is no dictionary): 1 + data chunks */
    zckChunk *c0 = zck_get_first_chunk(z);
    if(c0 == NULL || zck_get_chunk_size(c0) != 0) { fprintf(stderr, "REPLAY-FAIL: index has %zd entries and the first one is not the (empty) dictionary entry (its size is %zd): readers treat chunk 0 as the dictionary\n", n, c0 ? zck_get_chunk_size(c0) : -1); return 1; }
    fprintf(stderr, "ok: 3000 bytes read back, %zd index entries, first entry is the empty dictionary entry\n", n);
    zck_free(&z); close(fd);
    return 0;
}
