#!/bin/sh
# C02 scenario: a valid zstd file whose index entry declares MORE uncompressed bytes than the frame holds,
# header re-sealed.  The reader must fail; before fix 19138c4 unzck returned 0 and delivered the content
# padded with zero bytes.  usage: c02_declared_size_mismatch.sh <repo-build-dir>
B="${1:-/repo/_build}"; T=$(mktemp -d); trap 'rm -rf $T' EXIT
head -c 5000 /repo/test/files/LICENSE.fodt > $T/in.txt
$B/src/zck -m -o $T/a.zck $T/in.txt || exit 2
python3 "$(dirname "$0")/../zckedit.py" set-chunk $T/a.zck $T/c.zck --chunk 1 --length 6000 || exit 2
$B/src/unzck -c $T/c.zck > $T/out.bin 2>$T/err; RC=$?
echo "unzck rc=$RC, $(wc -c < $T/out.bin) bytes delivered (original 5000)"
if [ $RC -eq 0 ] && ! cmp -s $T/out.bin $T/in.txt; then echo "REPLAY-FAIL: different content delivered with success"; exit 1; fi
exit 0
