#!/bin/bash
# C03 (undefined behaviour): reading any file passed a NULL buffer to memcpy (size 0) in comp_add_to_dc /
# comp_read_from_dc while the decoded buffer was still empty (C11 7.24.1p2; UBSan nonnull-attribute).
# usage: c03_memcpy_null_empty_dc.sh <repo-tree>     exit 1 = UBSan report (defect present), 0 = clean
R="${1:-/repo}"; T=$(mktemp -d); trap 'rm -rf $T' EXIT
sed "s/@version@/0/" $R/include/zck.h.in > $T/zck.h
cat > $T/rd.c <<'C'
#include <fcntl.h>
#include <stdio.h>
#include <unistd.h>
#include "zck.h"
int main(int argc, char **argv) {
    int fd = open(argv[1], O_RDONLY); zckCtx *z = zck_create();
    if(fd < 0 || !zck_init_read(z, fd)) return 2;
    char buf[4096]; ssize_t r; while((r = zck_read(z, buf, sizeof buf)) > 0);
    return r < 0 ? 2 : 0;
}
C
SRC=$(find $R/src/lib -name '*.c' | grep -v -e win32 -e openssl)
gcc -g -O0 -fsanitize=undefined -fno-sanitize-recover=undefined -D_FILE_OFFSET_BITS=64 -DZCHUNK_ZSTD -w -I$T -I$R/src/lib $T/rd.c $SRC -lzstd -o $T/rd || exit 3
F=$(ls $R/test/files/*.zck | head -1)
$T/rd $F 2>&1 | grep -q "runtime error: null pointer passed as argument" && { echo "UBSan: null pointer passed to memcpy while reading $F"; exit 1; }
echo "clean"; exit 0
