/* C05 scenario (native, real library, public API only): a FAITHFUL range response for a request that includes a
 * missing chunk that stores no bytes (the empty dictionary chunk 0 of every file written without a dictionary, on a
 * target whose validity flags were not established by zck_find_valid_chunks: all flags 0 after zck_read_header).
 * Since fix 78f9ce7 such a chunk is listed in the range index with size 0.  dl_write_range selects it
 * (write_in_chunk = 0) and returns without looking at the bytes it was given: at the start of a response the call
 * returns 0 ("error") with no error set; in the middle of a buffer the remaining bytes of that invocation are dropped.
 *   build: replay/scenarios/build_native.sh <repo> c05_empty_missing_chunk_faithful_response.c <exe>
 *   exit 0: the faithful response was accepted and every chunk is valid; exit 1: it was refused / chunks not valid. */
#define _GNU_SOURCE
#include <stdio.h>
#include <stdlib.h>
#include <string.h>
#include <unistd.h>
#include <fcntl.h>
#include <zck.h>


static char payload[3000];

/* builds a two-chunk file, returns the header length; data section is copied to *data/*data_len */
static int build(const char *src_name, const char *tgt_name, char **data, size_t *data_len) {
    for(size_t i = 0; i < sizeof payload; i++) payload[i] = (char)(i * 7 + (i >> 5));
    int fd = open(src_name, O_RDWR | O_CREAT | O_TRUNC, 0600);
    zckCtx *w = zck_create();
    if(fd < 0 || !w || !zck_init_write(w, fd)) return 0;
    if(!zck_set_ioption(w, ZCK_COMP_TYPE, ZCK_COMP_NONE) || !zck_set_ioption(w, ZCK_MANUAL_CHUNK, 1)) return 0;
    if(zck_write(w, payload, 1500) != 1500 || zck_end_chunk(w) < 0) return 0;
    if(zck_write(w, payload + 1500, 1500) != 1500 || zck_end_chunk(w) < 0) return 0;
    if(!zck_close(w)) return 0;
    zck_free(&w);
    /* read it back to learn the header length */
    lseek(fd, 0, SEEK_SET);
    zckCtx *r = zck_create();
    if(!r || !zck_init_read(r, fd)) return 0;
    ssize_t hl = zck_get_header_length(r);
    off_t total = lseek(fd, 0, SEEK_END);
    zck_free(&r);
    char *all = malloc(total);
    if(pread(fd, all, total, 0) != total) return 0;
    close(fd);
    /* target: header only, data section zero (as after a header download + ftruncate) */
    int tfd = open(tgt_name, O_RDWR | O_CREAT | O_TRUNC, 0600);
    if(tfd < 0 || write(tfd, all, hl) != hl || ftruncate(tfd, total) != 0) return 0;
    close(tfd);
    *data_len = total - hl;
    *data = malloc(*data_len);
    memcpy(*data, all + hl, *data_len);
    free(all);
    return (int)hl;
}


static int attempt(const char *tgt_name, const char *data, size_t data_len, int mark_first) {
    int tfd = open(tgt_name, O_RDWR);
    zckCtx *t = zck_create();
    if(tfd < 0 || !t || !zck_init_adv_read(t, tfd) || !zck_read_lead(t) || !zck_read_header(t)) { printf("cannot open target\n"); exit(2); }
    if(mark_first) { if(zck_find_valid_chunks(t) == 0) exit(2); zck_reset_failed_chunks(t); }
    zckDL *dl = zck_dl_init(t);
    zckRange *range = zck_get_missing_range(t, 10);
    if(!dl || !range || !zck_dl_set_range(dl, range)) { printf("cannot set range\n"); exit(2); }
    char *body = malloc(data_len);
    memcpy(body, data, data_len);
    size_t r = zck_write_chunk_cb(body, 1, data_len, dl);
    size_t r2 = 0;
    if(r == data_len) r2 = zck_write_chunk_cb(body, 1, 0, dl);   /* nothing more to say */
    int valid = 0, n = 0, empty_missing = 0;
    for(zckChunk *c = zck_get_first_chunk(t); c; c = zck_get_next_chunk(c), n++) {
        if(zck_get_chunk_valid(c) == 1) valid++;
    }
    printf("%s zck_find_valid_chunks: missing before=%s; zck_write_chunk_cb(%zu faithful bytes) returned %zu; chunks valid: %d of %d; error: %s\n",
           mark_first ? "with   " : "without", mark_first ? "data chunks" : "all incl. empty chunk 0", data_len, r, valid, n, zck_get_error(t));
    (void)r2; (void)empty_missing;
    free(body);
    zck_dl_free(&dl);
    zck_range_free(&range);
    zck_free(&t);
    close(tfd);
    return r == data_len && valid >= n - 1;
}

int main(void) {
    char src_name[] = "/tmp/c05_em_src_XXXXXX", tgt_name[] = "/tmp/c05_em_tgt_XXXXXX";
    close(mkstemp(src_name)); close(mkstemp(tgt_name));
    char *data = NULL; size_t data_len = 0;
    if(!build(src_name, tgt_name, &data, &data_len)) { printf("cannot build test file\n"); return 2; }
    int ok_marked = attempt(tgt_name, data, data_len, 1);
    free(data); data = NULL;
    /* fresh target again (the first attempt filled it) */
    if(!build(src_name, tgt_name, &data, &data_len)) return 2;
    int ok_unmarked = attempt(tgt_name, data, data_len, 0);
    unlink(src_name); unlink(tgt_name);
    free(data);
    if(!ok_marked || !ok_unmarked) { printf("DEFECT: a faithful response was refused (empty missing chunk in the request)\n"); return 1; }
    return 0;
}
