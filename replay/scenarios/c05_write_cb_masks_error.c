/* C05 / C12 scenario (native, real library, public API only): a client write callback chained behind
 * zck_write_chunk_cb (zck_dl_set_write_cb, e.g. a progress meter that returns l*c) replaces the library's
 * verdict.  A range body whose bytes do not match the chunk checksum is zero-filled and the chunk is marked
 * failed -- but the callback returns l*c ("all bytes taken") instead of reporting the error, so the transfer
 * goes on as if nothing had happened.  Same for zck_write_zck_header_cb: a failed/short write(2) is masked.
 *   build: gcc -fsanitize=address,undefined -I<builddir>/include c05_write_cb_masks_error.c -L<builddir>/src/lib -lzck
 *   exit 0: the callback reported the error in both configurations; exit 1: the error was masked (the defect). */
#define _GNU_SOURCE
#include <stdio.h>
#include <stdlib.h>
#include <string.h>
#include <unistd.h>
#include <fcntl.h>
#include <zck.h>

static size_t progress_cb(void *ptr, size_t l, size_t c, void *data) {
    (void)ptr; *(size_t *)data += l * c;     /* a progress meter: counts bytes, always "takes" them */
    return l * c;
}

static char payload[3000];

/* builds a two-chunk file, returns the header length; data section is copied to *data/*data_len */
static int build(const char *src_name, const char *tgt_name, char **data, size_t *data_len) {
    for(size_t i = 0; i < sizeof payload; i++) payload[i] = (char)(i * 7 + (i >> 5));
    int fd = open(src_name, O_RDWR | O_CREAT | O_TRUNC, 0600);
    zckCtx *w = zck_create();
    if(fd < 0 || !w || !zck_init_write(w, fd)) return 0;
    if(!zck_set_ioption(w, ZCK_COMP_TYPE, ZCK_COMP_NONE) || !zck_set_ioption(w, ZCK_MANUAL_CHUNK, 1)) return 0;
    if(zck_write(w, payload, 1500) != 1500 || zck_end_chunk(w) < 0) return 0;
    if(zck_write(w, payload + 1500, 1500) != 1500 || zck_end_chunk(w) < 0) return 0;
    if(!zck_close(w)) return 0;
    zck_free(&w);
    /* read it back to learn the header length */
    lseek(fd, 0, SEEK_SET);
    zckCtx *r = zck_create();
    if(!r || !zck_init_read(r, fd)) return 0;
    ssize_t hl = zck_get_header_length(r);
    off_t total = lseek(fd, 0, SEEK_END);
    zck_free(&r);
    char *all = malloc(total);
    if(pread(fd, all, total, 0) != total) return 0;
    close(fd);
    /* target: header only, data section zero (as after a header download + ftruncate) */
    int tfd = open(tgt_name, O_RDWR | O_CREAT | O_TRUNC, 0600);
    if(tfd < 0 || write(tfd, all, hl) != hl || ftruncate(tfd, total) != 0) return 0;
    close(tfd);
    *data_len = total - hl;
    *data = malloc(*data_len);
    memcpy(*data, all + hl, *data_len);
    free(all);
    return (int)hl;
}

/* one range download of ALL chunks with one payload byte flipped; returns 1 if the callback reported the error */
static int attempt(const char *tgt_name, const char *data, size_t data_len, int with_cb) {
    int tfd = open(tgt_name, O_RDWR);
    zckCtx *t = zck_create();
    if(tfd < 0 || !t || !zck_init_adv_read(t, tfd) || !zck_read_lead(t) || !zck_read_header(t)) { printf("cannot open target: %s\n", t ? zck_get_error(t) : ""); exit(2); }
    if(zck_find_valid_chunks(t) == 0) { printf("find_valid_chunks failed\n"); exit(2); }
    zck_reset_failed_chunks(t);
    zckDL *dl = zck_dl_init(t);
    zckRange *range = zck_get_missing_range(t, 10);
    if(!dl || !range || !zck_dl_set_range(dl, range)) { printf("cannot set range\n"); exit(2); }
    size_t seen = 0;
    if(with_cb && (!zck_dl_set_write_cb(dl, progress_cb) || !zck_dl_set_write_data(dl, &seen))) exit(2);
    char *body = malloc(data_len);
    memcpy(body, data, data_len);
    body[10] ^= 0x40;                            /* corrupt one byte of the first data chunk */
    size_t r = zck_write_chunk_cb(body, 1, data_len, dl);
    int failed = 0, n = 0;
    for(zckChunk *c = zck_get_first_chunk(t); c; c = zck_get_next_chunk(c), n++)
        if(zck_get_chunk_valid(c) == -1) failed++;
    printf("%s client callback: zck_write_chunk_cb(%zu bytes) returned %zu; chunks marked failed: %d of %d; error reported by the callback: %s\n",
           with_cb ? "with   " : "without", data_len, r, failed, n, r != data_len ? "yes" : "NO");
    free(body);
    zck_dl_free(&dl);
    zck_range_free(&range);
    zck_free(&t);
    close(tfd);
    return failed > 0 ? (r != data_len) : 1;
}

int main(void) {
    char src_name[] = "/tmp/c05_cb_src_XXXXXX", tgt_name[] = "/tmp/c05_cb_tgt_XXXXXX";
    close(mkstemp(src_name)); close(mkstemp(tgt_name));
    char *data = NULL; size_t data_len = 0;
    if(!build(src_name, tgt_name, &data, &data_len)) { printf("cannot build test file\n"); return 2; }
    int ok_plain = attempt(tgt_name, data, data_len, 0);
    int ok_cb = attempt(tgt_name, data, data_len, 1);
    unlink(src_name); unlink(tgt_name);
    free(data);
    if(!ok_plain || !ok_cb) { printf("DEFECT: a checksum mismatch was not reported by the callback\n"); return 1; }
    return 0;
}
