/* C09 / C12 scenario (native, real library): the validity scan must not accept a chunk whose stored bytes are missing.
 * Writes a file through the real writer (manual chunking, uncompressed codec so that equal content gives equal stored
 * bytes) whose last two chunks are identical, cuts the file right before the last chunk, and runs the scan and the
 * data-checksum validation on the truncated file.  Case 1 cuts the whole last chunk (every read of it returns 0 bytes),
 * case 2 leaves its first byte (the read is short: 1 byte instead of 3000).
 *   usage: c09_truncated_duplicate_chunk <workdir>
 * exit 0: the truncated file is reported damaged (last chunk failed, verdicts -1); exit 1: REPLAY-FAIL lines. */
#include <stdio.h>
#include <stdlib.h>
#include <string.h>
#include <fcntl.h>
#include <unistd.h>
#include <sys/stat.h>
#include <zck.h>

#define CH 3000
static int run(const char *dir, int cut) {
    char path[4096]; snprintf(path, sizeof path, "%s/c09_dup.zck", dir);
    char a[CH], b[CH];
    for(int i = 0; i < CH; i++) { a[i] = (char)(i * 7 + 1); b[i] = (char)(i * 13 + 5); }
    int fd = open(path, O_RDWR | O_CREAT | O_TRUNC, 0644);
    zckCtx *w = zck_create();
    if(fd < 0 || !w || !zck_init_write(w, fd)) return 2;
    if(!zck_set_ioption(w, ZCK_COMP_TYPE, ZCK_COMP_NONE) || !zck_set_ioption(w, ZCK_MANUAL_CHUNK, 1)) return 2;
    if(zck_write(w, a, CH) != CH || zck_end_chunk(w) < 0) return 2;
    if(zck_write(w, b, CH) != CH || zck_end_chunk(w) < 0) return 2;
    if(zck_write(w, b, CH) != CH || zck_end_chunk(w) < 0) return 2;     /* duplicate of the previous chunk */
    if(!zck_close(w)) return 2;
    zck_free(&w); close(fd);

    struct stat st; stat(path, &st);
    if(truncate(path, st.st_size - cut) != 0) return 2;                  /* the last chunk's stored bytes are gone */

    int fails = 0;
    fd = open(path, O_RDONLY);
    zckCtx *r = zck_create();
    if(fd < 0 || !r || !zck_init_read(r, fd)) { printf("cannot read header: %s\n", r ? zck_get_error(r) : ""); return 2; }
    int v = zck_find_valid_chunks(r);
    zckChunk *last = NULL; int n = 0;
    for(zckChunk *c = zck_get_first_chunk(r); c; c = zck_get_next_chunk(c)) { last = c; n++; }
    printf("file cut by %d bytes: zck_find_valid_chunks = %d, last chunk (%d of %d) valid = %d\n", cut, v, n - 1, n, zck_get_chunk_valid(last));
    if(v == 1) { printf("REPLAY-FAIL: zck_find_valid_chunks reports success (1) on a file whose last chunk is missing\n"); fails++; }
    if(zck_get_chunk_valid(last) == 1) { printf("REPLAY-FAIL: the missing last chunk is marked valid (stale buffer of the previous identical chunk was hashed)\n"); fails++; }
    int d = zck_validate_data_checksum(r);
    printf("zck_validate_data_checksum = %d\n", d);
    if(d == 1) { printf("REPLAY-FAIL: zck_validate_data_checksum reports a matching data checksum on the truncated file\n"); fails++; }
    int c = zck_validate_checksums(r);
    if(c == 1) { printf("REPLAY-FAIL: zck_validate_checksums reports success on the truncated file\n"); fails++; }
    zck_free(&r); close(fd);
    return fails;
}

int main(int argc, char **argv) {
    if(argc < 2) return 2;
    int f = run(argv[1], CH);
    f += run(argv[1], CH - 1);
    return f ? 1 : 0;
}
