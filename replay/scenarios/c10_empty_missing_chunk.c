/* C10 scenario (native, real library, public API only): a missing chunk that stores no bytes.
 * Every zchunk file written without a dictionary starts with an empty dictionary chunk
 * (comp_length == 0).  Right after zck_read_header() every chunk is still marked missing
 * (valid == 0), so zck_get_missing_range() is asked for a request that includes that chunk.
 * Expected (C10): ascending inclusive ranges with start <= end, zck_get_range_count() == number
 * of ranges in the rendered string, every missing chunk with bytes listed in the range index.
 *   usage: c10_empty_missing_chunk <workdir>
 * exit 0: request well formed; exit 1: REPLAY-FAIL lines. */
#include <stdio.h>
#include <stdlib.h>
#include <string.h>
#include <fcntl.h>
#include <unistd.h>
#include <zck.h>
#include "zck_private.h"   /* only to look at the range index of the request */

int main(int argc, char **argv) {
    char path[4096]; int fails = 0;
    snprintf(path, sizeof path, "%s/c10_empty.zck", argc > 1 ? argv[1] : "/tmp");
    int fd = open(path, O_CREAT | O_TRUNC | O_RDWR, 0600);
    zckCtx *w = zck_create();
    if(fd < 0 || !w || !zck_init_write(w, fd)) { printf("setup failed\n"); return 3; }
    zck_set_ioption(w, ZCK_MANUAL_CHUNK, 1);
    char data[3000]; for(size_t i = 0; i < sizeof data; i++) data[i] = (char)(i * 7 + 1);
    zck_write(w, data, sizeof data); zck_end_chunk(w);
    for(size_t i = 0; i < sizeof data; i++) data[i] = (char)(i * 13 + 5);
    zck_write(w, data, sizeof data); zck_end_chunk(w);
    if(!zck_close(w)) { printf("setup failed: %s\n", zck_get_error(w)); return 3; }
    zck_free(&w);

    lseek(fd, 0, SEEK_SET);
    zckCtx *z = zck_create();
    if(!z || !zck_init_read(z, fd)) { printf("setup failed (read)\n"); return 3; }
    ssize_t hdr = zck_get_header_length(z);
    int nchunks = 0, nbytes_chunks = 0;
    for(zckChunk *c = zck_get_first_chunk(z); c; c = zck_get_next_chunk(c)) {
        printf("chunk %d: start %zd stored size %zd valid %d\n", nchunks, zck_get_chunk_start(c), zck_get_chunk_comp_size(c), zck_get_chunk_valid(c));
        nchunks++; if(zck_get_chunk_comp_size(c) > 0) nbytes_chunks++;
    }
    zckRange *r = zck_get_missing_range(z, -1);
    if(!r) { printf("REPLAY-FAIL: no range: %s\n", zck_get_error(z)); return 1; }
    char *s = zck_get_range_char(z, r);
    int count = zck_get_range_count(r);
    printf("header %zd bytes, range string \"%s\", zck_get_range_count %d\n", hdr, s ? s : "(null)", count);
    /* parse the string back */
    int parsed = 0; unsigned long long prev_end = 0;
    for(char *p = s; p && *p;) {
        unsigned long long a, b; int n = 0;
        if(sscanf(p, "%llu-%llu%n", &a, &b, &n) != 2) { printf("REPLAY-FAIL: unparsable range string\n"); fails++; break; }
        if(a > b) { printf("REPLAY-FAIL: C10.zck_get_missing_range.every_range_has_start_le_end: inverted range %llu-%llu\n", a, b); fails++; }
        if(a < (unsigned long long)hdr) { printf("REPLAY-FAIL: C10.zck_get_missing_range.header_never_requested: %llu < %zd\n", a, hdr); fails++; }
        if(parsed > 0 && a < prev_end + 2) { printf("REPLAY-FAIL: C10.zck_get_missing_range.ranges_ascending_disjoint_non_adjacent\n"); fails++; }
        prev_end = b; parsed++; p += n; if(*p == ',') p++;
    }
    if(parsed != count) { printf("REPLAY-FAIL: C10.zck_get_missing_range.count_equals_number_of_ranges: %d ranges rendered, count says %d\n", parsed, count); fails++; }
    int listed = 0;
    for(zckChunk *e = r->index.first; e; e = e->next) { printf("range index entry %d: chunk %zu, %zu bytes\n", listed, (size_t)e->src->number, e->comp_length); listed++; }
    int listed_b = 0; for(zckChunk *e = r->index.first; e; e = e->next) if(e->comp_length > 0) listed_b++;
    if(listed_b < nbytes_chunks) { printf("REPLAY-FAIL: C10.zck_get_missing_range.unlimited_request_covers_every_missing_chunk: %d missing chunks with bytes, range index lists %d of them\n", nbytes_chunks, listed_b); fails++; }
    free(s);
    zck_range_free(&r);
    zck_free(&z); close(fd);
    if(!fails) printf("request well formed\n");
    return fails ? 1 : 0;
}
