/* C10/C03 scenario (native, real library): an allocation failure while a range is being added.
 * range_insert_new links the new node into the list BEFORE it calls index_new_chunk and frees the
 * node when that call fails, leaving prev->next / next->prev pointing at freed memory;
 * zck_get_missing_range then walks the list in zck_range_free.
 * calloc is wrapped (-Wl,--wrap=calloc) and fails exactly once, at the k-th call made while the
 * request is computed, for k = 1..12.
 *   build: build_native.sh <repo> c10_insert_failure_dangling.c <exe> -Wl,--wrap=calloc
 *   usage: c10_insert_failure_dangling <workdir>
 * exit 0: every failing allocation was handled (NULL result, no bad access); ASan aborts otherwise */
#include <stdio.h>
#include <stdlib.h>
#include <string.h>
#include <fcntl.h>
#include <unistd.h>
#include <zck.h>

void *__real_calloc(size_t n, size_t s);
static int fail_at = -1, calls = 0;
void *__wrap_calloc(size_t n, size_t s) {
    if(fail_at > 0 && ++calls == fail_at) return NULL;
    return __real_calloc(n, s);
}

int main(int argc, char **argv) {
    char path[4096];
    snprintf(path, sizeof path, "%s/c10_oom.zck", argc > 1 ? argv[1] : "/tmp");
    int fd = open(path, O_CREAT | O_TRUNC | O_RDWR, 0600);
    zckCtx *w = zck_create();
    if(fd < 0 || !w || !zck_init_write(w, fd)) { printf("setup failed\n"); return 3; }
    zck_set_ioption(w, ZCK_MANUAL_CHUNK, 1);
    char data[3000];
    for(int c = 0; c < 3; c++) { for(size_t i = 0; i < sizeof data; i++) data[i] = (char)(i * (7 + c) + c); zck_write(w, data, sizeof data); zck_end_chunk(w); }
    if(!zck_close(w)) { printf("setup failed: %s\n", zck_get_error(w)); return 3; }
    zck_free(&w);
    for(int k = 1; k <= 12; k++) {
        lseek(fd, 0, SEEK_SET);
        zckCtx *z = zck_create();
        if(!z || !zck_init_read(z, fd)) { printf("setup failed (read)\n"); return 3; }
        calls = 0; fail_at = k;
        zckRange *r = zck_get_missing_range(z, -1);
        fail_at = -1;
        printf("allocation %d fails: zck_get_missing_range returned %s\n", k, r ? "a request" : "NULL");
        fflush(stdout);
        if(r) zck_range_free(&r);
        zck_free(&z);
    }
    printf("every allocation failure handled\n");
    return 0;
}
