/* C10 scenario (native, real library): the rendered range string must be the comma-separated
 * start-end list of exactly the ranges of the request.
 *   case 1: empty request (no ranges)          -> must not write outside its buffer
 *   case 2: n ranges of 8 characters each ("100-200,"), n = 5000: the 4096th range ends exactly
 *           at the end of the initial 32768-byte buffer
 * The request list is built directly (zck_private.h); zck_get_range_char is the real function.
 *   usage: c10_range_string <case 1|2>     exit 0: ok; 1: REPLAY-FAIL; ASan aborts on a bad write */
#include <stdio.h>
#include <stdlib.h>
#include <string.h>
#include <zck.h>
#include "zck_private.h"

int main(int argc, char **argv) {
    int which = argc > 1 ? atoi(argv[1]) : 2;
    zckCtx *zck = zck_create();
    zckRange *r = calloc(1, sizeof(*r));
    int n = which == 1 ? 0 : 5000;
    zckRangeItem *prev = NULL;
    for(int i = 0; i < n; i++) {
        zckRangeItem *it = calloc(1, sizeof(*it));
        it->start = 100 + (size_t)(i % 8) * 100; it->end = it->start + 50;     /* "100-150," ... always 8 characters */
        it->prev = prev; if(prev) prev->next = it; else r->first = it;
        prev = it;
    }
    r->count = n;
    char *s = zck_get_range_char(zck, r);
    if(which == 1) {
        printf("empty request rendered as %s%s%s\n", s ? "\"" : "", s ? s : "NULL", s ? "\"" : "");
        if(!s) { printf("REPLAY-FAIL: C10.zck_get_range_char.renders_every_list: NULL for an empty request (error: %s)\n", zck_get_error(zck)); return 1; }
        return 0;
    }
    if(!s) { printf("REPLAY-FAIL: no string: %s\n", zck_get_error(zck)); return 1; }
    int rendered = 0;
    for(char *p = s; *p; ) { unsigned long long a, b; int k = 0; if(sscanf(p, "%llu-%llu%n", &a, &b, &k) != 2) break; rendered++; p += k; if(*p == ',') p++; }
    printf("request has %d ranges, string length %zu, ranges in the string: %d\n", n, strlen(s), rendered);
    if(rendered != n) { printf("REPLAY-FAIL: C10.zck_get_range_char.string_is_the_comma_separated_start_end_list: %d of %d ranges rendered\n", rendered, n); return 1; }
    return 0;
}
