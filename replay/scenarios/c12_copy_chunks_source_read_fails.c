/* C12 / C08 scenario (native, real library): zck_copy_chunks must not report success when reading the source fails.
 * Builds a source file (manual chunking, uncompressed codec), a target that is a copy of it with the data section
 * zeroed (so every target chunk is missing), opens both, then swaps the source descriptor for a write-only one: lseek
 * still works, every read() fails with EBADF.
 *   usage: c12_copy_chunks_source_read_fails <workdir>
 * exit 0: zck_copy_chunks returns false and no chunk is marked valid; exit 1: REPLAY-FAIL lines. */
#include <stdio.h>
#include <stdlib.h>
#include <string.h>
#include <fcntl.h>
#include <unistd.h>
#include <sys/stat.h>
#include <zck.h>

#define CH 3000
int main(int argc, char **argv) {
    if(argc < 2) return 2;
    char sp[4096], tp[4096]; snprintf(sp, sizeof sp, "%s/c12_src.zck", argv[1]); snprintf(tp, sizeof tp, "%s/c12_tgt.zck", argv[1]);
    char a[CH], b[CH];
    for(int i = 0; i < CH; i++) { a[i] = (char)(i * 7 + 1); b[i] = (char)(i * 13 + 5); }
    int fd = open(sp, O_RDWR | O_CREAT | O_TRUNC, 0644);
    zckCtx *w = zck_create();
    if(fd < 0 || !w || !zck_init_write(w, fd)) return 2;
    if(!zck_set_ioption(w, ZCK_COMP_TYPE, ZCK_COMP_NONE) || !zck_set_ioption(w, ZCK_MANUAL_CHUNK, 1)) return 2;
    if(zck_write(w, a, CH) != CH || zck_end_chunk(w) < 0 || zck_write(w, b, CH) != CH || zck_end_chunk(w) < 0 || !zck_close(w)) return 2;
    zck_free(&w); close(fd);
    /* target: same header, data section zeroed */
    struct stat st; stat(sp, &st);
    char *img = malloc(st.st_size); fd = open(sp, O_RDONLY); if(read(fd, img, st.st_size) != st.st_size) return 2; close(fd);
    memset(img + st.st_size - 2 * CH, 0, 2 * CH);
    fd = open(tp, O_RDWR | O_CREAT | O_TRUNC, 0644); if(write(fd, img, st.st_size) != st.st_size) return 2; close(fd);

    int sfd = open(sp, O_RDONLY), tfd = open(tp, O_RDWR);
    zckCtx *src = zck_create(), *tgt = zck_create();
    if(!zck_init_read(src, sfd) || !zck_init_read(tgt, tfd)) return 2;
    if(zck_find_valid_chunks(tgt) != -1) { printf("setup: zeroed target unexpectedly valid\n"); return 2; }
    int wo = open(sp, O_WRONLY); if(wo < 0 || dup2(wo, sfd) < 0) return 2;     /* from now on read(sfd) = -1 EBADF */
    int fails = 0;
    bool r = zck_copy_chunks(src, tgt);
    printf("zck_copy_chunks = %d, source error: %s\n", r, zck_get_error(src));
    if(r) { printf("REPLAY-FAIL: zck_copy_chunks reports success although every read of the source failed\n"); fails++; }
    for(zckChunk *c = zck_get_first_chunk(tgt); c; c = zck_get_next_chunk(c))
        if(zck_get_chunk_size(c) > 0 && zck_get_chunk_valid(c) == 1) { printf("REPLAY-FAIL: target chunk %zd marked valid\n", zck_get_chunk_number(c)); fails++; }
    zck_free(&src); zck_free(&tgt); free(img);
    return fails ? 1 : 0;
}
