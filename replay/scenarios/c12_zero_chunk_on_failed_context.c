/* C12 scenario (native, real code): zero_chunk must not report success without having written anything.
 * zero_chunk is static, so this file includes the real src/lib/dl/dl.c and is linked against the other objects of the
 * real library (see the build line below).  A context whose error state is already set makes seek_data/write_data
 * return -1, which zero_chunk tests with `!`.
 *   build: gcc -fsanitize=address,undefined -I<repo> -I<repo>/src/lib -I<builddir>/include c12_zero_chunk_on_failed_context.c \
 *          $(ls <builddir>/src/lib/libzck.so.*.p/*.o | grep -v dl_dl.c.o) -lzstd -lcrypto
 *   usage: c12_zero_chunk_on_failed_context <workdir>
 * exit 0: zero_chunk returns false; exit 1: REPLAY-FAIL. */
#include <stdio.h>
#include <fcntl.h>
#include "src/lib/dl/dl.c"

int main(int argc, char **argv) {
    if(argc < 2) return 2;
    char path[4096]; snprintf(path, sizeof path, "%s/c12_zero.bin", argv[1]);
    int fd = open(path, O_RDWR | O_CREAT | O_TRUNC, 0644);
    char junk[100]; memset(junk, 'x', sizeof junk);
    if(fd < 0 || write(fd, junk, sizeof junk) != sizeof junk) return 2;
    zckCtx *zck = zck_create();
    zckChunk chunk = {0};
    zck->fd = fd; zck->data_offset = 10; chunk.start = 20; chunk.comp_length = 50; chunk.zck = zck;
    set_error(zck, "an earlier failure");          /* error_state = 1 */
    bool r = zero_chunk(zck, &chunk);
    char back[100]; if(pread(fd, back, sizeof back, 0) != sizeof back) return 2;
    int zeros = 0; for(int i = 30; i < 80; i++) zeros += back[i] == 0;
    printf("zero_chunk on a context in error returned %d, %d of 50 bytes of the extent are zero\n", r, zeros);
    if(r && zeros != 50) { printf("REPLAY-FAIL: zero_chunk reports success although the chunk's extent was not zero-filled\n"); return 1; }
    return 0;
}
