/* C14 scenario (native, real library): random access must not depend on the request history.
 * Writes a small file through the real writer (manual chunking, 4 data chunks), then issues request
 * sequences with zck_get_chunk_data()/zck_get_chunk_comp_data() and compares every answer with the
 * slice of the original content / of the stored file.
 *   usage: c14_history <workdir> <comp: 0 none | 2 zstd>
 * exit 0: every answer correct; exit 1: REPLAY-FAIL lines. */
#include <stdio.h>
#include <stdlib.h>
#include <string.h>
#include <fcntl.h>
#include <unistd.h>
#include <zck.h>

#define NCH 4
#define CH 3000
static char content[NCH * CH];
static int fails;

static zckChunk *nth(zckCtx *z, int n) { zckChunk *c = zck_get_first_chunk(z); while(n-- > 0 && c) c = zck_get_next_chunk(c); return c; }

static void req(zckCtx *z, int n, size_t bufsize, const char *seq) {
    zckChunk *c = nth(z, n);
    char *buf = calloc(1, bufsize ? bufsize : 1);
    ssize_t want = zck_get_chunk_size(c);
    size_t exp = (size_t)want < bufsize ? (size_t)want : bufsize;
    ssize_t r = zck_get_chunk_data(c, buf, bufsize);
    /* chunk n (n >= 1) holds content[(n-1)*CH .. n*CH) */
    if(r != (ssize_t)exp || (exp && memcmp(buf, content + (size_t)(n - 1) * CH, exp) != 0)) {
        printf("REPLAY-FAIL: sequence [%s]: request of chunk %d (buffer %zu) returned %zd (expected %zu correct bytes): %s\n",
               seq, n, bufsize, r, exp, zck_get_error(z));
        fails++;
        zck_clear_error(z);
    }
    free(buf);
}

static void reqc(zckCtx *z, int fd, int n, size_t bufsize, const char *seq) {
    zckChunk *c = nth(z, n);
    char *buf = calloc(1, bufsize), *ref = calloc(1, bufsize);
    ssize_t clen = zck_get_chunk_comp_size(c);
    size_t exp = (size_t)clen < bufsize ? (size_t)clen : bufsize;
    ssize_t r = zck_get_chunk_comp_data(c, buf, bufsize);
    ssize_t rr = pread(fd, ref, exp, zck_get_chunk_start(c));
    if(r != (ssize_t)exp || rr != (ssize_t)exp || memcmp(buf, ref, exp) != 0) {
        printf("REPLAY-FAIL: sequence [%s]: stored data of chunk %d (buffer %zu) returned %zd bytes, the chunk stores %zd\n", seq, n, bufsize, r, clen);
        fails++;
        zck_clear_error(z);
    }
    free(buf); free(ref);
}

int main(int argc, char **argv) {
    if(argc < 3) return 2;
    int comp = atoi(argv[2]);
    char path[4096]; snprintf(path, sizeof path, "%s/c14_%d.zck", argv[1], comp);
    for(size_t i = 0; i < sizeof content; i++) content[i] = (char)((i * 2654435761u) >> 13);
    zck_set_log_level(ZCK_LOG_NONE);
    int fd = open(path, O_CREAT | O_TRUNC | O_WRONLY, 0644);
    zckCtx *w = zck_create();
    if(fd < 0 || !w || !zck_init_write(w, fd) || !zck_set_ioption(w, ZCK_COMP_TYPE, comp) || !zck_set_ioption(w, ZCK_MANUAL_CHUNK, 1)) return 2;
    for(int i = 0; i < NCH; i++) {
        if(zck_write(w, content + i * CH, CH) != CH || zck_end_chunk(w) < 0) return 2;
    }
    if(!zck_close(w)) return 2;
    zck_free(&w); close(fd);

    static const int seqs[][4] = { {1, 2, -1}, {4, 1, -1}, {4, 4, -1}, {2, 2, -1}, {3, 1, 4, -1}, {1, 1, 1, -1} };
    for(size_t s = 0; s < sizeof seqs / sizeof seqs[0]; s++) {
        for(int partial = 0; partial < 2; partial++) {
            fd = open(path, O_RDONLY);
            zckCtx *z = zck_create();
            if(fd < 0 || !z || !zck_init_read(z, fd)) return 2;
            char name[64] = ""; int first = 1;
            for(int k = 0; k < 4 && seqs[s][k] >= 0; k++) {
                char t[16]; snprintf(t, sizeof t, "%s%d%s", k ? "," : "", seqs[s][k], (partial && first) ? "(partial)" : ""); strcat(name, t);
                /* first request of the sequence optionally with a buffer smaller than the chunk */
                req(z, seqs[s][k], (partial && first) ? 100 : CH, name);
                first = 0;
            }
            zck_free(&z); close(fd);
        }
    }
    /* stored data: buffer larger than the chunk must not return bytes of the following chunk */
    fd = open(path, O_RDONLY);
    zckCtx *z = zck_create();
    if(fd < 0 || !z || !zck_init_read(z, fd)) return 2;
    req(z, 2, 8192, "2 (buffer larger than the chunk)");
    req(z, 4, 8192, "4 (buffer larger than the chunk)");
    reqc(z, fd, 2, 8192, "comp 2 (big buffer)");
    reqc(z, fd, 2, 16, "comp 2 (small buffer)");
    reqc(z, fd, 4, 8192, "comp 4 (big buffer)");
    zck_free(&z); close(fd);
    printf("c14_history comp=%d: %d failing answers\n", comp, fails);
    return fails ? 1 : 0;
}
