/* scenario (C15/C02): a zstd chunk whose stored bytes were altered but still decompress must not be
 * released by a successful read, for any read buffer size.  The file holds incompressible chunks
 * (stored by zstd as raw blocks), one payload byte of the middle chunk is flipped. */
#include <zck.h>
#include <fcntl.h>
#include <unistd.h>
#include <stdio.h>
#include <stdlib.h>
#include <string.h>
#define CH 600
int main(void) {
    const char *fn = "/tmp/zverif_scn_c15.zck";
    unsigned char data[3 * CH]; unsigned s = 12345;
    for(size_t i = 0; i < sizeof data; i++) { s = s * 1103515245u + 12345u; data[i] = (unsigned char)(s >> 16); }
    int fd = open(fn, O_RDWR | O_CREAT | O_TRUNC, 0644);
    zckCtx *z = zck_create();
    if(!zck_init_write(z, fd) || !zck_set_ioption(z, ZCK_MANUAL_CHUNK, 1)) return 2;
    for(int c = 0; c < 3; c++) { if(zck_write(z, (char *)data + c * CH, CH) != CH || zck_end_chunk(z) < 0) return 2; }
    if(!zck_close(z)) return 2;
    zck_free(&z);
    /* locate chunk 2 (index entry 2: entry 0 is the empty dictionary) and flip a byte in its middle */
    lseek(fd, 0, SEEK_SET);
    z = zck_create(); if(!zck_init_read(z, fd)) return 2;
    zckChunk *c = zck_get_chunk(z, 2);
    off_t pos = zck_get_chunk_start(c) + zck_get_chunk_comp_size(c) / 2;
    zck_free(&z);
    unsigned char b; pread(fd, &b, 1, pos); b ^= 0x10; pwrite(fd, &b, 1, pos);
    int bad = 0;
    size_t sizes[] = { 1, 100, CH - 1, CH, CH + 1, 2 * CH, 2 * CH + 1, 3 * CH, 65536 };
    for(unsigned k = 0; k < sizeof sizes / sizeof *sizes; k++) {
        lseek(fd, 0, SEEK_SET);
        z = zck_create(); if(!zck_init_read(z, fd)) return 2;
        char *buf = malloc(sizes[k]); size_t total = 0; int err = 0;
        for(int round = 0; round < 100000; round++) {
            ssize_t r = zck_read(z, buf, sizes[k]);
            if(r < 0) { err = 1; zck_clear_error(z); if(round > 20) break; continue; }
            if(r == 0) break;
            /* a successful read: none of its bytes may come from the damaged chunk [CH, 2*CH) */
            if(total + (size_t)r > CH && total < 2 * CH) {
                printf("SCENARIO-FAIL: buffer %zu: successful zck_read returned bytes %zu..%zu of the stream, which overlap the chunk whose stored bytes fail its checksum\n", sizes[k], total, total + (size_t)r);
                bad = 1; break;
            }
            total += (size_t)r;
        }
        free(buf); zck_free(&z);
    }
    unlink(fn);
    if(bad) return 1;
    printf("scenario ok: no bytes of the damaged chunk were released\n"); return 0;
}
