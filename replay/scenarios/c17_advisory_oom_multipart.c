/* ADVISORY scenario (allocation failure only -- outside the statement of C17, which speaks of bytes delivered):
 * two memory errors in multipart_extract (src/lib/dl/multipart.c) when an allocation fails.
 *   (a) carry-over append: zrealloc() frees the old block when realloc fails (its stated policy), but
 *       multipart_extract returns 0 with mp->buffer still pointing at it -> reset_mp (zck_dl_reset/zck_dl_free,
 *       multipart_get_boundary) frees it a second time.
 *   (b) carry-over save: when zmalloc() fails, `free(buf)` is executed although buf is the CALLER's buffer
 *       (no carried block existed, alloc_buf == false) -> the transport's buffer is freed under its feet.
 * calloc/realloc are interposed (the executable's definitions win over libc's for libzck.so) and fail on demand.
 *   build (no sanitizer: ASan owns the allocator): gcc -g c17_advisory_oom_multipart.c -I<builddir>/include -L<builddir>/src/lib -lzck
 *   run:   ./a.out a   |   ./a.out b      (glibc aborts with "free(): double free detected" = the defect) */
#define _GNU_SOURCE
#include <stdio.h>
#include <stdlib.h>
#include <string.h>
#include <zck.h>
extern void *__libc_calloc(size_t, size_t);
extern void *__libc_realloc(void *, size_t);
static int fail_realloc, fail_calloc_of;
void *realloc(void *p, size_t n) { if(fail_realloc) { fail_realloc = 0; return NULL; } return __libc_realloc(p, n); }
void *calloc(size_t a, size_t b) { if(fail_calloc_of && a * b == (size_t)fail_calloc_of) { fail_calloc_of = 0; return NULL; } return __libc_calloc(a, b); }

int main(int argc, char **argv) {
    int which = argc > 1 ? argv[1][0] : 'a';
    zckCtx *zck = zck_create();
    zckDL *dl = zck_dl_init(zck);
    char hdr[] = "Content-Type: multipart/byteranges; boundary=xyz\r\n";
    const char *part1 = "\r\n--xyz\r\nContent-Type: application/octet-stream\r\nContent-";   /* incomplete part header */
    const char *part2 = "Range: bytes 0-3/10\r\n";
    if(!zck || !dl) return 2;
    zck_header_cb(hdr, 1, strlen(hdr), dl);
    char *body = malloc(strlen(part1));
    memcpy(body, part1, strlen(part1));
    if(which == 'b') {
        fail_calloc_of = (int)strlen(part1);              /* the zmalloc(size) of the carry-over save */
        size_t r = zck_write_chunk_cb(body, 1, strlen(part1), dl);
        printf("(b) callback returned %zu with the save allocation failing; the caller now releases its buffer\n", r);
        fflush(stdout);
        free(body);                                       /* double free: multipart_extract already freed it */
        printf("(b) no abort: not reproduced\n");
        return 0;
    }
    size_t r1 = zck_write_chunk_cb(body, 1, strlen(part1), dl);
    free(body);
    char *body2 = malloc(strlen(part2));
    memcpy(body2, part2, strlen(part2));
    fail_realloc = 1;                                     /* the zrealloc of the carry-over append */
    size_t r2 = zck_write_chunk_cb(body2, 1, strlen(part2), dl);
    free(body2);
    printf("(a) callbacks returned %zu, %zu (second with realloc failing); now zck_dl_free\n", r1, r2);
    fflush(stdout);
    zck_dl_free(&dl);                                     /* reset_mp frees the block zrealloc already freed */
    zck_free(&zck);
    printf("(a) no abort: not reproduced\n");
    return 0;
}
