/* C17 scenario (native, real library, public API only): a boundary parameter with a regex
 * metacharacter makes regcomp() fail inside gen_regex(); gen_regex leaves the allocated but
 * uncompiled regex_t in dl->dl_regex.  The write callback reports the error (returns 0); once the
 * client has cleared the (non-fatal) error on the context and the transfer goes on, the next
 * invocation skips gen_regex (dl_regex != NULL) and calls regexec() on the uncompiled pattern.
 *   build: gcc -fsanitize=address,undefined -I<builddir>/include c17_uncompiled_regex.c -L<builddir>/src/lib -lzck
 *   exit 0: both invocations returned; a crash / sanitizer report = the defect. */
#include <stdio.h>
#include <string.h>
#include <zck.h>
int main(void) {
    zckCtx *zck = zck_create();
    zckDL *dl = zck_dl_init(zck);
    char hdr[] = "Content-Type: multipart/byteranges; boundary=(\r\n";
    char body[] = "\r\n--(\r\nContent-Range: bytes 0-3/10\r\n\r\nabcd";
    char body2[sizeof body];
    if(!zck || !dl) return 2;
    zck_header_cb(hdr, 1, strlen(hdr), dl);
    memcpy(body2, body, sizeof body);
    size_t r1 = zck_write_chunk_cb(body2, 1, strlen(body), dl);
    printf("first invocation returned %zu (error reported: %s)\n", r1, r1 == 0 ? "yes" : "no");
    zck_clear_error(zck);
    memcpy(body2, body, sizeof body);
    size_t r2 = zck_write_chunk_cb(body2, 1, strlen(body), dl);
    printf("second invocation returned %zu\n", r2);
    zck_dl_free(&dl);
    zck_free(&zck);
    return 0;
}
