/* C18 scenario (native, real bundled SHA sources): digests of long messages differ from the standard.
 * Builds against the REAL src/lib/hash/bundled/sha{1,2}/ files of the repo tree given with -I and hashes a message
 * of <len> zero bytes, fed in <piece>-byte updates, with the bundled code and with the FIPS 180-4 reference
 * compression function of spec/spec_sha.h (independently validated against hashlib/coreutils, replay/sha_ref).
 *   build: gcc -O2 -I<verif-root> -I<repo>/src/lib/hash/bundled c18_bundled_sha_long_message.c \
 *              <repo>/src/lib/hash/bundled/sha1/sha1.c <repo>/src/lib/hash/bundled/sha2/sha2.c
 *   usage: c18_bundled_sha_long_message <len> <piece>
 * exit 0: all three digests equal the standard; exit 1: REPLAY-FAIL lines.
 * (Also prints the digests so that `head -c <len> /dev/zero | sha256sum` can be used as a third opinion.) */
#include <stdio.h>
#include <stdlib.h>
#include <string.h>
#include "sha1/sha1.h"
#include "sha2/sha2.h"
#include "spec/spec_sha.h"

static void hex(const char *n, const unsigned char *d, int k) { printf("%-22s", n); for(int i = 0; i < k; i++) printf("%02x", d[i]); printf("\n"); }

/* reference for an all-zero message of len bytes without materialising it */
static unsigned char zmsg_byte(unsigned long long len, int bs, int lf, unsigned long long pos) {
    static const unsigned char z = 0; (void)z;
    if(pos < len) return 0;
    return SPEC_PAD_TAIL_BYTE(len, bs, lf, pos);
}
int main(int argc, char **argv) {
    if(argc < 3) return 2;
    unsigned long long len = strtoull(argv[1], 0, 0), piece = strtoull(argv[2], 0, 0);
    unsigned char *buf = calloc(1, piece ? piece : 1);
    unsigned char d1[20], d256[32], d512[64], r1[20], r256[32], r512[64];
    SHA_CTX c1; sha256_ctx c256; sha512_ctx c512;
    SHA1_Init(&c1); sha256_init(&c256); sha512_init(&c512);
    for(unsigned long long done = 0; done < len; ) {
        unsigned long long n = len - done < piece ? len - done : piece;
        SHA1_Update(&c1, (const sha1_byte *)buf, n); sha256_update(&c256, buf, n); sha512_update(&c512, buf, n);
        done += n;
    }
    SHA1_Final((sha1_byte *)d1, &c1); sha256_final(&c256, d256); sha512_final(&c512, d512);
    /* reference: spec padding + spec compression */
    { uint32_t H[5]; unsigned char b[64]; for(int i = 0; i < 5; i++) H[i] = SPEC_SHA1_IV(i);
      unsigned long long tot = (unsigned long long)SPEC_PAD_TOTAL(len, 64, 8);
      for(unsigned long long p = 0; p < tot; p += 64) { if(p + 64 <= len) memset(b, 0, 64); else for(int i = 0; i < 64; i++) b[i] = zmsg_byte(len, 64, 8, p + i); spec_sha1_compress(H, b); }
      for(int i = 0; i < 20; i++) r1[i] = (unsigned char)(H[i >> 2] >> (8 * (3 - (i & 3)))); }
    { uint32_t H[8]; unsigned char b[64]; for(int i = 0; i < 8; i++) H[i] = SPEC_SHA256_IV(i);
      unsigned long long tot = (unsigned long long)SPEC_PAD_TOTAL(len, 64, 8);
      for(unsigned long long p = 0; p < tot; p += 64) { if(p + 64 <= len) memset(b, 0, 64); else for(int i = 0; i < 64; i++) b[i] = zmsg_byte(len, 64, 8, p + i); spec_sha256_compress(H, b); }
      for(int i = 0; i < 32; i++) r256[i] = (unsigned char)(H[i >> 2] >> (8 * (3 - (i & 3)))); }
    { uint64_t H[8]; unsigned char b[128]; for(int i = 0; i < 8; i++) H[i] = SPEC_SHA512_IV(i);
      unsigned long long tot = (unsigned long long)SPEC_PAD_TOTAL(len, 128, 16);
      for(unsigned long long p = 0; p < tot; p += 128) { if(p + 128 <= len) memset(b, 0, 128); else for(int i = 0; i < 128; i++) b[i] = zmsg_byte(len, 128, 16, p + i); spec_sha512_compress(H, b); }
      for(int i = 0; i < 64; i++) r512[i] = (unsigned char)(H[i >> 3] >> (8 * (7 - (i & 7)))); }
    int bad = 0;
    hex("bundled sha1", d1, 20); hex("fips    sha1", r1, 20);
    hex("bundled sha256", d256, 32); hex("fips    sha256", r256, 32);
    hex("bundled sha512", d512, 64); hex("fips    sha512", r512, 64);
    if(memcmp(d1, r1, 20)) { printf("REPLAY-FAIL: bundled SHA-1 of %llu zero bytes (updates of %llu) differs from FIPS 180-4\n", len, piece); bad = 1; }
    if(memcmp(d256, r256, 32)) { printf("REPLAY-FAIL: bundled SHA-256 of %llu zero bytes (updates of %llu) differs from FIPS 180-4\n", len, piece); bad = 1; }
    if(memcmp(d512, r512, 64)) { printf("REPLAY-FAIL: bundled SHA-512 of %llu zero bytes (updates of %llu) differs from FIPS 180-4\n", len, piece); bad = 1; }
    return bad;
}
