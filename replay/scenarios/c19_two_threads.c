/* C19 native scenario: N threads, each driving ONLY its own contexts and its own files, all at the
 * same time.  Built by engine/symtab.py against the real /repo/src/lib sources with
 * `gcc -fsanitize=thread`; any ThreadSanitizer report that names a library frame is a data race on
 * library-owned memory between independent contexts (the logging settings are set once, before the
 * threads start, as the property allows).
 *
 *   usage: c19_two_threads <workdir> [threads=2] [rounds=30]
 *
 * Per thread i (everything private to the thread: buffers, file names, fds, zckCtx objects):
 *   setup (serial, main thread): old_i.zck and new_i.zck are written with the library itself
 *          (same chunks except one), bad_hash_i.zck / bad_comp_i.zck are copies of new_i.zck whose
 *          lead names an unknown checksum type / whose preface names an unknown compression type
 *          (header digest recomputed so that the file is rejected only at that point).
 *   phase A  open + read headers + read all data + validate checksums of new_i.zck
 *   phase B  zck_copy_chunks(old_i -> tgt_i) where tgt_i is a file holding only the header of
 *            new_i.zck (body zero-filled): the chunk-copy path (dl.c write_and_verify_chunk)
 *   phase C  error paths that format a name for an unknown type: zck_init_read on bad_hash_i.zck /
 *            bad_comp_i.zck (malformed input reaches zck_hash_name_from_type / zck_comp_name_from_type)
 *            and the two public name functions called directly with an out-of-range type; the text
 *            returned must contain the number this thread passed.
 * After each phase the thread compares what it got with the serial expectation (bytes of the
 * target file == bytes of new_i.zck for all copied chunks; name string == "Unknown(<own number>)").
 * Output: one line per mismatch ("MISMATCH ..."), a summary line "SCENARIO threads=.. rounds=..
 * mismatches=..", exit status 0 (TSan reports go to stderr; engine/symtab.py counts them).
 */
#define _GNU_SOURCE
#include <stdio.h>
#include <stdlib.h>
#include <string.h>
#include <stdint.h>
#include <stdbool.h>
#include <unistd.h>
#include <fcntl.h>
#include <pthread.h>
#include <sys/stat.h>
#include <zck.h>
#include "zck_private.h"   /* only for hash_setup/init/update/finalize used while crafting the malformed file */

#define MAXT 8
#define NCHUNK 12
#define CHUNK_BYTES 70000   /* > BUF_SIZE (32768): several passes through the copy buffer per chunk */

static const char *workdir;
static int nthreads = 2, rounds = 30;
static pthread_barrier_t bar;
static int mismatches[MAXT];

static void die(const char *what, zckCtx *z) {
    fprintf(stderr, "SCENARIO-SETUP-ERROR %s: %s\n", what, z ? zck_get_error(z) : "");
    exit(3);
}

static void path_of(char *out, size_t n, const char *stem, int i) {
    snprintf(out, n, "%s/%s_%d.zck", workdir, stem, i);
}

/* deterministic, thread-specific content; chunk k of "old" and "new" are equal except k == 3 */
static void fill_chunk(char *b, int thread, int k, int variant) {
    uint32_t s = 2654435761u * (uint32_t)(thread * 1000 + k * 10 + variant + 1);
    for (int j = 0; j < CHUNK_BYTES; j++) {
        s = s * 1664525u + 1013904223u;
        b[j] = (char)('a' + ((s >> 24) % 23)) ;
        if (j % 64 == 63) b[j] = '\n';
    }
}

static void write_zck(const char *path, int thread, int variant_for_chunk3) {
    int fd = open(path, O_RDWR | O_CREAT | O_TRUNC, 0644);
    if (fd < 0) { perror(path); exit(3); }
    zckCtx *z = zck_create();
    if (!z || !zck_init_write(z, fd)) die("init_write", z);
    if (!zck_set_ioption(z, ZCK_MANUAL_CHUNK, 1)) die("manual chunk", z);
    /* thread 0,2,..: zstd; thread 1,3,..: no compression -> both back ends are exercised */
    if (!zck_set_ioption(z, ZCK_COMP_TYPE, (thread % 2) ? ZCK_COMP_NONE : ZCK_COMP_ZSTD)) die("comp type", z);
    char *b = malloc(CHUNK_BYTES);
    for (int k = 0; k < NCHUNK; k++) {
        fill_chunk(b, thread, k, k == 3 ? variant_for_chunk3 : 0);
        if (zck_write(z, b, CHUNK_BYTES) != CHUNK_BYTES) die("write", z);
        if (zck_end_chunk(z) < 0) die("end_chunk", z);
    }
    free(b);
    if (!zck_close(z)) die("close", z);
    zck_free(&z);
    close(fd);
}

static char *slurp(const char *path, size_t *len) {
    int fd = open(path, O_RDONLY);
    struct stat st;
    if (fd < 0 || fstat(fd, &st) != 0) { perror(path); exit(3); }
    char *b = malloc(st.st_size + 1);
    size_t got = 0;
    while (got < (size_t)st.st_size) {
        ssize_t r = read(fd, b + got, st.st_size - got);
        if (r <= 0) { perror("read"); exit(3); }
        got += r;
    }
    close(fd);
    *len = got;
    return b;
}

static void spit(const char *path, const char *b, size_t len) {
    int fd = open(path, O_RDWR | O_CREAT | O_TRUNC, 0644);
    if (fd < 0 || write(fd, b, len) != (ssize_t)len) { perror(path); exit(3); }
    close(fd);
}

struct per_thread {
    int id;
    char oldp[512], newp[512], tgtp[512], badh[512], badc[512];
    size_t new_len, hdr_len, lead_len, digest_size;
    int hash_type;
    char *new_bytes;          /* serial expectation for the target file */
};
static struct per_thread T[MAXT];

static void setup_thread_files(struct per_thread *t) {
    int i = t->id;
    path_of(t->oldp, sizeof t->oldp, "old", i);
    path_of(t->newp, sizeof t->newp, "new", i);
    path_of(t->tgtp, sizeof t->tgtp, "tgt", i);
    path_of(t->badh, sizeof t->badh, "bad_hash", i);
    path_of(t->badc, sizeof t->badc, "bad_comp", i);
    write_zck(t->oldp, i, 1);
    write_zck(t->newp, i, 2);
    t->new_bytes = slurp(t->newp, &t->new_len);
    /* header length of new_i */
    int fd = open(t->newp, O_RDONLY);
    zckCtx *z = zck_create();
    if (!z || !zck_init_read(z, fd)) die("init_read(new)", z);
    t->hdr_len = zck_get_header_length(z);
    t->lead_len = zck_get_lead_length(z);
    t->digest_size = zck_get_full_digest_size(z);
    t->hash_type = zck_get_full_hash_type(z);
    zck_free(&z);
    close(fd);
    /* malformed copies.  Lead layout: "\0ZCK1" (5 bytes), then compint checksum type (1 byte for
     * small values).  An unknown checksum type 100+i makes read_lead fail via
     * zck_hash_name_from_type.  */
    char *bad = malloc(t->new_len);
    memcpy(bad, t->new_bytes, t->new_len);
    bad[5] = (char)(0x80 | (100 + i));          /* compint: last byte has the top bit set */
    spit(t->badh, bad, t->new_len);
    free(bad);
    /* unknown compression type 50+i with a VALID header digest, so that the file passes the header
     * checksum and is rejected by read_preface -> comp_ioption -> zck_comp_name_from_type.
     * header body = data digest | compint flags | compint compression type | ...
     * header digest = H("\0ZCK1" | lead[5 .. digest) | header body), stored at the end of the lead;
     * recomputed here with the library's own hash functions. */
    bad = malloc(t->new_len);
    memcpy(bad, t->new_bytes, t->new_len);
    {
        size_t dsz = t->digest_size, lead = t->lead_len, body = t->hdr_len - t->lead_len;
        size_t comp_at = lead + dsz + 1;                    /* flags is one byte in these files */
        if ((unsigned char)bad[comp_at] != (0x80 | ((i % 2) ? 0 : 2))) {
            fprintf(stderr, "SCENARIO-SETUP-ERROR compression type byte not where expected (%02x)\n", (unsigned char)bad[comp_at]);
            exit(3);
        }
        bad[comp_at] = (char)(0x80 | (50 + i));
        zckCtx *z2 = zck_create();
        zckHashType ht;
        zckHash h;
        memset(&h, 0, sizeof h);
        if (!z2 || !hash_setup(z2, &ht, t->hash_type) || !hash_init(z2, &h, &ht) ||
            !hash_update(z2, &h, "\0ZCK1", 5) || !hash_update(z2, &h, bad + 5, lead - dsz - 5) ||
            !hash_update(z2, &h, bad + lead, body)) die("recompute header digest", z2);
        char *d = hash_finalize(z2, &h);
        if (!d) die("hash_finalize", z2);
        memcpy(bad + lead - dsz, d, dsz);
        free(d);
        zck_free(&z2);
    }
    spit(t->badc, bad, t->new_len);
    free(bad);
}

static void phase_a(struct per_thread *t) {
    int fd = open(t->newp, O_RDONLY);
    zckCtx *z = zck_create();
    if (!z || fd < 0 || !zck_init_read(z, fd)) { printf("MISMATCH thread %d phase A: init_read failed: %s\n", t->id, z ? zck_get_error(z) : ""); mismatches[t->id]++; goto out; }
    char *b = malloc(CHUNK_BYTES), *want = malloc(CHUNK_BYTES);
    for (int k = 0; k < NCHUNK; k++) {
        ssize_t got = 0;
        while (got < CHUNK_BYTES) {
            ssize_t r = zck_read(z, b + got, CHUNK_BYTES - got);
            if (r <= 0) break;
            got += r;
        }
        fill_chunk(want, t->id, k, k == 3 ? 2 : 0);
        if (got != CHUNK_BYTES || memcmp(b, want, CHUNK_BYTES) != 0) {
            printf("MISMATCH thread %d phase A: chunk %d decoded differently from what was written (%zd bytes)\n", t->id, k, got);
            mismatches[t->id]++;
        }
    }
    free(b); free(want);
    {
        char tail[16];
        ssize_t r = zck_read(z, tail, sizeof tail);   /* end of data: triggers the full checksum check */
        if (r != 0) { printf("MISMATCH thread %d phase A: trailing read returned %zd\n", t->id, r); mismatches[t->id]++; }
    }
    if (zck_validate_checksums(z) != 1) { printf("MISMATCH thread %d phase A: checksums not valid\n", t->id); mismatches[t->id]++; }
out:
    if (z) zck_free(&z);
    if (fd >= 0) close(fd);
}

static void phase_b(struct per_thread *t) {
    /* target = header of new_i + zero body, as a downloader has it after fetching the header */
    char *img = calloc(1, t->new_len);
    memcpy(img, t->new_bytes, t->hdr_len);
    spit(t->tgtp, img, t->new_len);
    free(img);
    int tfd = open(t->tgtp, O_RDWR), sfd = open(t->oldp, O_RDONLY);
    zckCtx *tgt = zck_create(), *src = zck_create();
    if (!tgt || !src || tfd < 0 || sfd < 0) { printf("MISMATCH thread %d phase B: setup\n", t->id); mismatches[t->id]++; goto out; }
    if (!zck_init_adv_read(tgt, tfd) || !zck_read_lead(tgt) || !zck_read_header(tgt)) { printf("MISMATCH thread %d phase B: target header: %s\n", t->id, zck_get_error(tgt)); mismatches[t->id]++; goto out; }
    if (!zck_init_read(src, sfd)) { printf("MISMATCH thread %d phase B: source header: %s\n", t->id, zck_get_error(src)); mismatches[t->id]++; goto out; }
    int fv = zck_find_valid_chunks(tgt);   /* marks the (zero-filled) chunks of the target as missing; result not needed */
    (void)fv;
    if (!zck_copy_chunks(src, tgt)) { printf("MISMATCH thread %d phase B: copy_chunks failed: %s%s\n", t->id, zck_get_error(src), zck_get_error(tgt)); mismatches[t->id]++; goto out; }
    zck_reset_failed_chunks(tgt);
    int missing = zck_missing_chunks(tgt);
    if (missing != 1) { printf("MISMATCH thread %d phase B: %d chunks missing after copy, serial result is 1\n", t->id, missing); mismatches[t->id]++; }
    /* every chunk the library marked valid must hold exactly the bytes of new_i at that place */
    {
        size_t len;
        char *now = slurp(t->tgtp, &len);
        for (zckChunk *c = zck_get_first_chunk(tgt); c; c = zck_get_next_chunk(c)) {
            if (zck_get_chunk_valid(c) != 1) continue;
            size_t at = zck_get_chunk_start(c) /* file offset */, n = zck_get_chunk_comp_size(c);
            if (at + n > len || memcmp(now + at, t->new_bytes + at, n) != 0) {
                printf("MISMATCH thread %d phase B: chunk %zd marked valid but the target file holds other bytes (copy buffer shared with another context?)\n", t->id, zck_get_chunk_number(c));
                mismatches[t->id]++;
            }
        }
        free(now);
    }
out:
    if (tgt) zck_free(&tgt);
    if (src) zck_free(&src);
    if (tfd >= 0) close(tfd);
    if (sfd >= 0) close(sfd);
}

/* error texts end in a newline: print them on one line (thread-private buffer) */
static const char *one_line(const char *msg) {
    static __thread char b[256];
    size_t n = 0;
    for (; msg && msg[n] && n < sizeof b - 1; n++) b[n] = msg[n] == '\n' ? ' ' : msg[n];
    b[n] = 0;
    return b;
}

static void expect_name(struct per_thread *t, const char *what, const char *got, int number) {
    char want[64], have[64];
    snprintf(want, sizeof want, "Unknown(%d)", number);
    /* copy at once: the library hands out a pointer into its own storage */
    strncpy(have, got ? got : "(null)", sizeof have - 1);
    have[sizeof have - 1] = 0;
    if (strcmp(want, have) != 0) {
        printf("MISMATCH thread %d phase C: %s gave \"%s\", serial result is \"%s\"\n", t->id, what, have, want);
        mismatches[t->id]++;
    }
}

static void phase_c(struct per_thread *t, int round) {
    /* malformed file -> error message must name THIS thread's type number */
    int fd = open(t->badh, O_RDONLY);
    zckCtx *z = zck_create();
    if (z && fd >= 0) {
        if (zck_init_read(z, fd)) { printf("MISMATCH thread %d phase C: file with unknown checksum type accepted\n", t->id); mismatches[t->id]++; }
        else {
            char want[64];
            snprintf(want, sizeof want, "Unknown(%d)", 100 + t->id);
            const char *msg = zck_get_error(z);
            if (!msg || !strstr(msg, want)) {
                printf("MISMATCH thread %d phase C: error text \"%s\" does not name %s\n", t->id, one_line(msg), want);
                mismatches[t->id]++;
            }
        }
    }
    if (z) zck_free(&z);
    if (fd >= 0) close(fd);
    fd = open(t->badc, O_RDONLY);
    z = zck_create();
    if (z && fd >= 0) {
        if (zck_init_read(z, fd)) { printf("MISMATCH thread %d phase C: file with unknown compression type accepted\n", t->id); mismatches[t->id]++; }
        else {
            char want[64];
            snprintf(want, sizeof want, "Unknown(%d)", 50 + t->id);
            const char *msg = zck_get_error(z);
            if (!msg || !strstr(msg, want)) {
                printf("MISMATCH thread %d phase C: error text \"%s\" does not name %s\n", t->id, one_line(msg), want);
                mismatches[t->id]++;
            }
        }
    }
    if (z) zck_free(&z);
    if (fd >= 0) close(fd);
    /* the public name functions with a type number private to this thread and round */
    int hn = 1000 * (t->id + 1) + round, cn = 5000 * (t->id + 1) + round;
    expect_name(t, "zck_hash_name_from_type", zck_hash_name_from_type(hn), hn);
    expect_name(t, "zck_comp_name_from_type", zck_comp_name_from_type(cn), cn);
}

static void *worker(void *arg) {
    struct per_thread *t = arg;
    for (int r = 0; r < rounds; r++) {
        pthread_barrier_wait(&bar);
        phase_a(t);
        pthread_barrier_wait(&bar);
        phase_b(t);
        pthread_barrier_wait(&bar);
        for (int k = 0; k < 50; k++)
            phase_c(t, r * 50 + k);
    }
    return NULL;
}

int main(int argc, char **argv) {
    if (argc < 2) { fprintf(stderr, "usage: %s <workdir> [threads] [rounds]\n", argv[0]); return 3; }
    workdir = argv[1];
    if (argc > 2) nthreads = atoi(argv[2]);
    if (argc > 3) rounds = atoi(argv[3]);
    if (nthreads < 1 || nthreads > MAXT) nthreads = 2;
    /* logging configuration: once, before any thread exists (allowed by the property) */
    zck_set_log_level(ZCK_LOG_ERROR);
    zck_set_log_fd(2);
    for (int i = 0; i < nthreads; i++) { T[i].id = i; setup_thread_files(&T[i]); }

    /* serial baseline: the same work, one thread after another, must be mismatch-free */
    for (int i = 0; i < nthreads; i++) { phase_a(&T[i]); phase_b(&T[i]); phase_c(&T[i], 0); }
    int serial = 0;
    for (int i = 0; i < nthreads; i++) { serial += mismatches[i]; mismatches[i] = 0; }
    printf("SERIAL-BASELINE mismatches=%d\n", serial);
    fflush(stdout);

    pthread_t th[MAXT];
    pthread_barrier_init(&bar, NULL, nthreads);
    for (int i = 0; i < nthreads; i++) pthread_create(&th[i], NULL, worker, &T[i]);
    for (int i = 0; i < nthreads; i++) pthread_join(th[i], NULL);
    int total = 0;
    for (int i = 0; i < nthreads; i++) total += mismatches[i];
    printf("SCENARIO threads=%d rounds=%d mismatches=%d serial_baseline_mismatches=%d\n", nthreads, rounds, total, serial);
    return serial ? 3 : 0;
}
