/* scenario: the SECOND read() of the lead fails with -1; zck_read_lead must report failure */
#define _GNU_SOURCE
#include <zck.h>
#include <fcntl.h>
#include <unistd.h>
#include <stdio.h>
#include <string.h>
#include <errno.h>
#include <sys/syscall.h>
static int fail_at = -1, nreads = 0;
ssize_t read(int fd, void *buf, size_t n) {
    if(fail_at >= 0 && ++nreads == fail_at) { errno = EIO; return -1; }
    return syscall(SYS_read, fd, buf, n);
}
int main(void){
  const char *fn = "/tmp/zverif_scn_lead.zck";
  int fd=open(fn,O_RDWR|O_CREAT|O_TRUNC,0644);
  zckCtx *z=zck_create(); if(!zck_init_write(z,fd)) return 2;
  if(!zck_set_ioption(z,ZCK_HASH_FULL_TYPE,ZCK_HASH_SHA512)) return 3;   /* 64-byte digest: lead needs a 2nd read */
  char buf[1000]; memset(buf,'x',sizeof buf);
  if(zck_write(z,buf,sizeof buf)<0) return 4;
  if(!zck_close(z)) return 5; zck_free(&z); close(fd);
  fd=open(fn,O_RDONLY);
  z=zck_create(); if(!zck_init_adv_read(z,fd)) return 6;
  fail_at = 2;
  bool ok = zck_read_lead(z);
  unlink(fn);
  if(ok){ printf("SCENARIO-FAIL: zck_read_lead reported success although the second read() returned -1\n"); return 1;}
  printf("scenario ok: read failure reported (%s)\n", zck_get_error(z)); return 0; }
