/* scenario (C13/C03): a re-sealed header whose optional element declares a size that runs past the
 * end of the header (here: 2^64-1, which wraps the parser's cursor back by one byte).  A
 * specification-derived parser rejects it ("element does not fit inside the header"); the
 * library must not open it.  Build: gcc -I<build>/include this.c -lzck -lcrypto */
#include <zck.h>
#include <openssl/sha.h>
#include <fcntl.h>
#include <unistd.h>
#include <stdio.h>
#include <string.h>
int main(void) {
    unsigned char body[256]; size_t n = 0;
    unsigned char datadig[32]; memset(datadig, 0xAB, 32);
    memcpy(body + n, datadig, 32); n += 32;          /* data checksum (SHA-256)            */
    body[n++] = 0x80 | 2;                             /* flags = 2: optional elements       */
    body[n++] = 0x80 | 0;                             /* compression type 0 (none)          */
    body[n++] = 0x80 | 1;                             /* optional element count = 1         */
    body[n++] = 0x80 | 0;                             /* element id 0                       */
    for(int i = 0; i < 9; i++) body[n++] = 0x7f;      /* element size = 2^64-1 ...          */
    body[n++] = 0x80 | 1;                             /* ... (10-byte encoding)             */
    /* cursor wraps to the byte above (0x81): "index size" = 1; the bytes that follow are read as
     * an index of 1 byte and a signature count */
    body[n++] = 0x80 | 1;                             /* index: chunk checksum type 1       */
    body[n++] = 0x80 | 0;                             /* (count / signature count) 0        */
    body[n++] = 0x80 | 0;
    unsigned char lead[64]; size_t l = 0;
    memcpy(lead, "\0ZCK1", 5); l = 5;
    lead[l++] = 0x80 | 1;                             /* header checksum type: SHA-256      */
    lead[l++] = 0x80 | (unsigned char)n;              /* header size                        */
    SHA256_CTX c; unsigned char dig[32];
    SHA256_Init(&c); SHA256_Update(&c, lead, l); SHA256_Update(&c, body, n); SHA256_Final(dig, &c);
    const char *fn = "/tmp/zverif_scn_optel.zck";
    int fd = open(fn, O_RDWR | O_CREAT | O_TRUNC, 0644);
    write(fd, lead, l); write(fd, dig, 32); write(fd, body, n); lseek(fd, 0, SEEK_SET);
    zckCtx *z = zck_create();
    bool ok = zck_init_read(z, fd);
    unlink(fn);
    if(ok) { printf("SCENARIO-FAIL: header with an optional element of size 2^64-1 (beyond the header) was accepted\n"); return 1; }
    printf("scenario ok: rejected (%s)\n", zck_get_error(z)); return 0;
}
