#include <zck.h>
#include <fcntl.h>
#include <unistd.h>
#include <stdio.h>
#include <string.h>
int main(void){
  int fd=open("/tmp/zverif_short_lead.zck",O_RDWR|O_CREAT|O_TRUNC,0644);
  zckCtx *z=zck_create(); if(!zck_init_write(z,fd)) return 2;
  if(!zck_set_ioption(z,ZCK_HASH_FULL_TYPE,ZCK_HASH_SHA512_128)) return 3;
  char buf[1000]; memset(buf,'x',sizeof buf);
  if(zck_write(z,buf,sizeof buf)<0) return 4;
  if(!zck_close(z)) return 5; zck_free(&z); close(fd);
  fd=open("/tmp/zverif_short_lead.zck",O_RDONLY);
  z=zck_create(); 
  if(!zck_init_read(z,fd)){ printf("READ FAILED: %s\n", zck_get_error(z)); return 1;}
  printf("read ok\n"); return 0; }
