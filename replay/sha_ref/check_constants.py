#!/usr/bin/env python3
"""Recompute the FIPS 180-4 constants from their definition (fractional parts of cube / square roots of the
first primes, exact integer arithmetic) and compare with the tables / IV macros in spec/spec_sha.h."""
import sys, re
def primes(n):
    ps, c = [], 2
    while len(ps) < n:
        if all(c % p for p in ps): ps.append(c)
        c += 1
    return ps
def iroot(x, k):
    lo, hi = 0, 1
    while hi ** k <= x: hi *= 2
    while lo + 1 < hi:
        mid = (lo + hi) // 2
        if mid ** k <= x: lo = mid
        else: hi = mid
    return lo
def frac_root(p, k, bits):
    return iroot(p << (k * bits), k) & ((1 << bits) - 1)
text = open(sys.argv[1]).read()
def table(name):
    m = re.search(name + r'\[\d+\]\s*=\s*\{([^}]*)\}', text)
    return [int(re.sub(r'[uUlL]+$', '', t.strip()), 16) for t in m.group(1).split(',') if t.strip()]
def iv(name):
    m = re.search(r'#define ' + name + r'\(i\)(.*?)\n\n|#define ' + name + r'\(i\)((?:.*\\\n)*.*)\n', text)
    body = m.group(0)
    return [int(re.sub(r'[uUlL]+$', '', t), 16) for t in re.findall(r'0x[0-9a-fA-F]+u(?:ll)?', body)]
ok = True
k256 = [frac_root(p, 3, 32) for p in primes(64)]
k512 = [frac_root(p, 3, 64) for p in primes(80)]
ok &= table('spec_sha256_K') == k256
ok &= table('spec_sha512_K') == k512
ok &= iv('SPEC_SHA256_IV') == [frac_root(p, 2, 32) for p in primes(8)]
ok &= iv('SPEC_SHA512_IV') == [frac_root(p, 2, 64) for p in primes(8)]
ok &= iv('SPEC_SHA1_IV') == [0x67452301, 0xefcdab89, 0x98badcfe, 0x10325476, 0xc3d2e1f0]
# SHA-1 round constants: floor(2^30 * sqrt(2,3,5,10))
k1 = [iroot(n << 60, 2) for n in (2, 3, 5, 10)]
ok &= all(('0x%08x' % k) in text.lower() for k in k1)
print('constants: K256 %s, K512 %s, IV256/IV512/IV1 and SHA-1 K: %s' % (table('spec_sha256_K') == k256, table('spec_sha512_K') == k512, ok))
sys.exit(0 if ok else 1)
