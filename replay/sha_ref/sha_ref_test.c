/* Native validation of spec/spec_sha.h (the FIPS 180-4 reference used by the C18 units):
 * prints SHA-1 / SHA-256 / SHA-512 of a file as computed by the reference.  validate.sh compares
 * with sha1sum / sha256sum / sha512sum and python3 hashlib.  Not part of any proof. */
#include <stdio.h>
#include <stdlib.h>
#include "spec/spec_sha.h"
static void hex(const char *n, const unsigned char *d, int k) { printf("%s ", n); for(int i = 0; i < k; i++) printf("%02x", d[i]); printf("\n"); }
int main(int argc, char **argv) {
    if(argc < 2) return 2;
    FILE *f = fopen(argv[1], "rb"); if(!f) return 2;
    fseek(f, 0, SEEK_END); long n = ftell(f); fseek(f, 0, SEEK_SET);
    unsigned char *m = malloc(n ? n : 1); if(n && fread(m, 1, n, f) != (size_t)n) return 2;
    unsigned char d[64];
    spec_sha1(m, n, d); hex("sha1", d, 20);
    spec_sha256(m, n, d); hex("sha256", d, 32);
    spec_sha512(m, n, d); hex("sha512", d, 64);
    /* the re-ordered SHA-1 form used by the decomposed block equivalence must agree with the FIPS-order form */
    { unsigned char blk[64]; uint32_t A[5], B[5]; int bad = 0;
      for(long p = 0; p + 64 <= n || p == 0; p += 64) {
          for(int i = 0; i < 64; i++) blk[i] = p + i < n ? m[p + i] : (unsigned char)(i * 37 + p);
          for(int i = 0; i < 5; i++) A[i] = B[i] = SPEC_SHA1_IV(i) ^ (uint32_t)(p * 2654435761u);
          spec_sha1_compress(A, blk); spec_sha1_compress_ord(B, blk);
          for(int i = 0; i < 5; i++) bad |= A[i] != B[i];
          if(p + 64 > n) break;
      }
      printf("sha1ord %s\n", bad ? "MISMATCH" : "ok"); }
    return 0;
}
