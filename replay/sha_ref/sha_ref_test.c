/* Native validation of spec/spec_sha.h (the FIPS 180-4 reference used by the C18 units):
 * prints SHA-1 / SHA-256 / SHA-512 of a file as computed by the reference.  validate.sh compares
 * with sha1sum / sha256sum / sha512sum and python3 hashlib.  Not part of any proof. */
#include <stdio.h>
#include <stdlib.h>
#include "spec/spec_sha.h"
static void hex(const char *n, const unsigned char *d, int k) { printf("%s ", n); for(int i = 0; i < k; i++) printf("%02x", d[i]); printf("\n"); }
int main(int argc, char **argv) {
    if(argc < 2) return 2;
    FILE *f = fopen(argv[1], "rb"); if(!f) return 2;
    fseek(f, 0, SEEK_END); long n = ftell(f); fseek(f, 0, SEEK_SET);
    unsigned char *m = malloc(n ? n : 1); if(n && fread(m, 1, n, f) != (size_t)n) return 2;
    unsigned char d[64];
    spec_sha1(m, n, d); hex("sha1", d, 20);
    spec_sha256(m, n, d); hex("sha256", d, 32);
    spec_sha512(m, n, d); hex("sha512", d, 64);
    return 0;
}
