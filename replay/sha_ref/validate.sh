#!/bin/sh
# Validates spec/spec_sha.h natively: (1) K constants and IVs recomputed from cube/square roots of primes
# (FIPS 180-4 4.2.2, 4.2.3, 5.3.3, 5.3.5) with exact integer arithmetic; (2) digests of messages of every
# length 0..300 (all padding boundaries 55/56/63/64/111/112/119/120/127/128/...) plus a few long random ones
# against coreutils sha*sum and python3 hashlib.
set -e
here=$(cd "$(dirname "$0")" && pwd); root=$(cd "$here/../.." && pwd)
tmp=$(mktemp -d); trap 'rm -rf "$tmp"' EXIT
gcc -O2 -Wall -I"$root" -o "$tmp/ref" "$here/sha_ref_test.c"
python3 "$here/check_constants.py" "$root/spec/spec_sha.h"
python3 - "$tmp" <<'PY'
import sys, os, random, hashlib, subprocess
tmp = sys.argv[1]; random.seed(18)
lens = list(range(0, 301)) + [1000, 4095, 4096, 4097, 65536 + 55, 1000003]
bad = 0
for n in lens:
    m = bytes(random.getrandbits(8) for _ in range(n))
    p = os.path.join(tmp, 'm'); open(p, 'wb').write(m)
    out = dict(l.split() for l in subprocess.check_output([os.path.join(tmp, 'ref'), p]).decode().splitlines())
    if out.get('sha1ord') != 'ok':
        print('MISMATCH sha1 re-ordered form', n); bad += 1
    for a in ('sha1', 'sha256', 'sha512'):
        if out[a] != hashlib.new(a, m).hexdigest():
            print('MISMATCH', a, n); bad += 1
    if n in (0, 55, 56, 119, 120, 1000003):
        for a in ('sha1', 'sha256', 'sha512'):
            cu = subprocess.check_output([a + 'sum', p]).decode().split()[0]
            if cu != out[a]:
                print('MISMATCH vs coreutils', a, n); bad += 1
print('reference vs hashlib/coreutils: %d messages x 3 digests, %d mismatches' % (len(lens), bad))
sys.exit(1 if bad else 0)
PY
