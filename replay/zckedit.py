#!/usr/bin/env python3
"""Independent (specification-derived, written from zchunk_format.txt) parser / editor / re-sealer
for zchunk headers, used only by replay scenarios to build structure-aware mutants of real files:

  zckedit.py show FILE
  zckedit.py set-chunk FILE OUT --chunk N [--length L] [--comp-length C] [--digest HEX]
  zckedit.py set-count FILE OUT COUNT
  zckedit.py flip-body FILE OUT --offset K [--mask M]      (offset relative to the start of the body)
  zckedit.py reseal FILE OUT                               (recompute the header checksum only)

After an edit the index size, header size and header checksum are recomputed so that the header
verifies ("re-sealed").  Nothing here is used by a check to decide a property."""
import sys, hashlib, argparse

DIGEST = {0: ('sha1', 20), 1: ('sha256', 32), 2: ('sha512', 64), 3: ('sha512', 16)}


def ci_dec(b, o):
    v = 0; s = 0
    while True:
        c = b[o]; o += 1
        v |= (c & 0x7f) << s; s += 7
        if c & 0x80:
            return v, o


def ci_enc(v):
    out = bytearray()
    while True:
        c = v & 0x7f; v >>= 7
        if v == 0:
            out.append(c | 0x80); return bytes(out)
        out.append(c)


class Zck:
    def __init__(self, raw):
        self.raw = raw
        assert raw[:5] in (b'\0ZCK1', b'\0ZHR1'), 'not a zchunk file'
        self.magic = raw[:5]
        o = 5
        self.htype, o = ci_dec(raw, o)
        self.hsize, o = ci_dec(raw, o)
        dl = DIGEST[self.htype][1]
        self.hdigest = raw[o:o + dl]; o += dl
        self.lead_size = o
        self.body = raw[self.lead_size + self.hsize:]
        h = raw[self.lead_size:self.lead_size + self.hsize]
        o = 0
        self.data_digest = h[o:o + dl]; o += dl
        self.flags, o = ci_dec(h, o)
        self.ctype, o = ci_dec(h, o)
        self.opt = b''
        if self.flags & 2:
            s = o
            n, o = ci_dec(h, o)
            for _ in range(n):
                _, o = ci_dec(h, o); sz, o = ci_dec(h, o); o += sz
            self.opt = h[s:o]
        self.index_size, o = ci_dec(h, o)
        istart = o
        self.chtype, o = ci_dec(h, o)
        self.count, o = ci_dec(h, o)
        cdl = DIGEST[self.chtype][1]
        self.chunks = []
        while o < istart + self.index_size:
            c = {}
            if self.flags & 1:
                c['stream'], o = ci_dec(h, o)
            c['digest'] = h[o:o + cdl]; o += cdl
            if self.flags & 4:
                c['udigest'] = h[o:o + cdl]; o += cdl
            c['comp_length'], o = ci_dec(h, o)
            c['length'], o = ci_dec(h, o)
            self.chunks.append(c)
        self.sig = h[istart + self.index_size:]

    def build(self):
        idx = bytearray(ci_enc(self.chtype) + ci_enc(self.count))
        for c in self.chunks:
            if self.flags & 1:
                idx += ci_enc(c['stream'])
            idx += c['digest']
            if self.flags & 4:
                idx += c['udigest']
            idx += ci_enc(c['comp_length']) + ci_enc(c['length'])
        pre = self.data_digest + ci_enc(self.flags) + ci_enc(self.ctype) + self.opt
        h = pre + ci_enc(len(idx)) + bytes(idx) + self.sig
        lead0 = ci_enc(self.htype) + ci_enc(len(h))
        name, dl = DIGEST[self.htype]
        d = hashlib.new(name)
        d.update(b'\0ZCK1' + lead0 + h)
        return self.magic + lead0 + d.digest()[:dl] + h + self.body

    def show(self):
        print('header checksum type %d, header size %d, lead size %d, flags %d, comp type %d, chunk checksum type %d, declared count %d, entries %d, body %d bytes' % (
            self.htype, self.hsize, self.lead_size, self.flags, self.ctype, self.chtype, self.count, len(self.chunks), len(self.body)))
        start = 0
        for i, c in enumerate(self.chunks):
            print('  chunk %d: start %d comp_length %d length %d digest %s' % (i, start, c['comp_length'], c['length'], c['digest'].hex()))
            start += c['comp_length']


def main():
    ap = argparse.ArgumentParser()
    sub = ap.add_subparsers(dest='cmd')
    s = sub.add_parser('show'); s.add_argument('file')
    s = sub.add_parser('set-chunk'); s.add_argument('file'); s.add_argument('out'); s.add_argument('--chunk', type=int, required=True)
    s.add_argument('--length', type=int); s.add_argument('--comp-length', type=int); s.add_argument('--digest')
    s = sub.add_parser('set-count'); s.add_argument('file'); s.add_argument('out'); s.add_argument('count', type=int)
    s = sub.add_parser('flip-body'); s.add_argument('file'); s.add_argument('out'); s.add_argument('--offset', type=int, required=True); s.add_argument('--mask', type=int, default=1)
    s = sub.add_parser('reseal'); s.add_argument('file'); s.add_argument('out')
    a = ap.parse_args()
    z = Zck(open(a.file, 'rb').read())
    if a.cmd == 'show':
        z.show(); return 0
    if a.cmd == 'set-chunk':
        c = z.chunks[a.chunk]
        if a.length is not None: c['length'] = a.length
        if a.comp_length is not None: c['comp_length'] = a.comp_length
        if a.digest: c['digest'] = bytes.fromhex(a.digest)
    elif a.cmd == 'set-count':
        z.count = a.count
    elif a.cmd == 'flip-body':
        b = bytearray(z.body); b[a.offset] ^= a.mask; z.body = bytes(b)
    open(a.out, 'wb').write(z.build())
    return 0


if __name__ == '__main__':
    sys.exit(main())
