/* Ghost state: written only by assumed contracts of external functions (libc I/O, hashing),
 * by contracts of replaced callees and by harnesses — never by zchunk code. */
#ifndef VERIF_GHOST_H
#define VERIF_GHOST_H
#include <stddef.h>
#include <sys/types.h>
/* solver-chosen indices that play the role of "for every k" (ghost-index idiom) */
extern size_t g_k1, g_k2;
extern char g_old_byte;   /* harness-recorded value of a watched pre-state byte (index g_k2) */

/* --- modelled kernel file state, indexed by small descriptor numbers ------------------- */
#define G_NFD 8
/* descriptors are mapped to ghost slots by their low three bits (always in bounds; harnesses
 * use descriptors with distinct slots); ghost arithmetic is unsigned (wrap-around defined)   */
#define G_IX(fd) (((unsigned)(fd)) & 7u)
#define G_FD_OK(fd) ((fd) >= 0 && (fd) < G_NFD)
typedef unsigned long g_off_t;
/* frame of a per-descriptor ghost array: every slot other than fd's keeps its value (closed form over the G_NFD slots) */
#define G_FRAME1(arr, fd, i) (G_IX(fd) == (i) || (arr)[i] == V_OLD((arr)[i]))
/* the same relative to the entry of a loop (for loop invariants) */
#define G_LFRAME1(arr, fd, i) (G_IX(fd) == (i) || (arr)[i] == __CPROVER_loop_entry((arr)[i]))
#define G_LFRAME(arr, fd) (G_LFRAME1(arr, fd, 0) && G_LFRAME1(arr, fd, 1) && G_LFRAME1(arr, fd, 2) && G_LFRAME1(arr, fd, 3) && G_LFRAME1(arr, fd, 4) && G_LFRAME1(arr, fd, 5) && G_LFRAME1(arr, fd, 6) && G_LFRAME1(arr, fd, 7))
#define G_FRAME(arr, fd) (G_FRAME1(arr, fd, 0) && G_FRAME1(arr, fd, 1) && G_FRAME1(arr, fd, 2) && G_FRAME1(arr, fd, 3) && G_FRAME1(arr, fd, 4) && G_FRAME1(arr, fd, 5) && G_FRAME1(arr, fd, 6) && G_FRAME1(arr, fd, 7))
extern g_off_t g_fpos[G_NFD];       /* current offset of descriptor fd                        */
extern size_t g_rd_bytes[G_NFD];    /* bytes delivered by read() on fd so far                 */
extern size_t g_wr_bytes[G_NFD];    /* bytes accepted by write() on fd so far                 */
extern int    g_io_failed;          /* some read/write/lseek reported -1 or a short count     */
extern ssize_t g_last_read;
/* watched file byte ("for every file offset"): harness picks g_watch_fd/g_watch_off; the read()
 * contract records the value delivered for that offset the first time it is read               */
extern int g_watch_fd; extern g_off_t g_watch_off; extern int g_watch_seen; extern unsigned char g_watch_val;         /* result of the most recent read()                        */
/* --- hashing coverage model (contracts/hashfn.h) ------------------------------------------ */
struct zckHash;
extern const struct zckHash *g_hu_hash; /* the watched hash object (set by the harness)          */
extern size_t g_hu_total;   /* bytes fed to it since its last hash_init                        */
extern size_t g_hu_k;       /* solver-chosen stream offset                                      */
extern unsigned g_hu_seen;       /* how many times stream offset g_hu_k was fed since last init      */
extern const char *g_hu_ptr;/* address of the byte fed at stream offset g_hu_k                  */
extern unsigned g_hu_final, g_hu_inits; extern size_t g_fin_total; extern char g_fin_val;
extern unsigned g_fin_seen; extern const char *g_fin_ptr;  /* g_hu_seen / g_hu_ptr as they were at the last finalize */
/* write window for confinement properties: every accepted write on g_win_fd must lie inside
 * [g_win_lo, g_win_hi); g_win_bad is set by the write contract otherwise                      */
extern int    g_win_fd; extern g_off_t g_win_lo, g_win_hi; extern int g_win_bad;
/* Call-site guards are COMPILE-TIME switches (statics are nondeterministic under --dfcc, so a ghost flag cannot be "off by default"):
 * -DVERIF_WRITE_GUARD: every write_data request must target g_win_fd and lie inside [g_win_lo, g_win_hi)      (contracts/io.h)
 * -DVERIF_WRITE_ZERO:  every byte handed to write_data must be 0 (ghost index g_k2)                           (contracts/io.h)
 * -DVERIF_SCAN_GUARD:  validate_chunk / validate_file must be called with the chunk's / the data section's stored bytes read and
 *                      hashed exactly                                                                        (contracts/hashfn.h)
 * Units that do not define them see contracts without these requires clauses. */
#ifdef VERIF_WRITE_GUARD
#define V_REQUIRES_WGUARD(x) V_REQUIRES(x)
#else
#define V_REQUIRES_WGUARD(x)
#endif
#ifdef VERIF_WRITE_ZERO
#define V_REQUIRES_WZERO(x) V_REQUIRES(x)
#else
#define V_REQUIRES_WZERO(x)
#endif
#ifdef VERIF_SCAN_GUARD
#define V_REQUIRES_SCAN(x) V_REQUIRES(x)
#else
#define V_REQUIRES_SCAN(x)
#endif
extern size_t g_scan_total; extern int g_sc_valid0[3];   /* scan units: stored size of the data section, valid flags before the call */
struct zckChunk; extern struct zckChunk *g_n1, *g_n2, *g_n3, *g_canon_idx; extern int g_canon_on;   /* reader units: the nodes of the chunk list */
#define GHOST_DEFS \
  struct zckChunk *g_n1, *g_n2, *g_n3, *g_canon_idx; int g_canon_on; \
  size_t g_k1, g_k2; char g_old_byte; g_off_t g_fpos[G_NFD]; size_t g_rd_bytes[G_NFD]; size_t g_wr_bytes[G_NFD]; \
  int g_io_failed; ssize_t g_last_read; int g_watch_fd = -1; g_off_t g_watch_off; int g_watch_seen; unsigned char g_watch_val; const struct zckHash *g_hu_hash; size_t g_hu_total, g_hu_k; unsigned g_hu_seen; const char *g_hu_ptr; unsigned g_hu_final, g_hu_inits; size_t g_fin_total; char g_fin_val; unsigned g_fin_seen; const char *g_fin_ptr; int g_win_fd = -1; g_off_t g_win_lo, g_win_hi; int g_win_bad; size_t g_scan_total; int g_sc_valid0[3];
#endif
