/* Ghost call records for the zck_close (write mode) unit: the most recent verdict of each step, written only
 * by the contracts of the REPLACED steps in that unit's view (-DVERIF_ZCLOSE_VIEW); everywhere else the clauses
 * expand to nothing (the real functions cannot write ghost variables). */
#ifndef VERIF_GHOST_CLOSE_H
#define VERIF_GHOST_CLOSE_H
extern int g_res_ec, g_res_hc, g_res_wh, g_res_cft;   /* 1: the step was called and reported success */
#define GHOST_CLOSE_DEFS int g_res_ec, g_res_hc, g_res_wh, g_res_cft;
#ifdef VERIF_ZCLOSE_VIEW
#define V_FREES_OWN(...)           /* as an assumption in zck_close's view the step's free() is not modelled */
#define V_ZC_REQUIRES(x) V_REQUIRES(x)
#define V_ZC_ENSURES(x) V_ENSURES(x)
#define V_ZC_ASSIGNS(...) V_ASSIGNS(__VA_ARGS__)
#else
#define V_FREES_OWN(...) V_FREES(__VA_ARGS__)
#define V_ZC_REQUIRES(x)
#define V_ZC_ENSURES(x)
#define V_ZC_ASSIGNS(...)
#endif
#endif
