/* Ghost state of the download-side units (C05/C17), in addition to spec/ghost.h.
 *  - watched file byte ("for every file offset"): g_ww_fd/g_ww_off are chosen by the harness
 *    (solver-chosen, never constrained); the write() contract counts in g_ww_hit how often that
 *    offset was written and records in g_ww_val the value it received last.
 *  - typestate of regex_t objects: see stubs/regex.h                                            */
#ifndef VERIF_GHOST_DL_H
#define VERIF_GHOST_DL_H
#include "spec/ghost.h"
extern int g_ww_fd; extern g_off_t g_ww_off; extern unsigned g_ww_hit; extern char g_ww_val;
/* the watched offset lies in the span of n bytes that starts at file offset pos of descriptor fd.
 * Ghost offsets live in Z/2^64 (unsigned wrap-around, as everywhere in spec/ghost.h): a span is
 * {pos + j mod 2^64 : j < n}.  Real offsets are below 2^63, so confinement in the modular space
 * implies confinement in the real one. */
#define WW_IN(fd, pos, n) ((fd) == g_ww_fd && (g_off_t)(g_ww_off - (g_off_t)(pos)) < (g_off_t)(n))
#define WW_SAME (g_ww_hit == V_OLD(g_ww_hit) && g_ww_val == V_OLD(g_ww_val))
/* ghost names of the (at most three) entries of the requested-range list dl->range->index */
struct zckChunk; extern struct zckChunk *g_dr1, *g_dr2, *g_dr3;
/* An ABSENT entry is named by the dummy node DR_NONE (whose src is a dummy chunk), not by NULL: CBMC evaluates
 * history expressions (V_OLD(g_drK->src->valid)) unconditionally at function entry and does not support
 * conditionals inside them, so every name must be dereferenceable.  Harnesses call DR_NONE_INIT(). */
extern struct zckChunk g_dr_none_node, g_dr_none_tgt;
#define DR_NONE (&g_dr_none_node)
#define DR_ABSENT(r) ((r) == DR_NONE)
#define DR_NAME(p) ((p) != NULL ? (p) : DR_NONE)
#define DR_PTR(r) (DR_ABSENT(r) ? NULL : (r))
#define DR_NONE_INIT() do { g_dr_none_node.src = &g_dr_none_tgt; g_dr_none_node.next = NULL; } while(0)
#define GHOST_DL_DEFS int g_ww_fd = -1; g_off_t g_ww_off; unsigned g_ww_hit; char g_ww_val; struct zckChunk *g_dr1, *g_dr2, *g_dr3; struct zckChunk g_dr_none_node, g_dr_none_tgt;
#endif
