/* Ghost state for the range units (src/lib/dl/range.c).  Written only by the recording contract of
 * index_new_chunk (contracts/range.h) and by harnesses, never by zchunk code. */
#ifndef VERIF_GHOST_RANGE_H
#define VERIF_GHOST_RANGE_H
#include <stddef.h>
struct zckChunk;
#define RX_MAX 8u
/* record of the calls to index_new_chunk on the range index: how many succeeded, and for call
 * number i (in call order) which target chunk it names and which stored size it carries */
extern unsigned g_rx_n;
extern struct zckChunk *g_rx_src[RX_MAX];
extern size_t g_rx_size[RX_MAX];
#define GHOST_RANGE_DEFS unsigned g_rx_n; struct zckChunk *g_rx_src[RX_MAX]; size_t g_rx_size[RX_MAX];
#endif
