/* Ghost state of the C18 units (bundled SHA buffering / glue).  Written only by the caller-view contracts of
 * the compression functions and of SHA*_Update/Final (contracts/sha_block.h, contracts/sha.h) and by harnesses.
 * "Transform stream" = concatenation of all blocks handed to a compression function, in call order. */
#ifndef VERIF_GHOST_SHA_H
#define VERIF_GHOST_SHA_H
typedef unsigned long long g_u64;
extern g_u64 g_tb_total;          /* blocks handed to the compression function so far                        */
extern g_u64 g_tby_k;             /* solver-chosen byte offset into the transform stream ("for every byte")  */
extern unsigned g_tby_seen;       /* how many times stream offset g_tby_k was handed over                    */
extern unsigned char g_tby_val;   /* the byte value that was handed over at stream offset g_tby_k            */
extern g_u64 g_last_h[8];         /* chaining value produced by the most recent compression call (SHA-1 wipes its state) */
/* call record of the update/final layer as seen by lib_hash_* (libsha.c) */
extern unsigned g_up_calls, g_fin_calls; extern int g_up_fn; extern const void *g_up_ctx, *g_up_msg; extern size_t g_up_len;
extern int g_fin_fn; extern const void *g_fin_ctx, *g_fin_md; extern int g_init_fn; extern const void *g_init_ctx; extern unsigned g_init_calls; extern unsigned char g_fin_byte; extern const char *g_up_end; extern int g_up_inorder;
/* (chaining value, block) -> new chaining value log for the bounded padding lemma: the compression function
 * as an uninterpreted function (entry i = i-th block handed over since the harness reset the log) */
#define G_LOG_MAX 6
extern unsigned g_log_n; extern g_u64 g_log_hin[G_LOG_MAX][8], g_log_hout[G_LOG_MAX][8]; extern unsigned char g_log_blk[G_LOG_MAX][128];
#define GHOST_SHA_DEFS \
  g_u64 g_tb_total, g_tby_k; unsigned g_tby_seen; unsigned char g_tby_val; g_u64 g_last_h[8]; \
  unsigned g_up_calls, g_fin_calls; int g_up_fn; const void *g_up_ctx, *g_up_msg; size_t g_up_len; \
  int g_fin_fn; const void *g_fin_ctx, *g_fin_md; int g_init_fn; const void *g_init_ctx; unsigned g_init_calls; unsigned char g_fin_byte; const char *g_up_end; int g_up_inorder; \
  unsigned g_log_n; g_u64 g_log_hin[G_LOG_MAX][8], g_log_hout[G_LOG_MAX][8]; unsigned char g_log_blk[G_LOG_MAX][128];
#endif
