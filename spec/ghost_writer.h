/* Ghost state of the writer-side units (C01 conservation/termination, C16 chunking).  Written only by
 * contracts of replaced callees / stand-ins and by harnesses — never by zchunk code. */
#ifndef VERIF_GHOST_WRITER_H
#define VERIF_GHOST_WRITER_H
#include <stddef.h>
/* C01 conservation: address of the next source byte the codec's compress hook must be handed.  The
 * compress stand-in requires src == g_next (when g_track is on) and advances it by the size it was
 * given: "every byte handed on exactly once, in order". */
extern const char *g_next;
extern int g_track;           /* 1: the stream handed to compress is the caller's data (comp_write); 0: dictionary (comp_init) */
/* C01 termination of the automatic loop: g_bz_last = address of the byte most recently fed to
 * buzhash_update, g_same = number of consecutive updates fed from that same address since the window
 * was last (re)allocated.  Maintained by the buzhash_update / buzhash_reset contracts. */
extern const char *g_bz_last;
extern unsigned g_same;
/* C16: call-site obligations of zck_end_chunk inside zck_write's loops are switched on by the
 * zck_write harness (zck_end_chunk is also an API entry point that may be called at any time) */
extern int g_from_write;
/* zstd call protocol (C16): typestate of the compression context */
extern int g_z_strategy_pinned;   /* ZSTD_c_strategy was set to ZSTD_btopt on the live cctx */
extern int g_z_dict_loaded;       /* a non-empty dictionary is currently loaded into the cctx */
extern unsigned g_z_compress_calls;
extern int g_z_last_dict_state;   /* g_z_dict_loaded at the most recent ZSTD_compress2 */
extern int g_z_last_pinned;       /* g_z_strategy_pinned at the most recent ZSTD_compress2 */
extern const void *g_z_last_src; extern size_t g_z_last_src_size;
#define GHOST_WRITER_DEFS \
  const char *g_next; int g_track; const char *g_bz_last; unsigned g_same; int g_from_write; \
  int g_z_strategy_pinned, g_z_dict_loaded; unsigned g_z_compress_calls; int g_z_last_dict_state, g_z_last_pinned; \
  const void *g_z_last_src; size_t g_z_last_src_size;
#endif
