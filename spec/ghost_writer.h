/* Ghost state of the writer-side units (C01 conservation/termination, C16 chunking).  Written only by
 * contracts of replaced callees / stand-ins and by harnesses — never by zchunk code. */
#ifndef VERIF_GHOST_WRITER_H
#define VERIF_GHOST_WRITER_H
#include <stddef.h>
/* C01 conservation: position of the next source byte the codec's compress hook must be handed, as an
 * INTEGER offset into the caller's source object g_src_base (set by the harness, in no frame).  The
 * compress stand-in requires G_NEXT_IS(src) (when g_track is on) and advances the offset by the size it
 * was given: "every byte handed on exactly once, in order".
 * Integers, not pointers: in CBMC 6.11 an ASSUMED equation between a pointer-typed location havocked by
 * a contract/loop frame and `p + k` (k != 0) inside a loop under --apply-loop-contracts is unsatisfiable
 * (micro-experiment in agent-notes/writer.md) -- the first version of these ghosts (const char *g_next,
 * *g_bz_last) silently cut off every path that consumed a byte in the automatic loop of zck_write. */
extern const char *g_src_base;
extern size_t g_next_off;
#define G_OFF(p) ((size_t)__CPROVER_POINTER_OFFSET(p))
#define G_OBJ(p) ((size_t)__CPROVER_POINTER_OBJECT(p))
#define G_NEXT_IS(p) (__CPROVER_same_object((p), g_src_base) && G_OFF(p) == g_next_off)
extern int g_track;           /* 1: the stream handed to compress is the caller's data (comp_write); 0: dictionary (comp_init) */
/* C01 termination of the automatic loop: (g_bz_have, g_bz_last_obj, g_bz_last_off) = address (object
 * number, offset; integers) of the byte most recently fed to buzhash_update, g_same = number of
 * consecutive updates fed from that same address since the window was last (re)allocated.  Maintained
 * by the buzhash_update / buzhash_reset contracts. */
extern int g_bz_have; extern size_t g_bz_last_obj, g_bz_last_off;
extern unsigned g_same;
#define G_BZ_LAST_IS(p) (g_bz_have != 0 && g_bz_last_obj == G_OBJ(p) && g_bz_last_off == G_OFF(p))
#define G_BZ_LAST_WAS(p) (V_OLD(g_bz_have) != 0 && V_OLD(g_bz_last_obj) == G_OBJ(p) && V_OLD(g_bz_last_off) == G_OFF(p))
/* C16: call-site obligations of zck_end_chunk inside zck_write's loops are switched on by the
 * zck_write harness (zck_end_chunk is also an API entry point that may be called at any time) */
extern int g_from_write;
/* zstd call protocol (C16): typestate of the compression context */
extern int g_z_strategy_pinned;   /* ZSTD_c_strategy was set to ZSTD_btopt on the live cctx */
extern int g_z_dict_loaded;       /* a non-empty dictionary is currently loaded into the cctx */
extern unsigned g_z_compress_calls;
extern int g_z_last_dict_state;   /* g_z_dict_loaded at the most recent ZSTD_compress2 */
extern int g_z_last_pinned;       /* g_z_strategy_pinned at the most recent ZSTD_compress2 */
extern const void *g_z_last_src; extern size_t g_z_last_src_size;
#define GHOST_WRITER_DEFS \
  const char *g_src_base; size_t g_next_off; int g_track; int g_bz_have; size_t g_bz_last_obj, g_bz_last_off; unsigned g_same; int g_from_write; \
  int g_z_strategy_pinned, g_z_dict_loaded; unsigned g_z_compress_calls; int g_z_last_dict_state, g_z_last_pinned; \
  const void *g_z_last_src; size_t g_z_last_src_size;
#endif
