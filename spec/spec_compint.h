/* Specification of the zchunk "compressed integer" (zchunk_format.txt: little-endian base-128,
 * the LAST byte has bit 7 set).  Written from the format document and property C20, not from
 * compint.c.  Pure expressions so that they can be used in contracts and in native replay.
 *   SPEC_CI_LEN(b,a)  number of bytes of the encoding that starts at b when a bytes are
 *                     available: position (1-based) of the first byte with bit 7 set among the
 *                     first min(a,10) bytes, 0 if there is none ("unterminated / over-long").
 *   SPEC_CI_VAL(b,n)  mathematical value of the n-byte encoding (needs up to 70 bits).
 *   SPEC_CI_FITS64    value representable in a 64-bit size_t.                               */
#ifndef SPEC_COMPINT_H
#define SPEC_COMPINT_H
typedef unsigned __int128 v_u128;
#define CI_B(b,k)   ((unsigned)((const unsigned char *)(b))[k])
#define CI_T(b,a,k) (((size_t)(a)) > (size_t)(k) && (CI_B(b,k) & 0x80u))
#define CI_N(b,a,k) (((size_t)(a)) > (size_t)(k))
#define SPEC_CI_LEN(b,a) ( \
   !CI_N(b,a,0) ? 0 : CI_T(b,a,0) ? 1 : \
   !CI_N(b,a,1) ? 0 : CI_T(b,a,1) ? 2 : \
   !CI_N(b,a,2) ? 0 : CI_T(b,a,2) ? 3 : \
   !CI_N(b,a,3) ? 0 : CI_T(b,a,3) ? 4 : \
   !CI_N(b,a,4) ? 0 : CI_T(b,a,4) ? 5 : \
   !CI_N(b,a,5) ? 0 : CI_T(b,a,5) ? 6 : \
   !CI_N(b,a,6) ? 0 : CI_T(b,a,6) ? 7 : \
   !CI_N(b,a,7) ? 0 : CI_T(b,a,7) ? 8 : \
   !CI_N(b,a,8) ? 0 : CI_T(b,a,8) ? 9 : \
   !CI_N(b,a,9) ? 0 : CI_T(b,a,9) ? 10 : 0 )
#define CI_D(b,n,k) ((n) > (k) ? ((v_u128)(CI_B(b,k) & 0x7fu)) << (7*(k)) : (v_u128)0)
#define SPEC_CI_VAL(b,n) ( CI_D(b,n,0) + CI_D(b,n,1) + CI_D(b,n,2) + CI_D(b,n,3) + CI_D(b,n,4) \
                         + CI_D(b,n,5) + CI_D(b,n,6) + CI_D(b,n,7) + CI_D(b,n,8) + CI_D(b,n,9) )
#define SPEC_CI_FITS64(b,n) (SPEC_CI_VAL(b,n) <= (v_u128)UINT64_MAX)
#define SPEC_CI_FITSINT(b,n) (SPEC_CI_VAL(b,n) <= (v_u128)INT_MAX)
/* number of bytes the minimal encoding of v needs */
#define SPEC_CI_ENCLEN(v) ( (uint64_t)(v) < (1ull<<7) ? 1 : (uint64_t)(v) < (1ull<<14) ? 2 : \
   (uint64_t)(v) < (1ull<<21) ? 3 : (uint64_t)(v) < (1ull<<28) ? 4 : (uint64_t)(v) < (1ull<<35) ? 5 : \
   (uint64_t)(v) < (1ull<<42) ? 6 : (uint64_t)(v) < (1ull<<49) ? 7 : (uint64_t)(v) < (1ull<<56) ? 8 : \
   (uint64_t)(v) < (1ull<<63) ? 9 : 10 )
/* function forms (evaluated once per call; the macro forms blow up when nested) */
static inline size_t spec_ci_len(const void *b, size_t a) { return SPEC_CI_LEN(b, a); }
static inline v_u128 spec_ci_val(const void *b, size_t n) { return SPEC_CI_VAL(b, n); }
static inline int spec_ci_fits64(const void *b, size_t n) { return SPEC_CI_VAL(b, n) <= (v_u128)UINT64_MAX; }
static inline int spec_ci_fitsint(const void *b, size_t n) { return SPEC_CI_VAL(b, n) <= (v_u128)INT_MAX; }
/* harness-side copies: under --dfcc a function must not be used both inside contract clauses (left
 * uninstrumented) and in instrumented code (harness bodies) -- CBMC then reports "not enough
 * arguments" and substitutes a nondeterministic value */
static inline size_t hspec_ci_len(const void *b, size_t a) { return SPEC_CI_LEN(b, a); }
static inline v_u128 hspec_ci_val(const void *b, size_t n) { return SPEC_CI_VAL(b, n); }
static inline int hspec_ci_fits64(const void *b, size_t n) { return SPEC_CI_VAL(b, n) <= (v_u128)UINT64_MAX; }
#endif
