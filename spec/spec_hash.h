/* Specification constants written from zchunk_format.txt ("Checksum type": 0 = SHA-1,
 * 1 = SHA-256, 2 = SHA-512, 3 = SHA-512/128 = first 128 bits of SHA-512) and FIPS 180-4. */
#ifndef SPEC_HASH_H
#define SPEC_HASH_H
#define SPEC_HASH_VALID(t)  ((t) >= 0 && (t) <= 3)
#define SPEC_DIGEST_SIZE(t) ((t) == 0 ? 20 : (t) == 1 ? 32 : (t) == 2 ? 64 : (t) == 3 ? 16 : 0)
#define SPEC_MAX_DIGEST 64
/* value of a hexadecimal digit (either case), -1 for every other character */
#define SPEC_HEX(c) ( ((c) >= '0' && (c) <= '9') ? (c) - '0' : \
                      ((c) >= 'a' && (c) <= 'f') ? (c) - 'a' + 10 : \
                      ((c) >= 'A' && (c) <= 'F') ? (c) - 'A' + 10 : -1 )
#endif
