/* Reference for SHA-1, SHA-256 and SHA-512 written from FIPS PUB 180-4 (Secure Hash Standard,
 * August 2015) — NOT from the bundled code in /repo.  Section numbers refer to the standard.
 *
 *   4.1.1 / 4.1.2 / 4.1.3   logical functions            (Ch, Parity, Maj, Sigma, sigma)
 *   4.2.1 / 4.2.2 / 4.2.3   constants K                  (validated natively against cube roots of
 *                                                          the first 64/80 primes, see replay/sha_ref/)
 *   5.1.1 / 5.1.2           padding
 *   5.3.1 / 5.3.3 / 5.3.5   initial hash values
 *   6.1.2 / 6.2.2 / 6.4.2   hash computation for one message block ("compression function")
 *
 * Plain C over a chaining value and one block; every loop has a constant trip count (16, 64, 80),
 * so complete unwinding in CBMC is a full-domain statement.  The same text is compiled natively
 * (replay/sha_ref/sha_ref_test.c) and compared with python3 hashlib / sha*sum on test messages. */
#ifndef SPEC_SHA_H
#define SPEC_SHA_H
#include <stdint.h>
#include <stddef.h>

/* ---- 3.2 operations on words --------------------------------------------------------------- */
#define SPEC_ROTL32(x, n) ((uint32_t)(((uint32_t)(x) << (n)) | ((uint32_t)(x) >> (32 - (n)))))
#define SPEC_ROTR32(x, n) ((uint32_t)(((uint32_t)(x) >> (n)) | ((uint32_t)(x) << (32 - (n)))))
#define SPEC_ROTR64(x, n) ((uint64_t)(((uint64_t)(x) >> (n)) | ((uint64_t)(x) << (64 - (n)))))
/* 4.1 functions */
#define SPEC_CH(x, y, z)     (((x) & (y)) ^ (~(x) & (z)))
#define SPEC_PARITY(x, y, z) ((x) ^ (y) ^ (z))
#define SPEC_MAJ(x, y, z)    (((x) & (y)) ^ ((x) & (z)) ^ ((y) & (z)))
/* 4.1.2 (4.4)-(4.7) */
#define SPEC_S256_BSIG0(x) (SPEC_ROTR32(x, 2) ^ SPEC_ROTR32(x, 13) ^ SPEC_ROTR32(x, 22))
#define SPEC_S256_BSIG1(x) (SPEC_ROTR32(x, 6) ^ SPEC_ROTR32(x, 11) ^ SPEC_ROTR32(x, 25))
#define SPEC_S256_SSIG0(x) (SPEC_ROTR32(x, 7) ^ SPEC_ROTR32(x, 18) ^ ((uint32_t)(x) >> 3))
#define SPEC_S256_SSIG1(x) (SPEC_ROTR32(x, 17) ^ SPEC_ROTR32(x, 19) ^ ((uint32_t)(x) >> 10))
/* 4.1.3 (4.10)-(4.13) */
#define SPEC_S512_BSIG0(x) (SPEC_ROTR64(x, 28) ^ SPEC_ROTR64(x, 34) ^ SPEC_ROTR64(x, 39))
#define SPEC_S512_BSIG1(x) (SPEC_ROTR64(x, 14) ^ SPEC_ROTR64(x, 18) ^ SPEC_ROTR64(x, 41))
#define SPEC_S512_SSIG0(x) (SPEC_ROTR64(x, 1) ^ SPEC_ROTR64(x, 8) ^ ((uint64_t)(x) >> 7))
#define SPEC_S512_SSIG1(x) (SPEC_ROTR64(x, 19) ^ SPEC_ROTR64(x, 61) ^ ((uint64_t)(x) >> 6))

#define SPEC_SHA1_BLOCK   64
#define SPEC_SHA256_BLOCK 64
#define SPEC_SHA512_BLOCK 128

/* ---- 4.2.2 SHA-256 constants: first 32 bits of the fractional parts of the cube roots of the
 *      first sixty-four primes ---------------------------------------------------------------- */
static const uint32_t spec_sha256_K[64] = {
    0x428a2f98u, 0x71374491u, 0xb5c0fbcfu, 0xe9b5dba5u, 0x3956c25bu, 0x59f111f1u, 0x923f82a4u, 0xab1c5ed5u,
    0xd807aa98u, 0x12835b01u, 0x243185beu, 0x550c7dc3u, 0x72be5d74u, 0x80deb1feu, 0x9bdc06a7u, 0xc19bf174u,
    0xe49b69c1u, 0xefbe4786u, 0x0fc19dc6u, 0x240ca1ccu, 0x2de92c6fu, 0x4a7484aau, 0x5cb0a9dcu, 0x76f988dau,
    0x983e5152u, 0xa831c66du, 0xb00327c8u, 0xbf597fc7u, 0xc6e00bf3u, 0xd5a79147u, 0x06ca6351u, 0x14292967u,
    0x27b70a85u, 0x2e1b2138u, 0x4d2c6dfcu, 0x53380d13u, 0x650a7354u, 0x766a0abbu, 0x81c2c92eu, 0x92722c85u,
    0xa2bfe8a1u, 0xa81a664bu, 0xc24b8b70u, 0xc76c51a3u, 0xd192e819u, 0xd6990624u, 0xf40e3585u, 0x106aa070u,
    0x19a4c116u, 0x1e376c08u, 0x2748774cu, 0x34b0bcb5u, 0x391c0cb3u, 0x4ed8aa4au, 0x5b9cca4fu, 0x682e6ff3u,
    0x748f82eeu, 0x78a5636fu, 0x84c87814u, 0x8cc70208u, 0x90befffau, 0xa4506cebu, 0xbef9a3f7u, 0xc67178f2u };

/* ---- 4.2.3 SHA-512 constants: first 64 bits of the fractional parts of the cube roots of the
 *      first eighty primes -------------------------------------------------------------------- */
static const uint64_t spec_sha512_K[80] = {
    0x428a2f98d728ae22ull, 0x7137449123ef65cdull, 0xb5c0fbcfec4d3b2full, 0xe9b5dba58189dbbcull,
    0x3956c25bf348b538ull, 0x59f111f1b605d019ull, 0x923f82a4af194f9bull, 0xab1c5ed5da6d8118ull,
    0xd807aa98a3030242ull, 0x12835b0145706fbeull, 0x243185be4ee4b28cull, 0x550c7dc3d5ffb4e2ull,
    0x72be5d74f27b896full, 0x80deb1fe3b1696b1ull, 0x9bdc06a725c71235ull, 0xc19bf174cf692694ull,
    0xe49b69c19ef14ad2ull, 0xefbe4786384f25e3ull, 0x0fc19dc68b8cd5b5ull, 0x240ca1cc77ac9c65ull,
    0x2de92c6f592b0275ull, 0x4a7484aa6ea6e483ull, 0x5cb0a9dcbd41fbd4ull, 0x76f988da831153b5ull,
    0x983e5152ee66dfabull, 0xa831c66d2db43210ull, 0xb00327c898fb213full, 0xbf597fc7beef0ee4ull,
    0xc6e00bf33da88fc2ull, 0xd5a79147930aa725ull, 0x06ca6351e003826full, 0x142929670a0e6e70ull,
    0x27b70a8546d22ffcull, 0x2e1b21385c26c926ull, 0x4d2c6dfc5ac42aedull, 0x53380d139d95b3dfull,
    0x650a73548baf63deull, 0x766a0abb3c77b2a8ull, 0x81c2c92e47edaee6ull, 0x92722c851482353bull,
    0xa2bfe8a14cf10364ull, 0xa81a664bbc423001ull, 0xc24b8b70d0f89791ull, 0xc76c51a30654be30ull,
    0xd192e819d6ef5218ull, 0xd69906245565a910ull, 0xf40e35855771202aull, 0x106aa07032bbd1b8ull,
    0x19a4c116b8d2d0c8ull, 0x1e376c085141ab53ull, 0x2748774cdf8eeb99ull, 0x34b0bcb5e19b48a8ull,
    0x391c0cb3c5c95a63ull, 0x4ed8aa4ae3418acbull, 0x5b9cca4f7763e373ull, 0x682e6ff3d6b2b8a3ull,
    0x748f82ee5defb2fcull, 0x78a5636f43172f60ull, 0x84c87814a1f0ab72ull, 0x8cc702081a6439ecull,
    0x90befffa23631e28ull, 0xa4506cebde82bde9ull, 0xbef9a3f7b2c67915ull, 0xc67178f2e372532bull,
    0xca273eceea26619cull, 0xd186b8c721c0c207ull, 0xeada7dd6cde0eb1eull, 0xf57d4f7fee6ed178ull,
    0x06f067aa72176fbaull, 0x0a637dc5a2c898a6ull, 0x113f9804bef90daeull, 0x1b710b35131c471bull,
    0x28db77f523047d84ull, 0x32caab7b40c72493ull, 0x3c9ebe0a15c9bebcull, 0x431d67c49c100d4cull,
    0x4cc5d4becb3e42b6ull, 0x597f299cfc657e2aull, 0x5fcb6fab3ad6faecull, 0x6c44198c4a475817ull };

/* ---- 5.3 initial hash values ---------------------------------------------------------------- */
#define SPEC_SHA1_IV(i)   ((i) == 0 ? 0x67452301u : (i) == 1 ? 0xefcdab89u : (i) == 2 ? 0x98badcfeu : \
                           (i) == 3 ? 0x10325476u : 0xc3d2e1f0u)
#define SPEC_SHA256_IV(i) ((i) == 0 ? 0x6a09e667u : (i) == 1 ? 0xbb67ae85u : (i) == 2 ? 0x3c6ef372u : \
                           (i) == 3 ? 0xa54ff53au : (i) == 4 ? 0x510e527fu : (i) == 5 ? 0x9b05688cu : \
                           (i) == 6 ? 0x1f83d9abu : 0x5be0cd19u)
#define SPEC_SHA512_IV(i) ((i) == 0 ? 0x6a09e667f3bcc908ull : (i) == 1 ? 0xbb67ae8584caa73bull : \
                           (i) == 2 ? 0x3c6ef372fe94f82bull : (i) == 3 ? 0xa54ff53a5f1d36f1ull : \
                           (i) == 4 ? 0x510e527fade682d1ull : (i) == 5 ? 0x9b05688c2b3e6c1full : \
                           (i) == 6 ? 0x1f83d9abfb41bd6bull : 0x5be0cd19137e2179ull)

/* ---- 6.1.2 SHA-1 hash computation, one block -------------------------------------------------
 * H: the five words H0..H4 of the (i-1)st hash value, replaced by the i-th; M: the block, bytes in
 * message order (3.1: big-endian words). */
static inline void spec_sha1_compress(uint32_t H[5], const unsigned char M[64]) {
    uint32_t W[80];
    uint32_t a, b, c, d, e, T;
    int t;
    for(t = 0; t < 16; t++)                                           /* step 1 */
        W[t] = ((uint32_t)M[4 * t] << 24) | ((uint32_t)M[4 * t + 1] << 16) |
               ((uint32_t)M[4 * t + 2] << 8) | (uint32_t)M[4 * t + 3];
    for(t = 16; t < 80; t++)
        W[t] = SPEC_ROTL32(W[t - 3] ^ W[t - 8] ^ W[t - 14] ^ W[t - 16], 1);
    a = H[0]; b = H[1]; c = H[2]; d = H[3]; e = H[4];                 /* step 2 */
    for(t = 0; t < 80; t++) {                                         /* step 3 */
        uint32_t f, K;
        if(t < 20)      { f = SPEC_CH(b, c, d);     K = 0x5a827999u; }   /* 4.1.1, 4.2.1 */
        else if(t < 40) { f = SPEC_PARITY(b, c, d); K = 0x6ed9eba1u; }
        else if(t < 60) { f = SPEC_MAJ(b, c, d);    K = 0x8f1bbcdcu; }
        else            { f = SPEC_PARITY(b, c, d); K = 0xca62c1d6u; }
        T = SPEC_ROTL32(a, 5) + f + e + K + W[t];                        /* = SPEC_SHA1_T_FIPS(a, f, e, K, W[t]) */
        e = d; d = c; c = SPEC_ROTL32(b, 30); b = a; a = T;
    }
    H[0] = a + H[0]; H[1] = b + H[1]; H[2] = c + H[2]; H[3] = d + H[3]; H[4] = e + H[4];   /* step 4 */
}


/* ---- SHA-1, second form, for the decomposition of the block equivalence (units/shablk.c) ---------------------
 * The FIPS text of step 3 is  T = ROTL5(a) + f_t(b,c,d) + e + K_t + W_t.  32-bit addition is associative and
 * commutative, and Ch/Maj have several equivalent Boolean forms, but a SAT solver has to rediscover that in each of
 * the 80 chained rounds when an implementation sums in another order (the monolithic equivalence did not finish in
 * an hour).  spec_sha1_compress_ord is the SAME text as spec_sha1_compress except that T is computed by
 * SPEC_SHA1_T_ORD and f_t by the *_ALT forms.  The one-round lemma (unit sha1_round_lemma, full domain, seconds)
 * proves  SPEC_SHA1_T_ORD == SPEC_SHA1_T_FIPS,  SPEC_CH_ALT == SPEC_CH,  SPEC_MAJ_ALT == SPEC_MAJ  for all word
 * values; replacing a subexpression by a pointwise-equal one does not change the function (this last step is a
 * substitution argument, not mechanised). */
#define SPEC_SHA1_T_FIPS(a, f, e, K, W) (SPEC_ROTL32(a, 5) + (f) + (e) + (K) + (W))
#define SPEC_SHA1_T_ORD(a, f, e, K, W)  ((e) + ((f) + (W) + (K) + SPEC_ROTL32(a, 5)))
#define SPEC_CH_ALT(x, y, z)  ((((x) & ((y) ^ (z))) ^ (z)))
#define SPEC_MAJ_ALT(x, y, z) (((((x) | (y)) & (z)) | ((x) & (y))))
static inline void spec_sha1_compress_ord(uint32_t H[5], const unsigned char M[64]) {
    uint32_t W[80];
    uint32_t a, b, c, d, e, T;
    int t;
    for(t = 0; t < 16; t++)
        W[t] = ((uint32_t)M[4 * t] << 24) | ((uint32_t)M[4 * t + 1] << 16) |
               ((uint32_t)M[4 * t + 2] << 8) | (uint32_t)M[4 * t + 3];
    for(t = 16; t < 80; t++)
        W[t] = SPEC_ROTL32(W[t - 3] ^ W[t - 8] ^ W[t - 14] ^ W[t - 16], 1);
    a = H[0]; b = H[1]; c = H[2]; d = H[3]; e = H[4];
    for(t = 0; t < 80; t++) {
        uint32_t f, K;
        if(t < 20)      { f = SPEC_CH_ALT(b, c, d);  K = 0x5a827999u; }
        else if(t < 40) { f = SPEC_PARITY(b, c, d);  K = 0x6ed9eba1u; }
        else if(t < 60) { f = SPEC_MAJ_ALT(b, c, d); K = 0x8f1bbcdcu; }
        else            { f = SPEC_PARITY(b, c, d);  K = 0xca62c1d6u; }
        T = SPEC_SHA1_T_ORD(a, f, e, K, W[t]);
        e = d; d = c; c = SPEC_ROTL32(b, 30); b = a; a = T;
    }
    H[0] = a + H[0]; H[1] = b + H[1]; H[2] = c + H[2]; H[3] = d + H[3]; H[4] = e + H[4];
}

/* ---- 6.2.2 SHA-256 hash computation, one block ----------------------------------------------- */
static inline void spec_sha256_compress(uint32_t H[8], const unsigned char M[64]) {
    uint32_t W[64];
    uint32_t a, b, c, d, e, f, g, h, T1, T2;
    int t;
    for(t = 0; t < 16; t++)
        W[t] = ((uint32_t)M[4 * t] << 24) | ((uint32_t)M[4 * t + 1] << 16) |
               ((uint32_t)M[4 * t + 2] << 8) | (uint32_t)M[4 * t + 3];
    for(t = 16; t < 64; t++)
        W[t] = SPEC_S256_SSIG1(W[t - 2]) + W[t - 7] + SPEC_S256_SSIG0(W[t - 15]) + W[t - 16];
    a = H[0]; b = H[1]; c = H[2]; d = H[3]; e = H[4]; f = H[5]; g = H[6]; h = H[7];
    for(t = 0; t < 64; t++) {
        T1 = h + SPEC_S256_BSIG1(e) + SPEC_CH(e, f, g) + spec_sha256_K[t] + W[t];
        T2 = SPEC_S256_BSIG0(a) + SPEC_MAJ(a, b, c);
        h = g; g = f; f = e; e = d + T1; d = c; c = b; b = a; a = T1 + T2;
    }
    H[0] = a + H[0]; H[1] = b + H[1]; H[2] = c + H[2]; H[3] = d + H[3];
    H[4] = e + H[4]; H[5] = f + H[5]; H[6] = g + H[6]; H[7] = h + H[7];
}

/* ---- 6.4.2 SHA-512 hash computation, one block ----------------------------------------------- */
static inline void spec_sha512_compress(uint64_t H[8], const unsigned char M[128]) {
    uint64_t W[80];
    uint64_t a, b, c, d, e, f, g, h, T1, T2;
    int t;
    for(t = 0; t < 16; t++)
        W[t] = ((uint64_t)M[8 * t] << 56) | ((uint64_t)M[8 * t + 1] << 48) |
               ((uint64_t)M[8 * t + 2] << 40) | ((uint64_t)M[8 * t + 3] << 32) |
               ((uint64_t)M[8 * t + 4] << 24) | ((uint64_t)M[8 * t + 5] << 16) |
               ((uint64_t)M[8 * t + 6] << 8) | (uint64_t)M[8 * t + 7];
    for(t = 16; t < 80; t++)
        W[t] = SPEC_S512_SSIG1(W[t - 2]) + W[t - 7] + SPEC_S512_SSIG0(W[t - 15]) + W[t - 16];
    a = H[0]; b = H[1]; c = H[2]; d = H[3]; e = H[4]; f = H[5]; g = H[6]; h = H[7];
    for(t = 0; t < 80; t++) {
        T1 = h + SPEC_S512_BSIG1(e) + SPEC_CH(e, f, g) + spec_sha512_K[t] + W[t];
        T2 = SPEC_S512_BSIG0(a) + SPEC_MAJ(a, b, c);
        h = g; g = f; f = e; e = d + T1; d = c; c = b; b = a; a = T1 + T2;
    }
    H[0] = a + H[0]; H[1] = b + H[1]; H[2] = c + H[2]; H[3] = d + H[3];
    H[4] = e + H[4]; H[5] = f + H[5]; H[6] = g + H[6]; H[7] = h + H[7];
}

/* ---- 5.1 padding ------------------------------------------------------------------------------
 * The message of l bits is followed by the bit "1", k zero bits (k the smallest non-negative
 * solution of l + 1 + k = 448 mod 512, resp. 896 mod 1024) and the 64-bit (resp. 128-bit)
 * big-endian representation of l.  For byte messages of `len` bytes: the padded length is the least
 * multiple of the block size that is >= len + 1 + 8 (resp. + 16). */
#define SPEC_PAD_TOTAL(len, block, lenfield) \
    ((((unsigned __int128)(len) + 1 + (lenfield) + (block) - 1) / (block)) * (block))
/* byte `pos` (0 <= pos < SPEC_PAD_TOTAL) of the padded message, given the message bytes */
#define SPEC_PAD_LENBYTE(len, total, pos) \
    ((unsigned char)(((total) - 1 - (pos)) >= 16 ? 0 : ((((unsigned __int128)(len)) << 3) >> (8 * ((total) - 1 - (pos))))))
#define SPEC_PAD_BYTE(msg, len, block, lenfield, pos) \
    ((unsigned __int128)(pos) < (unsigned __int128)(len) ? (unsigned char)(msg)[pos] : \
     (unsigned __int128)(pos) == (unsigned __int128)(len) ? (unsigned char)0x80 : \
     (unsigned __int128)(pos) < SPEC_PAD_TOTAL(len, block, lenfield) - (lenfield) ? (unsigned char)0 : \
     SPEC_PAD_LENBYTE(len, SPEC_PAD_TOTAL(len, block, lenfield), (unsigned __int128)(pos)))

/* the same with the padded length `total` (= SPEC_PAD_TOTAL(len, block, lenfield)) computed once by the caller */
#define SPEC_PAD_BYTE_T(msg, len, total, lenfield, pos) \
    ((unsigned __int128)(pos) < (unsigned __int128)(len) ? (unsigned char)(msg)[pos] : \
     (unsigned __int128)(pos) == (unsigned __int128)(len) ? (unsigned char)0x80 : \
     (unsigned __int128)(pos) < (unsigned __int128)(total) - (lenfield) ? (unsigned char)0 : \
     SPEC_PAD_LENBYTE(len, (unsigned __int128)(total), (unsigned __int128)(pos)))
/* byte at absolute position pos >= len of the padded message (the padding itself; needs no message bytes) */
#define SPEC_PAD_TAIL_BYTE(len, block, lenfield, pos) \
    ((unsigned __int128)(pos) == (unsigned __int128)(len) ? (unsigned char)0x80 : \
     (unsigned __int128)(pos) < SPEC_PAD_TOTAL(len, block, lenfield) - (lenfield) ? (unsigned char)0 : \
     SPEC_PAD_LENBYTE(len, SPEC_PAD_TOTAL(len, block, lenfield), (unsigned __int128)(pos)))

/* ---- 6.1 / 6.2 / 6.4: whole-message digests (preprocessing + block loop + serialisation).
 * Only used natively and in the bounded padding lemma (message length is a loop bound here). ---- */
static inline void spec_sha1(const unsigned char *msg, size_t len, unsigned char out[20]) {
    uint32_t H[5]; unsigned char blk[64]; size_t total = (size_t)SPEC_PAD_TOTAL(len, 64, 8), p; int i;
    for(i = 0; i < 5; i++) H[i] = SPEC_SHA1_IV(i);
    for(p = 0; p < total; p += 64) {
        for(i = 0; i < 64; i++) blk[i] = SPEC_PAD_BYTE(msg, len, 64, 8, p + i);
        spec_sha1_compress(H, blk);
    }
    for(i = 0; i < 20; i++) out[i] = (unsigned char)(H[i >> 2] >> (8 * (3 - (i & 3))));
}
static inline void spec_sha256(const unsigned char *msg, size_t len, unsigned char out[32]) {
    uint32_t H[8]; unsigned char blk[64]; size_t total = (size_t)SPEC_PAD_TOTAL(len, 64, 8), p; int i;
    for(i = 0; i < 8; i++) H[i] = SPEC_SHA256_IV(i);
    for(p = 0; p < total; p += 64) {
        for(i = 0; i < 64; i++) blk[i] = SPEC_PAD_BYTE(msg, len, 64, 8, p + i);
        spec_sha256_compress(H, blk);
    }
    for(i = 0; i < 32; i++) out[i] = (unsigned char)(H[i >> 2] >> (8 * (3 - (i & 3))));
}
static inline void spec_sha512(const unsigned char *msg, size_t len, unsigned char out[64]) {
    uint64_t H[8]; unsigned char blk[128]; size_t total = (size_t)SPEC_PAD_TOTAL(len, 128, 16), p; int i;
    for(i = 0; i < 8; i++) H[i] = SPEC_SHA512_IV(i);
    for(p = 0; p < total; p += 128) {
        for(i = 0; i < 128; i++) blk[i] = SPEC_PAD_BYTE(msg, len, 128, 16, p + i);
        spec_sha512_compress(H, blk);
    }
    for(i = 0; i < 64; i++) out[i] = (unsigned char)(H[i >> 3] >> (8 * (7 - (i & 7))));
}
#endif
