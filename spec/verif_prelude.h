/* Common prelude for every proof unit (CBMC build and native replay build).
 * Contract clauses are written through V_* macros so that the very same unit file
 * compiles natively (-DVERIF_NATIVE) for counterexample replay. */
#ifndef VERIF_PRELUDE_H
#define VERIF_PRELUDE_H

#include <stdlib.h>
#include <stdint.h>
#include <stdbool.h>
#include <string.h>
#include <stddef.h>
#include <limits.h>

#ifdef VERIF_NATIVE
#include <stdio.h>
#define V_REQUIRES(x)
#define V_ENSURES(x)
#define V_ASSIGNS(...)
#define V_FREES(...)
#define V_ASSUME(x) do { if(!(x)) { printf("REPLAY: assumption not met: %s\n", #x); exit(3); } } while(0)
#define V_ASSERT(x, msg) do { if(!(x)) { printf("REPLAY-FAIL: %s\n", msg); exit(1); } } while(0)
#define V_COVER(x) ((void)0)
#define V_OLD(x) (x)
#define V_INPUT(T) static T nondet_##T(void);
#else
#define V_REQUIRES(x) __CPROVER_requires(x)
#define V_ENSURES(x) __CPROVER_ensures(x)
#define V_ASSIGNS(...) __CPROVER_assigns(__VA_ARGS__)
#define V_FREES(...) __CPROVER_frees(__VA_ARGS__)
#define V_ASSUME(x) __CPROVER_assume(x)
#define V_ASSERT(x, msg) __CPROVER_assert(x, msg)
#ifdef VERIF_COVER
/* vacuity guard: an assertion that MUST FAIL (reachable with x true); __CPROVER_cover does not
 * survive --dfcc instrumentation in CBMC 6.11 */
#define V_COVER(x) __CPROVER_assert(!(x), "COVER " #x)
#else
#define V_COVER(x) ((void)0)
#endif
#define V_OLD(x) __CPROVER_old(x)
#define V_INPUT(T) T nondet_##T(void);
#endif

/* Control-only units (-DVERIF_CTL): the same contract text minus the buffer/list well-formedness
 * clauses.  Such a unit proves the control and ghost-accounting postconditions of a function for an
 * ARBITRARY index list (no list shape is assumed at all); the well-formedness preconditions of the
 * callees it uses are discharged in the companion memory-safety unit of the same function. */
#ifdef VERIF_CTL
#define V_REQUIRES_WF(x)
#define V_ENSURES_WF(x)
#else
#define V_REQUIRES_WF(x) V_REQUIRES(x)
#define V_ENSURES_WF(x) V_ENSURES(x)
#endif

#ifdef VERIF_LEAKY_CALLEES
/* used as an ASSUMPTION inside a loop: the callee's free() of the old buffer is not modelled (the
 * old buffer is leaked in the model; callers under contract never keep an alias to it) */
#define V_FREES_CALLEE(...)
#else
#define V_FREES_CALLEE(...) V_FREES(__VA_ARGS__)
#endif
/* codec hook stand-ins: their frees are part of the contract only where the REAL hook is enforced against it
 * (units/codec.c); as assumptions the stand-ins leak the old buffers (model only) */
#ifdef VERIF_ENFORCE_HOOK_FREES
#define V_FREES_HOOK(...) V_FREES(__VA_ARGS__)
#else
#define V_FREES_HOOK(...)
#endif

/* Tie the first bytes of a harness-built buffer of symbolic size n to a fixed-size array of the
 * input record, position by position and loop-free (CBMC: assumptions on the nondet heap
 * content; native replay: stores), so that the counterexample bytes are part of `in`. */
#ifdef VERIF_NATIVE
#define V_TIE1(b, n, s, k) do { if((size_t)(k) < (size_t)(n)) (b)[k] = (s)[k]; } while(0)
#elif defined(VERIF_TIE)
#define V_TIE1(b, n, s, k) do { if((size_t)(k) < (size_t)(n)) __CPROVER_assume((b)[k] == (s)[k]); } while(0)
#else
/* proof runs leave the heap content unconstrained (ties cost minutes); the driver re-runs a unit
 * with -DVERIF_TIE only after an obligation failed, to obtain a replayable counterexample */
#define V_TIE1(b, n, s, k) ((void)0)
#endif
#define V_TIE4(b, n, s, k)  V_TIE1(b, n, s, k); V_TIE1(b, n, s, (k) + 1); V_TIE1(b, n, s, (k) + 2); V_TIE1(b, n, s, (k) + 3)
#define V_TIE16(b, n, s, k) V_TIE4(b, n, s, k); V_TIE4(b, n, s, (k) + 4); V_TIE4(b, n, s, (k) + 8); V_TIE4(b, n, s, (k) + 12)
#define V_TIE64(b, n, s, k) V_TIE16(b, n, s, k); V_TIE16(b, n, s, (k) + 16); V_TIE16(b, n, s, (k) + 32); V_TIE16(b, n, s, (k) + 48)
#define V_TIE128(b, n, s, k) V_TIE64(b, n, s, k); V_TIE64(b, n, s, (k) + 64)
#define V_TIE192(b, n, s, k) V_TIE128(b, n, s, k); V_TIE64(b, n, s, (k) + 128)
/* NOTE: b must be the BASE of the object (constant indices): ties through a pointer with a
 * symbolic offset cost ~10 s each in CBMC 6.11, constant-index ties are free. */

#endif
