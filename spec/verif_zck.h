/* Pulls in the real private header of zchunk and applies the only textual replacement the
 * verified text needs (DESIGN.md section 4.1): the variadic logging/error macros.  All their
 * arguments are still evaluated; formatting into zck->msg and the log sink are dropped. */
#ifndef VERIF_ZCK_H
#define VERIF_ZCK_H
#include "spec/verif_prelude.h"
#ifdef VERIF_UTHASH_STUB
#include "stubs/uthash_stub.h"
#endif
#include "zck.h"
#include "zck_private.h"

#undef set_error
#undef set_fatal_error
#undef zck_log
static inline void verif_set_error(zckCtx *z, int fatal) {
    if(z) z->error_state = 1 + (fatal > 0);
}
#define set_error(zck, ...)       ((void)(0, __VA_ARGS__), verif_set_error(zck, 0))
#define set_fatal_error(zck, ...) ((void)(0, __VA_ARGS__), verif_set_error(zck, 1))
#define zck_log(...)              ((void)(0, __VA_ARGS__))
#include "contracts/names.h"
/* DESIGN.md section 4.7: block size of the copy loops may be overridden per unit (stated
 * abstraction, listed in the unit's assumptions). */
#ifdef VERIF_BUF_SIZE
#undef BUF_SIZE
#define BUF_SIZE VERIF_BUF_SIZE
#endif
#endif
