/* ASSUMED contracts of the kernel interface (never proved): read/write/lseek may fail (-1),
 * be short, or complete, at EVERY call.  The ghost state records what happened. */
#ifndef STUBS_LIBC_IO_H
#define STUBS_LIBC_IO_H
#include <unistd.h>
#include "spec/ghost.h"

ssize_t read(int __fd, void *__buf, size_t __nbytes)
V_REQUIRES(__nbytes == 0 || __CPROVER_w_ok(__buf, __nbytes))
V_ASSIGNS(__nbytes > 0: __CPROVER_object_upto(__buf, __nbytes); g_fpos, g_rd_bytes, g_io_failed, g_last_read, g_watch_seen, g_watch_val)
V_ENSURES(__CPROVER_return_value >= -1 && (__CPROVER_return_value == -1 || (size_t)__CPROVER_return_value <= __nbytes))
#define RD_HIT(fd, ret) ((fd) == g_watch_fd && (ret) > 0 && g_watch_off >= V_OLD(g_fpos[G_IX(fd)]) && g_watch_off - V_OLD(g_fpos[G_IX(fd)]) < (g_off_t)(ret))
V_ENSURES(!RD_HIT(__fd, __CPROVER_return_value) || (g_watch_seen == 1 && (V_OLD(g_watch_seen) == 1 || g_watch_val == ((unsigned char *)__buf)[g_watch_off - V_OLD(g_fpos[G_IX(__fd)])]) && (V_OLD(g_watch_seen) != 1 || (g_watch_val == V_OLD(g_watch_val) && g_watch_val == ((unsigned char *)__buf)[g_watch_off - V_OLD(g_fpos[G_IX(__fd)])]))))
V_ENSURES(RD_HIT(__fd, __CPROVER_return_value) || (g_watch_seen == V_OLD(g_watch_seen) && g_watch_val == V_OLD(g_watch_val)))
V_ENSURES(g_last_read == __CPROVER_return_value)
V_ENSURES(__CPROVER_return_value < 0 || (g_fpos[G_IX(__fd)] == V_OLD(g_fpos[G_IX(__fd)]) + (g_off_t)__CPROVER_return_value && g_rd_bytes[G_IX(__fd)] == V_OLD(g_rd_bytes[G_IX(__fd)]) + (size_t)__CPROVER_return_value))
V_ENSURES(__CPROVER_return_value >= 0 || (g_fpos[G_IX(__fd)] == V_OLD(g_fpos[G_IX(__fd)]) && g_rd_bytes[G_IX(__fd)] == V_OLD(g_rd_bytes[G_IX(__fd)])))
V_ENSURES((!((__CPROVER_return_value == -1 || (size_t)__CPROVER_return_value < __nbytes)) || (g_io_failed == 1)) && (((__CPROVER_return_value == -1 || (size_t)__CPROVER_return_value < __nbytes)) || (g_io_failed == V_OLD(g_io_failed))))
V_ENSURES(G_FRAME(g_fpos, __fd) && G_FRAME(g_rd_bytes, __fd))   /* the ghost state of other descriptors is untouched */
;

ssize_t write(int __fd, const void *__buf, size_t __n)
V_REQUIRES(__n == 0 || __CPROVER_r_ok(__buf, __n))
V_ASSIGNS(g_fpos, g_wr_bytes, g_io_failed, g_win_bad)
V_ENSURES(__CPROVER_return_value >= -1 && (__CPROVER_return_value == -1 || (size_t)__CPROVER_return_value <= __n))
V_ENSURES(__CPROVER_return_value < 0 || (g_fpos[G_IX(__fd)] == V_OLD(g_fpos[G_IX(__fd)]) + (g_off_t)__CPROVER_return_value && g_wr_bytes[G_IX(__fd)] == V_OLD(g_wr_bytes[G_IX(__fd)]) + (size_t)__CPROVER_return_value))
V_ENSURES(__CPROVER_return_value >= 0 || (g_fpos[G_IX(__fd)] == V_OLD(g_fpos[G_IX(__fd)]) && g_wr_bytes[G_IX(__fd)] == V_OLD(g_wr_bytes[G_IX(__fd)])))
V_ENSURES((!((__CPROVER_return_value == -1 || (size_t)__CPROVER_return_value < __n)) || (g_io_failed == 1)) && (((__CPROVER_return_value == -1 || (size_t)__CPROVER_return_value < __n)) || (g_io_failed == V_OLD(g_io_failed))))
V_ENSURES((!((__fd == g_win_fd && __CPROVER_return_value > 0 && !(V_OLD(g_fpos[G_IX(__fd)]) >= g_win_lo && V_OLD(g_fpos[G_IX(__fd)]) + (g_off_t)__CPROVER_return_value <= g_win_hi))) || (g_win_bad == 1)) && (((__fd == g_win_fd && __CPROVER_return_value > 0 && !(V_OLD(g_fpos[G_IX(__fd)]) >= g_win_lo && V_OLD(g_fpos[G_IX(__fd)]) + (g_off_t)__CPROVER_return_value <= g_win_hi))) || (g_win_bad == V_OLD(g_win_bad))))
V_ENSURES(G_FRAME(g_fpos, __fd) && G_FRAME(g_wr_bytes, __fd))   /* the ghost state of other descriptors is untouched */
;

/* with _FILE_OFFSET_BITS=64 glibc renames lseek to lseek64 (asm label); the contract goes there */
off_t lseek64(int __fd, off_t __offset, int __whence)
V_ASSIGNS(g_fpos, g_io_failed)
V_ENSURES(__CPROVER_return_value >= -1)
V_ENSURES((!(__CPROVER_return_value == -1) || (g_io_failed == 1)) && ((__CPROVER_return_value == -1) || (g_io_failed == V_OLD(g_io_failed))))
V_ENSURES(((!(__CPROVER_return_value == -1) || (g_fpos[G_IX(__fd)] == V_OLD(g_fpos[G_IX(__fd)]))) && ((__CPROVER_return_value == -1) || (g_fpos[G_IX(__fd)] == (g_off_t)__CPROVER_return_value))))
V_ENSURES(__CPROVER_return_value == -1 || __whence != SEEK_SET || __CPROVER_return_value == __offset)
V_ENSURES(__CPROVER_return_value == -1 || __whence != SEEK_CUR || (g_off_t)__CPROVER_return_value == V_OLD(g_fpos[G_IX(__fd)]) + (g_off_t)__offset)
V_ENSURES(G_FRAME(g_fpos, __fd))   /* the ghost state of other descriptors is untouched */
;
#endif
