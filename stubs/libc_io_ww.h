/* ASSUMED contract of write(2) as in stubs/libc_io.h, plus the watched-byte record of
 * spec/ghost_dl.h (which value a chosen file offset received).  Units that need the record divert
 * the declaration in stubs/libc_io.h (#define write ... around the include) and use this one. */
#ifndef STUBS_LIBC_IO_WW_H
#define STUBS_LIBC_IO_WW_H
#include <unistd.h>
#include "spec/ghost_dl.h"
#define WR_N(ret) ((ret) > 0 ? (g_off_t)(ret) : (g_off_t)0)
ssize_t write(int __fd, const void *__buf, size_t __n)
V_REQUIRES(__n == 0 || __CPROVER_r_ok(__buf, __n))
V_ASSIGNS(g_fpos, g_wr_bytes, g_io_failed, g_win_bad, g_ww_hit, g_ww_val)
V_ENSURES(__CPROVER_return_value >= -1 && (__CPROVER_return_value == -1 || (size_t)__CPROVER_return_value <= __n))
V_ENSURES(__CPROVER_return_value < 0 || (g_fpos[G_IX(__fd)] == V_OLD(g_fpos[G_IX(__fd)]) + (g_off_t)__CPROVER_return_value && g_wr_bytes[G_IX(__fd)] == V_OLD(g_wr_bytes[G_IX(__fd)]) + (size_t)__CPROVER_return_value))
V_ENSURES(__CPROVER_return_value >= 0 || (g_fpos[G_IX(__fd)] == V_OLD(g_fpos[G_IX(__fd)]) && g_wr_bytes[G_IX(__fd)] == V_OLD(g_wr_bytes[G_IX(__fd)])))
V_ENSURES((!((__CPROVER_return_value == -1 || (size_t)__CPROVER_return_value < __n)) || (g_io_failed == 1)) && (((__CPROVER_return_value == -1 || (size_t)__CPROVER_return_value < __n)) || (g_io_failed == V_OLD(g_io_failed))))
V_ENSURES((!((__fd == g_win_fd && __CPROVER_return_value > 0 && !(V_OLD(g_fpos[G_IX(__fd)]) >= g_win_lo && V_OLD(g_fpos[G_IX(__fd)]) + (g_off_t)__CPROVER_return_value <= g_win_hi))) || (g_win_bad == 1)) && (((__fd == g_win_fd && __CPROVER_return_value > 0 && !(V_OLD(g_fpos[G_IX(__fd)]) >= g_win_lo && V_OLD(g_fpos[G_IX(__fd)]) + (g_off_t)__CPROVER_return_value <= g_win_hi))) || (g_win_bad == V_OLD(g_win_bad))))
V_ENSURES(!WW_IN(__fd, V_OLD(g_fpos[G_IX(__fd)]), WR_N(__CPROVER_return_value)) || (g_ww_hit == V_OLD(g_ww_hit) + 1 && g_ww_val == ((const char *)__buf)[g_ww_off - V_OLD(g_fpos[G_IX(__fd)])]))
V_ENSURES(WW_IN(__fd, V_OLD(g_fpos[G_IX(__fd)]), WR_N(__CPROVER_return_value)) || WW_SAME)
;
#endif
