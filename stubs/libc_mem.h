/* ASSUMED contracts of memcmp/strncmp (C standard semantics), used instead of CBMC's loop models:
 * under --dfcc every assignment of the model's loop is instrumented, which exhausts memory for
 * 64-byte digests.  Quantifier-free via ghost indices:
 *   g_k1  (input, solver-chosen, never constrained)  "for every index k"
 *   g_mc_diff / g_sn_nul (outputs)                    witnesses of the existential parts         */
#ifndef STUBS_LIBC_MEM_H
#define STUBS_LIBC_MEM_H
#include <string.h>
#include "spec/ghost.h"
extern size_t g_mc_diff, g_sn_nul;
int memcmp(const void *__s1, const void *__s2, size_t __n)
V_REQUIRES(__n == 0 || (__CPROVER_r_ok(__s1, __n) && __CPROVER_r_ok(__s2, __n)))
V_ASSIGNS(g_mc_diff)
V_ENSURES(__CPROVER_return_value != 0 || !(g_k1 < __n) || ((const unsigned char *)__s1)[g_k1] == ((const unsigned char *)__s2)[g_k1])
V_ENSURES(__CPROVER_return_value == 0 || (g_mc_diff < __n && ((const unsigned char *)__s1)[g_mc_diff] != ((const unsigned char *)__s2)[g_mc_diff]))
;
int strncmp(const char *__s1, const char *__s2, size_t __n)
V_ASSIGNS(g_mc_diff, g_sn_nul)
/* equal result: every position k is equal unless a terminating NUL precedes it */
V_ENSURES(__CPROVER_return_value != 0 || !(g_k1 < __n) || __s1[g_k1] == __s2[g_k1] || (g_sn_nul < g_k1 && __s1[g_sn_nul] == 0 && __s2[g_sn_nul] == 0))
V_ENSURES(__CPROVER_return_value == 0 || (g_mc_diff < __n && __s1[g_mc_diff] != __s2[g_mc_diff]))
;
#define GHOST_MEM_DEFS size_t g_mc_diff, g_sn_nul;
#endif
