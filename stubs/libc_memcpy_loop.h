/* Byte-loop model of memcpy for the C18 buffering units (opt-in per unit with -DVERIF_MEMCPY_LOOP).
 * CBMC's built-in memcpy with a SYMBOLIC length is an array-comprehension over the source object; with a
 * message object of symbolic size (up to 4 GiB, which is the point of these units) that costs > 10 min.
 * In the bundled SHA code every copy length is bounded by the block size (a constant of the code), so the
 * byte loop is unwound completely (--unwinding-assertions proves the bound: a copy longer than the unit's
 * --unwind makes the unit UNDECIDED, never passed).  Under --dfcc every store of the loop is checked against
 * the write set of the function under contract, like any other code.  Part of the trusted libc model list. */
#ifndef VERIF_LIBC_MEMCPY_LOOP_H
#define VERIF_LIBC_MEMCPY_LOOP_H
#if defined(VERIF_MEMCPY_UNROLLED) && !defined(VERIF_NATIVE)
/* loop-free variant for units that run with --apply-loop-contracts (there every loop without a contract gives a
 * spurious "i is not assignable"): 64 guarded byte copies written out, and an assertion that 64 is enough */
#include <string.h>
#define VM_C1(k)  if((size_t)(k) < n) ((char *)dst)[k] = ((const char *)src)[k];
#define VM_C4(k)  VM_C1(k) VM_C1((k) + 1) VM_C1((k) + 2) VM_C1((k) + 3)
#define VM_C16(k) VM_C4(k) VM_C4((k) + 4) VM_C4((k) + 8) VM_C4((k) + 12)
static void *verif_memcpy_unrolled(void *dst, const void *src, size_t n) {
    __CPROVER_assert(n <= 64, "memcpy model: copy length is at most one SHA-1 block");
    VM_C16(0) VM_C16(16) VM_C16(32) VM_C16(48)
    return dst;
}
#define memcpy(d, s, n) verif_memcpy_unrolled((d), (s), (n))
#elif defined(VERIF_MEMCPY_LOOP) && !defined(VERIF_NATIVE)
#include <string.h>
static void *verif_memcpy_loop(void *dst, const void *src, size_t n) {
    for(size_t i = 0; i < n; i++)
        ((char *)dst)[i] = ((const char *)src)[i];
    return dst;
}
#define memcpy(d, s, n) verif_memcpy_loop((d), (s), (n))
#endif
#endif
