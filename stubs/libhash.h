/* ASSUMED ghost-recording contracts of the back-end interface lib_hash_init/update/final/ctx_close (implemented
 * twice: src/lib/hash/bundled/libsha.c and src/lib/hash/openssl/openssl.c), as used by the units that ENFORCE the
 * hash_init / hash_update / hash_finalize contracts of contracts/hashfn.h on the real src/lib/hash/hash.c.
 * They carry the g_hu_* bookkeeping of the hashing coverage model (spec/ghost.h): WHICH bytes were fed to the
 * watched zckHash object since its last init, and the digest byte handed back at finalize.
 * The non-ghost clauses are consequences of what units/libsha.c proves for the bundled back end
 * (contracts/libsha.h): result values, context allocation, closing behaviour INCLUDING the out-of-memory path of
 * lib_hash_final that returns NULL without closing the hash.  Deviations of the OpenSSL back end that these
 * contracts do not cover are listed in agent-notes/sha.md (EVP_* failures close the hash inside lib_hash_update;
 * an unsupported type leaves an allocated EVP context behind in lib_hash_init). */
#ifndef STUBS_LIBHASH_H
#define STUBS_LIBHASH_H
#include "spec/ghost.h"
#include "spec/spec_hash.h"
#ifndef SPEC_ALLOC_DIGEST
#define SPEC_ALLOC_DIGEST(t) ((t) == 0 ? 20 : (t) == 1 ? 32 : 64)
#endif
#define LH_HASH_OK(h) (__CPROVER_rw_ok((h), sizeof(zckHash)) && (h)->type != NULL && __CPROVER_r_ok((h)->type, sizeof(zckHashType)))
#define LH_HIT(h, n) ((h) == g_hu_hash && g_hu_k >= V_OLD(g_hu_total) && g_hu_k - V_OLD(g_hu_total) < (n))

void lib_hash_ctx_close(zckHash *hash)
V_REQUIRES(__CPROVER_rw_ok(hash, sizeof(*hash)))
V_ASSIGNS()
V_FREES(hash->ctx)
;

bool lib_hash_init(zckCtx *zck, zckHash *hash)
V_REQUIRES(zck == NULL || __CPROVER_rw_ok(zck, sizeof(*zck)))
V_REQUIRES(LH_HASH_OK(hash))
V_REQUIRES(hash->ctx == NULL)                      /* hash_init closes the hash first: no context is overwritten (leaked) */
V_ASSIGNS(hash->ctx, g_hu_total, g_hu_seen, g_hu_inits; zck != NULL: zck->error_state)
V_ENSURES(!__CPROVER_return_value || __CPROVER_is_fresh(hash->ctx, 1))
V_ENSURES(!__CPROVER_return_value || SPEC_HASH_VALID(hash->type->type))
V_ENSURES(__CPROVER_return_value || hash->ctx == NULL)
V_ENSURES(__CPROVER_return_value || SPEC_HASH_VALID(hash->type->type) || zck == NULL || zck->error_state > 0)
V_ENSURES(!__CPROVER_return_value || zck == NULL || zck->error_state == V_OLD(zck->error_state))
V_ENSURES(hash != g_hu_hash || (g_hu_total == 0 && g_hu_seen == 0 && g_hu_inits == V_OLD(g_hu_inits) + 1))
V_ENSURES(hash == g_hu_hash || (g_hu_total == V_OLD(g_hu_total) && g_hu_seen == V_OLD(g_hu_seen) && g_hu_inits == V_OLD(g_hu_inits)))
;

bool lib_hash_update(zckCtx *zck, zckHash *hash, const char *message, const size_t size)
V_REQUIRES(zck == NULL || __CPROVER_rw_ok(zck, sizeof(*zck)))
V_REQUIRES(LH_HASH_OK(hash) && hash->ctx != NULL)
V_REQUIRES(message != NULL && size > 0 && __CPROVER_r_ok(message, size))
V_ASSIGNS(g_hu_total, g_hu_seen, g_hu_ptr; zck != NULL: zck->error_state)
V_ENSURES(__CPROVER_return_value == SPEC_HASH_VALID(hash->type->type))
V_ENSURES(__CPROVER_return_value || zck == NULL || zck->error_state > 0)
V_ENSURES(!__CPROVER_return_value || zck == NULL || zck->error_state == V_OLD(zck->error_state))
V_ENSURES(!__CPROVER_return_value || hash != g_hu_hash || g_hu_total == V_OLD(g_hu_total) + size)
V_ENSURES(!__CPROVER_return_value || !LH_HIT(hash, size) || (g_hu_seen == V_OLD(g_hu_seen) + 1 && g_hu_ptr == message + (g_hu_k - V_OLD(g_hu_total))))
V_ENSURES((__CPROVER_return_value && LH_HIT(hash, size)) || (g_hu_seen == V_OLD(g_hu_seen) && g_hu_ptr == V_OLD(g_hu_ptr)))
V_ENSURES((__CPROVER_return_value && hash == g_hu_hash) || g_hu_total == V_OLD(g_hu_total))
;

char *lib_hash_final(zckCtx *zck, zckHash *hash)
V_REQUIRES(zck == NULL || __CPROVER_rw_ok(zck, sizeof(*zck)))
V_REQUIRES(LH_HASH_OK(hash) && hash->ctx != NULL)
V_ASSIGNS(hash->type, hash->ctx, g_hu_final, g_fin_val, g_fin_total, g_fin_seen, g_fin_ptr; zck != NULL: zck->error_state)
V_FREES(hash->ctx)
V_ENSURES((hash->ctx == NULL && hash->type == NULL) || (__CPROVER_return_value == NULL && SPEC_HASH_VALID(V_OLD(hash->type)->type) && hash->ctx == V_OLD(hash->ctx) && hash->type == V_OLD(hash->type)))
V_ENSURES(__CPROVER_return_value == NULL || __CPROVER_is_fresh(__CPROVER_return_value, SPEC_ALLOC_DIGEST(V_OLD(hash->type)->type)))
V_ENSURES(__CPROVER_return_value == NULL || SPEC_HASH_VALID(V_OLD(hash->type)->type))
V_ENSURES(__CPROVER_return_value != NULL || SPEC_HASH_VALID(V_OLD(hash->type)->type) || zck == NULL || zck->error_state > 0)
V_ENSURES(__CPROVER_return_value == NULL || zck == NULL || zck->error_state == V_OLD(zck->error_state))
V_ENSURES(hash != g_hu_hash || __CPROVER_return_value == NULL || (g_hu_final == V_OLD(g_hu_final) + 1 && g_fin_total == g_hu_total && g_fin_seen == g_hu_seen && g_fin_ptr == g_hu_ptr && (!(g_k1 < (size_t)SPEC_ALLOC_DIGEST(V_OLD(hash->type)->type)) || g_fin_val == __CPROVER_return_value[g_k1])))
V_ENSURES((hash == g_hu_hash && __CPROVER_return_value != NULL) || (g_hu_final == V_OLD(g_hu_final) && g_fin_val == V_OLD(g_fin_val) && g_fin_total == V_OLD(g_fin_total) && g_fin_seen == V_OLD(g_fin_seen) && g_fin_ptr == V_OLD(g_fin_ptr)))
;
#endif
