/* ASSUMED model of POSIX regcomp/regexec/regfree (libc, never proved) with the typestate of a regex_t:
 * regex_t is opaque to zchunk, so its public field re_nsub carries the ghost flag "compiled"
 * (RX_MAGIC = holds a compiled pattern; zmalloc'd = 0 = not compiled; a failed regcomp leaves the
 * object undefined = not compiled; regfree ends the compiled state).
 * C17: regexec/regfree on a pattern that is not compiled is undefined behaviour => requires. */
#ifndef STUBS_REGEX_H
#define STUBS_REGEX_H
#include <regex.h>
#define RX_MAGIC ((size_t)0x5258)
#define RX_COMPILED(p) ((p)->re_nsub == RX_MAGIC)
#define RX_OK(p) ((p) == NULL || (__CPROVER_rw_ok((p), sizeof(regex_t)) && RX_COMPILED(p)))
int regcomp(regex_t *__preg, const char *__pattern, int __cflags)
V_REQUIRES(__CPROVER_w_ok(__preg, sizeof(regex_t)))
V_REQUIRES(__pattern != NULL && __CPROVER_r_ok(__pattern, 1))
V_ASSIGNS(*__preg)
V_ENSURES((__CPROVER_return_value == 0) == RX_COMPILED(__preg))
;
void regfree(regex_t *__preg)
V_REQUIRES(__preg != NULL && __CPROVER_rw_ok(__preg, sizeof(regex_t)))
V_REQUIRES(RX_COMPILED(__preg))
V_ASSIGNS(*__preg)
V_ENSURES(!RX_COMPILED(__preg))
;
#ifndef VERIF_NATIVE
int nondet_rx_int(void); regoff_t nondet_rx_off(void);
/* regexec: body model (the length of the subject string needs a scan).  Over-approximation: any verdict;
 * on a match every reported sub-match is ANY pair 0 <= so <= eo <= strlen(string). An unterminated
 * subject string shows up as an out-of-bounds read of the scan. */
int regexec(const regex_t *__preg, const char *__string, size_t __nmatch, regmatch_t __pmatch[], int __eflags) {
    __CPROVER_assert(__preg != NULL && __CPROVER_r_ok(__preg, sizeof(regex_t)), "C17.regexec.pattern_object_is_allocated");
    __CPROVER_assert(RX_COMPILED(__preg), "C17.regexec.pattern_is_compiled");
    size_t n = 0;
    while(__string[n] != 0) n++;
    if(nondet_rx_int()) return REG_NOMATCH;
    for(size_t i = 0; i < __nmatch; i++) {
        regoff_t so = nondet_rx_off(), eo = nondet_rx_off();
        __CPROVER_assume(0 <= so && so <= eo && (size_t)eo <= n);
        __pmatch[i].rm_so = so; __pmatch[i].rm_eo = eo;
    }
    return 0;
}
#endif
#endif
