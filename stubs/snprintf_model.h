/* TRUSTED deterministic model of snprintf (C11 7.21.6.5) for the only format strings the range /
 * digest-string code uses: literal characters, "%llu" and "%02x".  Writes at most size bytes
 * including the terminating NUL (none when size == 0) and returns the length the complete output
 * would have had.  Used in plain-CBMC bounded units only (CBMC's built-in model leaves the content
 * and the return value unconstrained).  An unsupported directive is an assertion failure of the
 * model, not of the code.
 * With -DVERIF_SNPRINTF_MAY_FAIL the model may also return -1 and write nothing (output error). */
#ifndef STUBS_SNPRINTF_MODEL_H
#define STUBS_SNPRINTF_MODEL_H
#include <stdarg.h>
#include <stddef.h>
#include <stdio.h>
#if !defined(VERIF_NATIVE) && defined(VERIF_SNPRINTF_ABSTRACT)
/* ABSTRACT variant (over-approximation, for memory-safety units): any content, any return value a
 * conforming snprintf can produce for a format whose complete output has between VSN_MIN and
 * VSN_MAX characters ("%llu-%llu," : 4..42), or -1; never writes more than size bytes. */
#ifndef VSN_MIN
#define VSN_MIN 4
#define VSN_MAX 42
#endif
int nondet_snprintf_ret(void); char nondet_snprintf_char(void); size_t nondet_snprintf_pos(void);
int snprintf(char *str, size_t size, const char *fmt, ...) {
    int r = nondet_snprintf_ret();
    __CPROVER_assume(r == -1 || (r >= VSN_MIN && r <= VSN_MAX));
    if(r < 0) return r;
    if(size > 0) {
        /* bytes written: min(r, size-1) characters and the terminating NUL; the callers under
         * analysis never read the characters back, so one solver-chosen position carrying an
         * arbitrary character stands for "any content" (ghost-index idiom) */
        size_t w = (size_t)r < size ? (size_t)r + 1 : size;
        __CPROVER_assert(__CPROVER_w_ok(str, w), "snprintf: destination writable for every byte it may write");
        size_t g = nondet_snprintf_pos();
        if(g < w - 1) str[g] = nondet_snprintf_char();
        str[w - 1] = '\0';
    }
    return r;
}
#elif !defined(VERIF_NATIVE)
int nondet_snprintf_fail(void);
#define VSN_PUT(ch) do { if(size > 0 && n + 1 < size) str[n] = (ch); n++; } while(0)
int snprintf(char *str, size_t size, const char *fmt, ...) {
#ifdef VERIF_SNPRINTF_MAY_FAIL
    if(nondet_snprintf_fail()) return -1;
#endif
    va_list ap;
    va_start(ap, fmt);
    size_t n = 0;
    for(size_t i = 0; fmt[i] != '\0'; i++) {
        if(fmt[i] != '%') { VSN_PUT(fmt[i]); continue; }
        if(fmt[i + 1] == 'l' && fmt[i + 2] == 'l' && fmt[i + 3] == 'u') {
            unsigned long long v = va_arg(ap, unsigned long long);
#ifdef VERIF_SNPRINTF_SMALL
            /* cheap variant for units whose values are assumed < 1000 (64-bit division is costly) */
            __CPROVER_assert(v < 1000, "snprintf model: %llu value within the model's range");
            unsigned short w = (unsigned short)v;
            if(w >= 100) VSN_PUT((char)('0' + w / 100));
            if(w >= 10) VSN_PUT((char)('0' + (w / 10) % 10));
            VSN_PUT((char)('0' + w % 10));
#else
            char d[20]; int nd = 0;
            do { d[nd++] = (char)('0' + (int)(v % 10)); v /= 10; } while(v != 0 && nd < 20);
            while(nd > 0) { nd--; VSN_PUT(d[nd]); }
#endif
            i += 3;
        } else if(fmt[i + 1] == '0' && fmt[i + 2] == '2' && fmt[i + 3] == 'x') {
            /* goto-cc 6.11 passes a variadic (unsigned char) argument as a 1-byte object (no default
             * argument promotion in the goto program), so it is fetched with its unpromoted type */
            unsigned v = (unsigned)va_arg(ap, unsigned char);
            __CPROVER_assert(v < 256, "snprintf model: %02x argument is a byte");
            unsigned h = (v >> 4) & 15u, l = v & 15u;
            VSN_PUT((char)(h < 10 ? '0' + h : 'a' + (h - 10)));
            VSN_PUT((char)(l < 10 ? '0' + l : 'a' + (l - 10)));
            i += 3;
        } else {
            __CPROVER_assert(0, "snprintf model: unsupported directive");
        }
    }
    va_end(ap);
    if(size > 0) str[n < size ? n : size - 1] = '\0';
    return (int)n;
}
#endif
#endif
