/* Stand-in for the third-party src/lib/uthash.h (DESIGN.md section 4.3).  Defining UTHASH_H makes
 * zck_private.h's `#include "uthash.h"` empty.  ASSUMED contract of uthash, never proved:
 *   HASH_FIND yields NULL or an element previously added to that table whose key has the same
 *             length and bytes as the looked-up key (delivered by verif_uthash_find(), which
 *             each unit defines as a contract-bearing function over its ghost table);
 *   HASH_ADD_KEYPTR makes the table head non-NULL; HASH_CLEAR empties the table.            */
#ifndef UTHASH_H
#define UTHASH_H
#include <stddef.h>
typedef struct UT_hash_handle { void *verif_stub; } UT_hash_handle;
struct zckChunk;
struct zckChunk *verif_uthash_find(struct zckChunk *head, const void *key, size_t len, int uncomp);
#define HASH_FIND(hh, head, keyptr, keylen, out) ((out) = verif_uthash_find((head), (keyptr), (size_t)(keylen), sizeof(#hh) > 3))
#define HASH_ADD_KEYPTR(hh, head, keyptr, keylen, add) do { if((head) == NULL) (head) = (add); } while(0)
#define HASH_CLEAR(hh, head) ((head) = NULL)
#endif
