/* ASSUMED contracts of the libzstd entry points used by src/lib/comp/zstd/zstd.c on the reader side
 * (never proved; zstd is third-party).  A decompression call returns an error code (ZSTD_isError)
 * or the number of bytes it wrote, which never exceeds the capacity; it writes only inside
 * dst[0 .. capacity).  Ghost: g_zstd_last = value returned by the most recent decompression call. */
#ifndef STUBS_ZSTD_H
#define STUBS_ZSTD_H
#include <zstd.h>
extern size_t g_zstd_last; extern unsigned g_zstd_calls;
#define SPEC_ZSTD_IS_ERROR(c) ((c) > (size_t)-120)   /* zstd_errors.h: ZSTD_error_maxCode == 120 */
#define ZSTD_DECOMP_CONTRACT \
V_REQUIRES(dstCapacity == 0 || __CPROVER_w_ok(dst, dstCapacity)) \
V_REQUIRES(srcSize == 0 || __CPROVER_r_ok(src, srcSize)) \
V_ASSIGNS(dstCapacity > 0: __CPROVER_object_upto(dst, dstCapacity); g_zstd_last, g_zstd_calls) \
V_ENSURES(__CPROVER_return_value == g_zstd_last && g_zstd_calls == V_OLD(g_zstd_calls) + 1) \
V_ENSURES(__CPROVER_return_value <= dstCapacity || SPEC_ZSTD_IS_ERROR(__CPROVER_return_value))
size_t ZSTD_decompressDCtx(ZSTD_DCtx *dctx, void *dst, size_t dstCapacity, const void *src, size_t srcSize)
ZSTD_DECOMP_CONTRACT
;
size_t ZSTD_decompress_usingDDict(ZSTD_DCtx *dctx, void *dst, size_t dstCapacity, const void *src, size_t srcSize, const ZSTD_DDict *ddict)
ZSTD_DECOMP_CONTRACT
;
unsigned ZSTD_isError(size_t code)
V_ASSIGNS()
V_ENSURES((__CPROVER_return_value != 0) == SPEC_ZSTD_IS_ERROR(code))
;
const char *ZSTD_getErrorName(size_t code)
V_ASSIGNS()
V_ENSURES(__CPROVER_return_value != NULL)
;
#define GHOST_ZSTD_DEFS size_t g_zstd_last; unsigned g_zstd_calls;
#endif
