/* Proof units for src/lib/buzhash/buzhash.c (C16: window writes in bounds, state after a reset depends
 * on the new byte only; C01: the arithmetic lemma behind the termination measure of zck_write's
 * automatic loop). */
#include "spec/verif_prelude.h"
#include "spec/ghost.h"
#include "spec/ghost_writer.h"
GHOST_DEFS
GHOST_WRITER_DEFS
#include <zck.h>
#include "zck_private.h"
#include "contracts/writer.h"
#include "src/lib/buzhash/buzhash.c"

/* specification of the rolling hash, written from the algorithm's definition (cyclic polynomial /
 * "buzhash" over a window of w bytes): H = XOR_j rol(T[c_j], w-1-j), c_0 the oldest byte.  While the
 * window is filling (fill < w) the oldest byte is window[0] and loc is 0. */
static uint32_t spec_rol(uint32_t v, unsigned s) { s %= 32; return s == 0 ? v : ((v << s) | (v >> (32 - s))); }
#define SPEC_W 48
static uint32_t spec_bz(const char *win, int loc, int fill) {
    uint32_t h = 0;
    for(int j = 0; j < SPEC_W; j++)
        if(j < fill) {
            int pos = fill < SPEC_W ? j : (loc + j) % SPEC_W;
            h ^= spec_rol(buzhash_table[(uint8_t)win[pos]], (unsigned)(SPEC_W - 1 - j));
        }
    return h;
}

typedef struct { buzHash b; char win[64]; char byte; size_t window; int win_live; } IN_bz;
V_INPUT(IN_bz)

/* ---- buzhash_update against its contract: every window size 1..64, every state ------------------ */
void h_buzhash_update(void) {
    IN_bz in = nondet_IN_bz();
    V_ASSUME(in.window >= 1 && in.window <= 64);
    buzHash *b = malloc(sizeof(*b));
    V_ASSUME(b != NULL);
    *b = in.b; b->window = NULL;
    if(in.win_live) {
        V_ASSUME(b->window_size >= 1 && b->window_size <= 64);
        b->window = malloc(b->window_size);      /* exact size: the bounds check is the guard page */
        V_ASSUME(b->window != NULL);
    }
    char *s = malloc(1);
    V_ASSUME(s != NULL);
    *s = in.byte;
    uint32_t out;
    bool r = buzhash_update(b, s, in.window, &out);
    V_COVER(r && in.win_live && in.b.window_size == (int)in.window && in.b.window_fill == in.b.window_size);   /* rolling step */
    V_COVER(r && in.win_live && in.b.window_size == (int)in.window && in.b.window_fill + 1 == in.b.window_size); /* window becomes full */
    V_COVER(r && in.win_live && in.b.window_size != (int)in.window);                                             /* width changed */
    V_COVER(r && !in.win_live); V_COVER(!r);
}

void h_buzhash_reset(void) {
    IN_bz in = nondet_IN_bz();
    buzHash *b = malloc(sizeof(*b));
    V_ASSUME(b != NULL);
    *b = in.b; b->window = NULL;
    if(in.win_live) { V_ASSUME(b->window_size >= 1 && b->window_size <= 64); b->window = malloc(b->window_size); V_ASSUME(b->window != NULL); }
    buzhash_reset(b);
    V_COVER(in.win_live); V_COVER(!in.win_live);
}

/* ---- C16: after a reset the state is rebuilt from the new byte alone (relational, real bodies) ---- */
typedef struct { buzHash b1, b2; char byte; } IN_bz2;
V_INPUT(IN_bz2)
void h_buzhash_restart(void) {
    IN_bz2 in = nondet_IN_bz2();
    buzHash b1 = in.b1, b2 = in.b2;               /* two arbitrary stale states ... */
    b1.window = NULL; b2.window = NULL;           /* ... both after buzhash_reset */
    char c = in.byte; uint32_t o1 = 0, o2 = 0;
    bool r1 = buzhash_update(&b1, &c, SPEC_W, &o1);
    bool r2 = buzhash_update(&b2, &c, SPEC_W, &o2);
    if(r1 && r2) {
        V_ASSERT(b1.h == b2.h && b1.window_fill == b2.window_fill && b1.window_loc == b2.window_loc && b1.window_size == b2.window_size && o1 == o2, "C16.buzhash_update.state_after_reset_depends_on_new_byte_only");
        V_ASSERT(b1.window[0] == c && b1.window_fill == 1 && b1.window_loc == 0 && b1.h == spec_bz(b1.window, 0, 1), "C16.buzhash_update.state_after_reset_is_the_one_byte_window");
    }
    V_COVER(r1 && r2 && in.b1.h != in.b2.h && in.b1.window_fill != in.b2.window_fill);
}

/* ---- the hash IS the specified function of the window content (inductive step, real body) -------- */
typedef struct { char win[SPEC_W]; int loc, fill; char byte; } IN_bz3;
V_INPUT(IN_bz3)
static void mk_consistent(buzHash *b, IN_bz3 *in) {
    V_ASSUME(in->fill >= 0 && in->fill <= SPEC_W && (in->fill == SPEC_W ? (in->loc >= 0 && in->loc < SPEC_W) : in->loc == 0));
    b->window = malloc(SPEC_W);
    V_ASSUME(b->window != NULL);
    memcpy(b->window, in->win, SPEC_W);
    b->window_size = SPEC_W; b->window_loc = in->loc; b->window_fill = in->fill;
    b->h = spec_bz(b->window, in->loc, in->fill);
}
void h_buzhash_rolling(void) {
    IN_bz3 in = nondet_IN_bz3();
    buzHash b; mk_consistent(&b, &in);
    char c = in.byte; uint32_t out = 0;
    bool r = buzhash_update(&b, &c, SPEC_W, &out);
    V_ASSERT(r, "C16.buzhash_update.no_allocation_between_resets");
    V_ASSERT(b.h == spec_bz(b.window, b.window_loc, b.window_fill), "C16,C01.buzhash_update.hash_is_the_specified_function_of_the_last_48_bytes");
    V_ASSERT(b.window_fill == (in.fill < SPEC_W ? in.fill + 1 : SPEC_W), "C16.buzhash_update.fill_advances");
    V_ASSERT(out == (b.window_fill < SPEC_W ? 1u : b.h), "C16.buzhash_update.output_is_the_hash_once_the_window_is_full");
    V_COVER(in.fill == SPEC_W && in.loc == 47); V_COVER(in.fill == 47); V_COVER(in.fill == 0);
}

/* ---- C01 termination lemma: from ANY consistent state, 48 updates with one byte value leave a
 * window full of that byte whose hash does not match the 15-bit boundary mask; full domain: all 256
 * byte values, all window contents, positions and fill levels ------------------------------------- */
void h_buzhash_same_byte(void) {
    IN_bz3 in = nondet_IN_bz3();
    buzHash b; mk_consistent(&b, &in);
    char c = in.byte; uint32_t out = 0; bool r = true;
    for(int k = 0; k < SPEC_W; k++)
        r = r && buzhash_update(&b, &c, SPEC_W, &out);
    V_ASSERT(r, "C01.buzhash_update.no_allocation_between_resets");
    V_ASSERT(b.window_fill == SPEC_W && out == b.h, "C01.buzhash_lemma.window_full_after_48_updates");
    V_ASSERT((out & SPEC_BZ_MASK) != 0, "C01.buzhash_lemma.window_full_of_one_byte_never_matches");
    uint32_t h48 = out;
    r = buzhash_update(&b, &c, SPEC_W, &out);
    V_ASSERT(r && out == h48, "C01.buzhash_lemma.further_updates_with_the_same_byte_keep_the_hash");
    V_COVER(in.fill == SPEC_W && in.loc == 13); V_COVER(in.fill == 5); V_COVER(in.byte == 0); V_COVER(in.byte == -1);
}


/* ---- the same lemma from the state after buzhash_reset (only the byte value is symbolic: all 256) ---- */
typedef struct { char byte; buzHash stale; } IN_bz4;
V_INPUT(IN_bz4)
void h_buzhash_same_byte_from_reset(void) {
    IN_bz4 in = nondet_IN_bz4();
    buzHash b = in.stale; b.window = NULL;
    char c = in.byte; uint32_t out = 0; bool r = true;
    for(int k = 0; k < SPEC_W; k++) {
        r = r && buzhash_update(&b, &c, SPEC_W, &out);
        if(r && k < SPEC_W - 1) V_ASSERT(out == 1, "C16.buzhash_update.no_boundary_before_window_is_full");
    }
    V_ASSUME(r);
    V_ASSERT(b.window_fill == SPEC_W && out == b.h && b.h == spec_bz(b.window, b.window_loc, SPEC_W), "C01.buzhash_lemma.window_full_after_48_updates");
    V_ASSERT((out & SPEC_BZ_MASK) != 0, "C01.buzhash_lemma.window_full_of_one_byte_never_matches");
    uint32_t h48 = out;
    r = buzhash_update(&b, &c, SPEC_W, &out);
    V_ASSERT(r && out == h48, "C01.buzhash_lemma.further_updates_with_the_same_byte_keep_the_hash");
    V_COVER(in.byte == 0); V_COVER(in.byte == -1); V_COVER(in.byte == 'a');
}


/* The same lemma with the byte CONCRETE: all 256 values in turn, each run from the reset state (constant
 * propagation does the arithmetic; no search).  Deciding unit for C01.buzhash_lemma.window_full_of_one_byte_never_matches
 * in the quick tier; the symbolic-byte version above stays in the thorough tier. */
void h_buzhash_same_byte_all256(void) {
    for(int v = 0; v < 256; v++) {
        buzHash b = {0};
        char c = (char)v; uint32_t out = 0; bool r = true;
        for(int k = 0; k < SPEC_W; k++)
            r = r && buzhash_update(&b, &c, SPEC_W, &out);
        V_ASSUME(r);
        V_ASSERT(b.window_fill == SPEC_W && out == b.h, "C01.buzhash_lemma.window_full_after_48_updates");
        V_ASSERT((out & SPEC_BZ_MASK) != 0, "C01.buzhash_lemma.window_full_of_one_byte_never_matches");
        uint32_t h48 = out;
        r = buzhash_update(&b, &c, SPEC_W, &out);
        V_ASSERT(r && out == h48, "C01.buzhash_lemma.further_updates_with_the_same_byte_keep_the_hash");
        buzhash_reset(&b);
        if(v == 255) V_COVER(r);
    }
}

#ifdef VERIF_NATIVE
#include "replay_in.h"
#endif
