/* Proof units for src/lib/comp/comp.c, reader side (C15, C02, C14, C03) */
#include "spec/verif_zck.h"
#include "spec/ghost.h"
GHOST_DEFS
#include "contracts/io.h"
#include "contracts/hash.h"
#include "contracts/hashfn.h"
#include "contracts/comp.h"
#include "extracted_zalloc.c"
#include "src/lib/comp/comp.c"

typedef struct {
    int err0, mode, ctype; int ctx_live, type_set; int use_dict; size_t fd_size;
    size_t hu_total0, hu_k, k1; int hu_seen0, hu_final0, hu_inits0;
    size_t comp_length, length; int valid0; int has_next;
    size_t data_loc0, dc_size0, dc_loc0, data_size0;
} IN_cd;
V_INPUT(IN_cd)

static zckCtx *mk_reader(IN_cd *in) {
    V_ASSUME(in->err0 >= 0 && in->err0 <= 2 && SPEC_HASH_VALID(in->ctype));
    V_ASSUME(in->hu_final0 >= 0 && in->hu_final0 < 1000 && in->hu_inits0 >= 0 && in->hu_inits0 < 1000 && in->hu_seen0 >= 0 && in->hu_seen0 < 1000);
    zckCtx *zck = calloc(1, sizeof(*zck));
    V_ASSUME(zck != NULL);
    zck->mode = in->mode; zck->error_state = in->err0;
    zck->chunk_hash_type.type = in->ctype; zck->chunk_hash_type.digest_size = SPEC_DIGEST_SIZE(in->ctype);
    zckChunk *c = calloc(1, sizeof(*c));
    V_ASSUME(c != NULL);
    c->zck = zck; c->digest_size = SPEC_DIGEST_SIZE(in->ctype);
    c->digest = malloc(c->digest_size);
    V_ASSUME(c->digest != NULL);
    c->comp_length = in->comp_length; c->length = in->length; c->valid = in->valid0;
    if(in->has_next) { c->next = calloc(1, sizeof(zckChunk)); V_ASSUME(c->next != NULL); }
    zck->index.first = c; zck->comp.data_idx = c;
    zck->comp.data_loc = in->data_loc0;
    V_ASSUME(in->dc_loc0 <= in->dc_size0 && in->dc_size0 <= 64 && in->data_size0 <= 64);
    if(in->dc_size0) { zck->comp.dc_data = malloc(in->dc_size0); V_ASSUME(zck->comp.dc_data != NULL); }
    zck->comp.dc_data_size = in->dc_size0; zck->comp.dc_data_loc = in->dc_loc0;
    if(in->data_size0) { zck->comp.data = malloc(in->data_size0); V_ASSUME(zck->comp.data != NULL); }
    zck->comp.data_size = in->data_size0;
    zck->comp.end_dchunk = verif_end_dchunk;
    if(in->ctx_live) { zck->check_chunk_hash.ctx = malloc(1); V_ASSUME(zck->check_chunk_hash.ctx != NULL); }
    if(in->type_set) zck->check_chunk_hash.type = &zck->chunk_hash_type;
    g_hu_hash = &zck->check_chunk_hash; g_hu_total = in->hu_total0; g_hu_k = in->hu_k; g_hu_seen = in->hu_seen0;
    g_hu_final = in->hu_final0; g_hu_inits = in->hu_inits0; g_k1 = in->k1;
    return zck;
}

void h_comp_end_dchunk(void) {
    IN_cd in = nondet_IN_cd();
    zckCtx *zck = mk_reader(&in);
    ssize_t r = comp_end_dchunk(zck, in.use_dict != 0, in.fd_size);
    V_COVER(r >= 1 && in.has_next); V_COVER(r >= 1 && !in.has_next); V_COVER(r < 1 && in.err0 == 0 && in.mode == ZCK_MODE_READ);
    V_COVER(r >= 1 && in.valid0 == -1);
}

#ifdef VERIF_NATIVE
#include "replay_in.h"
#endif
