/* Proof units for src/lib/comp/comp.c, reader side (C15, C02, C14, C03) */
#include "spec/verif_zck.h"
#include "spec/ghost.h"
GHOST_DEFS
#include "contracts/io.h"
#include "contracts/hash.h"
#include "contracts/hashfn.h"
#include "contracts/comp.h"
#include "extracted_zalloc.c"
#include "extracted_getters.c"
#include "extracted_hdrlen.c"
#include "src/lib/comp/comp.c"

/* ---- reader with a chunk list of up to three entries (RD_WF) ------------------------------------ */
typedef struct {
    int err0, mode, ctype, htype, fd, comp_type, started, eof0, uncomp_src;
    int n_nodes;                 /* 1..3 */
    size_t clen[3], len[3]; int valid[3];
    int cur;                     /* -1 = NULL, 0..2 */
    size_t data_loc0, data_size0, dc_size0, dc_loc0, dst_size, data_offset, lead_size, header_length; int req;
    int dst_null, use_dict, dict_set, cctx_live, cfull_live, cfull_typed, cchunk_typed, watch_full;
    size_t hu_total0, hu_k, k1; int hu_seen0, hu_final0, hu_inits0;
    g_off_t pos0[G_NFD]; size_t rd0[G_NFD]; int failed0;
} IN_rd;
V_INPUT(IN_rd)

static zckChunk *g_nodes[3];
static zckCtx *mk_reader3(IN_rd *in) {
    V_ASSUME(in->err0 >= 0 && in->err0 <= 2 && SPEC_HASH_VALID(in->ctype) && SPEC_HASH_VALID(in->htype));
    V_ASSUME(in->hu_final0 >= 0 && in->hu_final0 < 1000 && in->hu_inits0 >= 0 && in->hu_inits0 < 1000 && in->hu_seen0 >= 0 && in->hu_seen0 < 1000);
    V_ASSUME(in->n_nodes >= 1 && in->n_nodes <= 3 && in->cur >= -1 && in->cur < in->n_nodes);
#ifdef VERIF_RD_NODES
    V_ASSUME(in->n_nodes <= VERIF_RD_NODES);
#endif
    V_ASSUME(in->comp_type == ZCK_COMP_NONE || in->comp_type == ZCK_COMP_ZSTD);
    zckCtx *zck = calloc(1, sizeof(*zck));
    V_ASSUME(zck != NULL);
    zck->mode = in->mode; zck->error_state = in->err0; zck->fd = in->fd; zck->data_offset = in->data_offset; zck->lead_size = in->lead_size; zck->header_length = in->header_length;
    zck->has_uncompressed_source = in->uncomp_src;
    zck->chunk_hash_type.type = in->ctype; zck->chunk_hash_type.digest_size = SPEC_DIGEST_SIZE(in->ctype);
    zck->hash_type.type = in->htype; zck->hash_type.digest_size = SPEC_DIGEST_SIZE(in->htype);
    size_t start = 0; zckChunk *prev = NULL;
    for(int i = 0; i < 3; i++) {
        g_nodes[i] = NULL;
        if(i < in->n_nodes) {
            zckChunk *c = calloc(1, sizeof(*c));
            V_ASSUME(c != NULL);
            c->zck = zck; c->digest_size = SPEC_DIGEST_SIZE(in->ctype);
            c->digest = malloc(c->digest_size);
            V_ASSUME(c->digest != NULL);
            c->comp_length = in->clen[i]; c->length = in->len[i]; c->valid = in->valid[i]; c->start = start; c->number = i;
            start += in->clen[i];
            if(prev) prev->next = c; else zck->index.first = c;
            prev = c; g_nodes[i] = c;
        }
    }
    zck->index.last = prev; zck->index.count = in->n_nodes;
    g_n1 = g_nodes[0]; g_n2 = g_nodes[1]; g_n3 = g_nodes[2];
    zck->comp.data_idx = in->cur < 0 ? NULL : g_nodes[in->cur];
    zck->comp.type = in->comp_type; zck->comp.started = in->started; zck->comp.data_eof = in->eof0;
    zck->comp.data_loc = in->data_loc0;
    V_ASSUME(in->dc_loc0 <= in->dc_size0 && in->dc_size0 <= 64 && in->data_size0 <= 64);
    if(in->dc_size0) { zck->comp.dc_data = malloc(in->dc_size0); V_ASSUME(zck->comp.dc_data != NULL); }
    zck->comp.dc_data_size = in->dc_size0; zck->comp.dc_data_loc = in->dc_loc0;
    if(in->data_size0) { zck->comp.data = malloc(in->data_size0); V_ASSUME(zck->comp.data != NULL); }
    zck->comp.data_size = in->data_size0;
    if(in->dict_set) { zck->comp.dict = malloc(1); V_ASSUME(zck->comp.dict != NULL); zck->comp.dict_size = 1; }
    zck->comp.end_dchunk = verif_end_dchunk; zck->comp.decompress = verif_decompress; zck->comp.init = verif_cinit; zck->comp.close = verif_cclose;
    if(in->cctx_live) { zck->check_chunk_hash.ctx = malloc(1); V_ASSUME(zck->check_chunk_hash.ctx != NULL); }
    if(in->cchunk_typed) zck->check_chunk_hash.type = &zck->chunk_hash_type;
    if(in->cfull_live) { zck->check_full_hash.ctx = malloc(1); V_ASSUME(zck->check_full_hash.ctx != NULL); }
    if(in->cfull_typed) zck->check_full_hash.type = &zck->hash_type;
    g_hu_hash = in->watch_full ? &zck->check_full_hash : &zck->check_chunk_hash;
    g_hu_total = in->hu_total0; g_hu_k = in->hu_k; g_hu_seen = in->hu_seen0;
    g_hu_final = in->hu_final0; g_hu_inits = in->hu_inits0; g_k1 = in->k1;
    for(int i = 0; i < G_NFD; i++) { g_fpos[i] = in->pos0[i]; g_rd_bytes[i] = in->rd0[i]; }
    V_ASSUME(in->failed0 == 0 || in->failed0 == 1);
    g_io_failed = in->failed0;
    return zck;
}

void h_comp_end_dchunk(void) {
    IN_rd in = nondet_IN_rd();
    zckCtx *zck = mk_reader3(&in);
    V_ASSUME(in.cur >= 0);
    ssize_t r = comp_end_dchunk(zck, in.use_dict != 0, in.dst_size);
    V_COVER(r >= 1 && in.cur + 1 < in.n_nodes); V_COVER(r >= 1 && in.cur + 1 == in.n_nodes); V_COVER(r < 1 && in.err0 == 0 && in.mode == ZCK_MODE_READ);
    V_COVER(r >= 1 && in.valid[in.cur] == -1 && in.comp_type == ZCK_COMP_ZSTD); V_COVER(r >= 1 && in.comp_type == ZCK_COMP_NONE);
}

void h_comp_read(void) {
    IN_rd in = nondet_IN_rd();
    zckCtx *zck = mk_reader3(&in);
    V_ASSUME(in.dst_size <= 64);
    char *dst = in.dst_null ? NULL : malloc(in.dst_size);
    V_ASSUME(in.dst_null || dst != NULL);
    ssize_t r = comp_read(zck, dst, in.dst_size, in.use_dict != 0);
    V_COVER(r > 0 && (size_t)r == in.dst_size && in.cur == -1);                  /* full buffer, started from a fresh reader */
    V_COVER(r > 0 && (size_t)r < in.dst_size && zck->comp.data_eof);             /* short read at end of data */
    V_COVER(r == 0 && in.dst_size > 0);
    V_COVER(r == -1 && in.err0 == 0 && in.mode == ZCK_MODE_READ && in.started);  /* failure arising inside the loop */
    V_COVER(r > 0 && in.cur == 0 && zck->comp.data_idx == g_nodes[1] && in.comp_type == ZCK_COMP_ZSTD);   /* crossed a chunk boundary (zstd) */
    V_COVER(r > 0 && in.cur == 1 && zck->comp.data_idx == g_nodes[2] && in.comp_type == ZCK_COMP_NONE);   /* crossed a chunk boundary (nocomp) */
    V_COVER(r > 0 && in.watch_full && g_rd_bytes[G_IX(in.fd)] > in.rd0[G_IX(in.fd)]);
}


/* ---- leaf helpers of the reader: decoded-side and stored-side buffers ------------------------------ */
typedef struct { zckCtx any; size_t dc_size0, dc_loc0, data_size0, n; int src_null, dst_null; unsigned char fill[32]; } IN_leaf;
V_INPUT(IN_leaf)
static zckCtx *mk_leaf(IN_leaf *in) {
    zckCtx *zck = malloc(sizeof(*zck));
    V_ASSUME(zck != NULL);
    *zck = in->any;
    V_ASSUME(zck->error_state >= 0 && zck->error_state <= 2);
    V_ASSUME(in->dc_loc0 <= in->dc_size0 && in->dc_size0 <= 32 && in->data_size0 <= 32 && in->n <= 32);
    zck->comp.dc_data = NULL; zck->comp.data = NULL;
    if(in->dc_size0) { zck->comp.dc_data = malloc(in->dc_size0); V_ASSUME(zck->comp.dc_data != NULL); }
    zck->comp.dc_data_size = in->dc_size0; zck->comp.dc_data_loc = in->dc_loc0;
    if(in->data_size0) { zck->comp.data = malloc(in->data_size0); V_ASSUME(zck->comp.data != NULL); }
    zck->comp.data_size = in->data_size0;
    return zck;
}

void h_comp_add_to_dc(void) {
    IN_leaf in = nondet_IN_leaf();
    zckCtx *zck = mk_leaf(&in);
    char *src = in.src_null ? NULL : malloc(in.n);
    V_ASSUME(in.src_null || src != NULL);
    /* ghost indices: one unread decoded byte and one appended byte must be found again */
    size_t unread = in.dc_size0 - in.dc_loc0;
    char old_unread = (g_k1 < unread) ? zck->comp.dc_data[in.dc_loc0 + g_k1] : 0;
    char new_byte = (!in.src_null && g_k2 < in.n) ? src[g_k2] : 0;
    bool r = comp_add_to_dc(zck, &zck->comp, src, in.n);
    V_ASSERT(!r || !(g_k1 < unread) || zck->comp.dc_data[g_k1] == old_unread, "C02,C01.comp_add_to_dc.keeps_every_unread_byte_in_order");
    V_ASSERT(!r || !(g_k2 < in.n) || zck->comp.dc_data[unread + g_k2] == new_byte, "C02,C01.comp_add_to_dc.appends_every_new_byte_in_order");
    V_COVER(r && unread > 0 && in.n > 0); V_COVER(!r && zck->error_state > 0); V_COVER(r && in.n == 0);
}

void h_comp_read_from_dc(void) {
    IN_leaf in = nondet_IN_leaf();
    zckCtx *zck = mk_leaf(&in);
    char *dst = in.dst_null ? NULL : malloc(in.n);
    V_ASSUME(in.dst_null || dst != NULL);
    size_t unread = in.dc_size0 - in.dc_loc0;
    char expect = (g_k1 < unread) ? zck->comp.dc_data[in.dc_loc0 + g_k1] : 0;
    size_t r = comp_read_from_dc(zck, &zck->comp, dst, in.n);
    V_ASSERT(r == (size_t)-1 || !(g_k1 < r) || dst[g_k1] == expect, "C02,C14.comp_read_from_dc.hands_out_the_buffered_bytes_in_order");
    V_COVER(r != (size_t)-1 && r > 0 && r < in.n); V_COVER(r == in.n && in.n > 0); V_COVER(r == (size_t)-1); V_COVER(r == 0 && in.n > 0);
}

void h_comp_add_to_data(void) {
    IN_leaf in = nondet_IN_leaf();
    zckCtx *zck = mk_leaf(&in);
    char *src = in.src_null ? NULL : malloc(in.n);
    V_ASSUME(in.src_null || src != NULL);
    char old_b = (g_k1 < in.data_size0) ? zck->comp.data[g_k1] : 0;
    char new_b = (!in.src_null && g_k2 < in.n) ? src[g_k2] : 0;
    bool r = comp_add_to_data(zck, &zck->comp, src, in.n);
    V_ASSERT(!r || !(g_k1 < in.data_size0) || zck->comp.data[g_k1] == old_b, "C02.comp_add_to_data.keeps_every_buffered_byte");
    V_ASSERT(!r || !(g_k2 < in.n) || zck->comp.data[in.data_size0 + g_k2] == new_b, "C02.comp_add_to_data.appends_every_new_byte_in_order");
    V_COVER(r && in.data_size0 > 0 && in.n > 0); V_COVER(!r);
}

/* ---- option setter: chunk size bounds (C01/C16: the writer units assume OPT_WF of their pre-state) ---------- */
typedef struct { zckCtx any; int which; ssize_t value; } IN_opt;
V_INPUT(IN_opt)
void h_comp_ioption_bounds(void) {
    IN_opt in = nondet_IN_opt();
    zckCtx *zck = malloc(sizeof(*zck));
    V_ASSUME(zck != NULL);
    *zck = in.any;
    V_ASSUME(zck->error_state >= 0 && zck->error_state <= 2);
    zck_ioption opt = in.which ? ZCK_CHUNK_MIN : ZCK_CHUNK_MAX;
    int wf0 = OPT_WF(zck);
    bool r = comp_ioption(zck, opt, in.value);
    V_ASSERT(!wf0 || OPT_WF(zck), "C01,C16.comp_ioption.minimum_never_set_above_the_maximum_in_force");
    V_COVER(r && in.which && wf0); V_COVER(r && !in.which && wf0); V_COVER(!r && zck->error_state > 0 && in.which);
}

/* ---- control-only unit of comp_read (-DVERIF_CTL): arbitrary context, arbitrary index list ------------
 * No list shape, no buffer well-formedness: the context and the (up to two distinct) chunk records the
 * function can reach before a callee moves the cursor are fully nondeterministic.  Proves the control and
 * ghost-accounting clauses for every list length; memory safety is the companion unit comp_read. */
typedef struct { zckCtx any; zckChunk c1, c2; int first_null, has2, cur, use_dict, watch_full, dst_null, cfull_typed, cchunk_typed;
                 size_t dst_size; size_t hu_total0, hu_k, k1; unsigned hu_seen0, hu_final0, hu_inits0;
                 g_off_t pos0[G_NFD]; size_t rd0[G_NFD]; int failed0; } IN_rdc;
V_INPUT(IN_rdc)

void h_comp_read_ctl(void) {
    IN_rdc in = nondet_IN_rdc();
    zckCtx *zck = malloc(sizeof(*zck));
    V_ASSUME(zck != NULL);
    *zck = in.any;
    zckChunk *n1 = malloc(sizeof(*n1)), *n2 = malloc(sizeof(*n2));
    V_ASSUME(n1 != NULL && n2 != NULL);
    *n1 = in.c1; *n2 = in.c2;
    n1->next = in.has2 ? n2 : NULL;
    if(in.has2 > 1) n2->next = n1;        /* not even acyclicity is assumed */
    zck->index.first = n1;
    zck->comp.data_idx = in.cur == 0 ? NULL : in.cur == 1 ? n1 : n2;
    g_n1 = g_n2 = g_n3 = NULL;            /* control-only: no named list */
    zck->comp.end_dchunk = verif_end_dchunk; zck->comp.decompress = verif_decompress; zck->comp.init = verif_cinit; zck->comp.close = verif_cclose;
    V_ASSUME(zck->error_state >= 0 && zck->error_state <= 2);   /* the only values the library ever stores */
    V_ASSUME(zck->comp.type == ZCK_COMP_NONE || zck->comp.type == ZCK_COMP_ZSTD);
    zck->check_chunk_hash.type = in.cchunk_typed ? &zck->chunk_hash_type : NULL;
    zck->check_full_hash.type = in.cfull_typed ? &zck->hash_type : NULL;
    g_hu_hash = in.watch_full ? &zck->check_full_hash : &zck->check_chunk_hash;
    g_hu_total = in.hu_total0; g_hu_k = in.hu_k; g_hu_seen = in.hu_seen0;
    g_hu_final = in.hu_final0; g_hu_inits = in.hu_inits0; g_k1 = in.k1;
    V_ASSUME(in.hu_final0 < 1000 && in.hu_inits0 < 1000 && in.hu_seen0 < 1000);
    for(int i = 0; i < G_NFD; i++) { g_fpos[i] = in.pos0[i]; g_rd_bytes[i] = in.rd0[i]; }
    V_ASSUME(in.failed0 == 0 || in.failed0 == 1);
    g_io_failed = in.failed0;
    V_ASSUME(in.dst_size <= 64);
    char *dst = malloc(in.dst_size);
    V_ASSUME(dst != NULL);
    V_ASSUME(in.cur != 0 || zck->comp.data_loc == 0);
    int err0 = zck->error_state;
    ssize_t r = comp_read(zck, dst, in.dst_size, in.use_dict != 0);
    V_ASSERT(r < 0 || (err0 == 0 && zck->error_state == 0), "C15,C02,C12.comp_read.no_success_once_an_error_arose");
    V_COVER(r > 0 && (size_t)r == in.dst_size); V_COVER(r > 0 && (size_t)r < in.dst_size); V_COVER(r == 0 && in.dst_size > 0);
    V_COVER(r == -1 && err0 == 0 && zck->mode == ZCK_MODE_READ && zck->comp.started);
    V_COVER(r > 0 && in.watch_full && g_rd_bytes[G_IX(zck->fd)] > in.rd0[G_IX(zck->fd)]);
    V_COVER(r > 0 && in.cur == 1 && zck->comp.data_idx != n1);     /* crossed a chunk boundary */
}

/* ---- control-only unit of zck_get_chunk_data (C14): ANY decoder state left by ANY request history, any list;
 * the canonical-state requirement of comp_read (compiled in by -DVERIF_CANON) is checked at the call site */
void h_zck_get_chunk_data_ctl(void) {
    IN_rdc in = nondet_IN_rdc();
    zckCtx *zck = malloc(sizeof(*zck));
    V_ASSUME(zck != NULL);
    *zck = in.any;
    zckChunk *n1 = malloc(sizeof(*n1)), *n2 = malloc(sizeof(*n2));
    V_ASSUME(n1 != NULL && n2 != NULL);
    *n1 = in.c1; *n2 = in.c2;
    n1->next = in.has2 ? n2 : NULL; n1->zck = zck; n2->zck = zck;
    zck->index.first = in.first_null ? NULL : n1;
    zckChunk *req = in.cur == 1 ? n1 : n2;                      /* the requested chunk: the dictionary entry or another one */
    zck->comp.data_idx = in.use_dict == 0 ? NULL : in.use_dict == 1 ? n1 : n2;   /* wherever an earlier request stopped */
    g_n1 = g_n2 = g_n3 = NULL; g_canon_idx = req; g_canon_on = 1;
    zck->comp.end_dchunk = verif_end_dchunk; zck->comp.decompress = verif_decompress; zck->comp.init = verif_cinit; zck->comp.close = verif_cclose;
    V_ASSUME(zck->comp.type == ZCK_COMP_NONE || zck->comp.type == ZCK_COMP_ZSTD);
    V_ASSUME(zck->error_state >= 0 && zck->error_state <= 2);
    zck->check_chunk_hash.type = in.cchunk_typed ? &zck->chunk_hash_type : NULL;
    zck->check_full_hash.type = in.cfull_typed ? &zck->hash_type : NULL;
    /* buffers an earlier request may have left behind (freed by the reset path) */
    zck->comp.data = NULL; zck->comp.dc_data = NULL; zck->comp.dict = NULL; zck->check_chunk_hash.ctx = NULL;
    if(in.dst_null & 2) { zck->comp.data = malloc(4); V_ASSUME(zck->comp.data != NULL); }
    if(in.dst_null & 4) { zck->comp.dc_data = malloc(4); V_ASSUME(zck->comp.dc_data != NULL); }
    if(in.dst_null & 8) { zck->comp.dict = malloc(4); V_ASSUME(zck->comp.dict != NULL); }
    if(in.dst_null & 16) { zck->check_chunk_hash.ctx = malloc(1); V_ASSUME(zck->check_chunk_hash.ctx != NULL); }
    g_hu_hash = &zck->check_chunk_hash;
    g_hu_total = in.hu_total0; g_hu_k = in.hu_k; g_hu_seen = in.hu_seen0;
    g_hu_final = in.hu_final0; g_hu_inits = in.hu_inits0; g_k1 = in.k1;
    V_ASSUME(in.hu_final0 < 1000 && in.hu_inits0 < 1000 && in.hu_seen0 < 1000);
    for(int i = 0; i < G_NFD; i++) { g_fpos[i] = in.pos0[i]; g_rd_bytes[i] = in.rd0[i]; }
    V_ASSUME(in.failed0 == 0 || in.failed0 == 1);
    g_io_failed = in.failed0;
    V_ASSUME(in.dst_size <= 64);
    char *dst = (in.dst_null & 1) ? NULL : malloc(in.dst_size);
    V_ASSUME((in.dst_null & 1) || dst != NULL);
    int err0 = zck->error_state, eof0 = zck->comp.data_eof; size_t loc0 = zck->comp.data_loc;
    ssize_t r = zck_get_chunk_data(req, dst, in.dst_size);
    V_ASSERT(r < 0 || (size_t)r <= req->length, "C14.zck_get_chunk_data.at_most_the_declared_size");
    V_COVER(r > 0 && eof0);                                   /* request after the end of data had been reached */
    V_COVER(r > 0 && loc0 > 0 && in.use_dict == 2 && in.cur == 1);     /* request after a partially read other chunk */
    V_COVER(r > 0 && (in.dst_null & 8) == 0);                 /* dictionary loaded on demand */
    V_COVER(r == 0); V_COVER(r < 0 && err0 == 0 && zck->mode == ZCK_MODE_READ);
}

void h_zck_get_chunk_data(void) {
    IN_rd in = nondet_IN_rd();
    zckCtx *zck = mk_reader3(&in);
    V_ASSUME(in.dst_size <= 64 && in.req >= 0 && in.req < in.n_nodes && !in.watch_full);
    char *dst = in.dst_null ? NULL : malloc(in.dst_size);
    V_ASSUME(in.dst_null || dst != NULL);
    g_canon_on = 1; g_canon_idx = g_nodes[in.req];
    ssize_t r = zck_get_chunk_data(g_nodes[in.req], dst, in.dst_size);
    V_COVER(r > 0 && in.eof0 && in.req == 1);                    /* request after the end of data had been reached */
    V_COVER(r > 0 && in.cur == 2 && in.data_loc0 > 0 && in.data_size0 == 0 && in.req == 1);   /* request after a partially read chunk */
    V_COVER(r > 0 && in.req == 0); V_COVER(r == 0 && in.len[in.req] == 0); V_COVER(r < 0 && in.err0 == 0 && in.mode == ZCK_MODE_READ);
    V_COVER(r > 0 && !in.dict_set && in.len[0] > 0);             /* dictionary loaded on demand */
}

void h_zck_get_chunk_comp_data(void) {
    IN_rd in = nondet_IN_rd();
    zckCtx *zck = mk_reader3(&in);
    V_ASSUME(in.dst_size <= 64 && in.req >= 0 && in.req < in.n_nodes);
    char *dst = in.dst_null ? NULL : malloc(in.dst_size);
    V_ASSUME(in.dst_null || dst != NULL);
    ssize_t r = zck_get_chunk_comp_data(g_nodes[in.req], dst, in.dst_size);
    V_COVER(r > 0 && (size_t)r == in.clen[in.req] && in.dst_size > in.clen[in.req]); V_COVER(r > 0 && (size_t)r == in.dst_size && in.dst_size < in.clen[in.req]);
    V_COVER(r == 0); V_COVER(r < 0 && in.err0 == 0);
}

#ifdef VERIF_NATIVE
#include "replay_in.h"
#endif
