/* Proof units for src/lib/compint.c (property C20; the contracts proved here are the ones every
 * header parser unit relies on for C03/C13). */
#include "spec/verif_zck.h"
#include "contracts/compint.h"
#include "src/lib/compint.c"   /* the real file: -I<scratch with loop-patched copies> -I/repo */

#define CI_BUF 24
typedef struct {
    unsigned char b[CI_BUF];
    size_t off, max;      /* cursor and total length as the parsers pass them */
    size_t val0; int ival0;
    int zck_null, err0;
} IN_dec;
V_INPUT(IN_dec)

static zckCtx *mk_zck(int null, int err) {
    if(null) return NULL;
    zckCtx *z = calloc(1, sizeof(*z));
    V_ASSUME(z != NULL);
    z->error_state = err;
    return z;
}

/* --- compint_to_size ------------------------------------------------------------------ */
void h_compint_to_size(void) {
    IN_dec in = nondet_IN_dec();
    V_ASSUME(in.max <= CI_BUF);   /* the cursor may lie beyond the limit (in.off > in.max): nothing may be read then */
    V_ASSUME(in.err0 >= 0 && in.err0 <= 2 && !in.zck_null);
    size_t avail = in.off <= in.max ? in.max - in.off : 0;
    /* exact-size object: CBMC's bounds check (ASan natively) is the guard page */
    unsigned char *buf = malloc(avail);
    V_ASSUME(buf != NULL);
    memcpy(buf, in.b, avail);
    zckCtx *zck = mk_zck(in.zck_null, in.err0);
    size_t val = in.val0, len = in.off;
    int r = compint_to_size(zck, &val, (const char *)buf, &len, in.max);
    size_t n = SPEC_CI_LEN(buf, avail);
    bool valid = (!in.zck_null && in.err0 == 0) && n >= 1 && SPEC_CI_FITS64(buf, n);
    V_ASSERT(r == 0 || r == 1, "C20.to_size.ret01");
    V_ASSERT((r == 1) == valid, "C20,C13.to_size.accept_iff_valid");
    V_ASSERT(r != 1 || val == (size_t)SPEC_CI_VAL(buf, n), "C20,C13.to_size.value");
    V_ASSERT(r != 1 || len == in.off + n, "C20,C13.to_size.length");
    V_COVER(r == 1 && n == 10);
    V_COVER(r == 1 && n == 1);
    V_COVER(r == 0 && n == 0 && avail >= 10);
    V_COVER(r == 0 && n == 10);
    V_COVER(r == 0 && avail == 0);
    V_COVER(r == 0 && in.off > in.max);
}

/* --- compint_to_int ------------------------------------------------------------------- */
void h_compint_to_int(void) {
    IN_dec in = nondet_IN_dec();
    V_ASSUME(in.max <= CI_BUF);   /* the cursor may lie beyond the limit (in.off > in.max): nothing may be read then */
    V_ASSUME(in.err0 >= 0 && in.err0 <= 2 && !in.zck_null);
    size_t avail = in.off <= in.max ? in.max - in.off : 0;
    unsigned char *buf = malloc(avail);
    V_ASSUME(buf != NULL);
    memcpy(buf, in.b, avail);
    zckCtx *zck = mk_zck(in.zck_null, in.err0);
    int val = in.ival0; size_t len = in.off;
    int r = compint_to_int(zck, &val, (const char *)buf, &len, in.max);
    size_t n = SPEC_CI_LEN(buf, avail);
    bool valid = (!in.zck_null && in.err0 == 0) && n >= 1 && SPEC_CI_FITSINT(buf, n);
    V_ASSERT(r == 0 || r == 1, "C20.to_int.ret01");
    V_ASSERT((r == 1) == valid, "C20,C13.to_int.accept_iff_fits_int");
    V_ASSERT(r != 1 || (val >= 0 && (v_u128)val == SPEC_CI_VAL(buf, n)), "C20,C13.to_int.value");
    V_ASSERT(r != 1 || len == in.off + n, "C20,C13.to_int.length");
    V_COVER(r == 1 && n == 5);
    V_COVER(r == 0 && n == 5);
    V_COVER(r == 0 && n == 0);
}

/* --- encoder -------------------------------------------------------------------------- */
typedef struct { size_t v; int iv; size_t len0; int zck_null, err0; } IN_enc;
V_INPUT(IN_enc)

void h_compint_from_size(void) {
    IN_enc in = nondet_IN_enc();
    char *out = malloc(MAX_COMP_SIZE);
    V_ASSUME(out != NULL);
    size_t len = in.len0;
    compint_from_size(out, in.v, &len);
    size_t n = SPEC_CI_ENCLEN(in.v);
    V_ASSERT(len == in.len0 + n, "C20.from_size.length");
    V_ASSERT(SPEC_CI_LEN(out, MAX_COMP_SIZE) == n, "C20.from_size.terminated_at_n");
    V_ASSERT(SPEC_CI_VAL(out, n) == (v_u128)in.v, "C20.from_size.value");
    V_COVER(n == 10); V_COVER(n == 1);
}

void h_compint_from_int(void) {
    IN_enc in = nondet_IN_enc();
    V_ASSUME(in.err0 >= 0 && in.err0 <= 2 && !in.zck_null);
    char *out = malloc(MAX_COMP_SIZE);
    V_ASSUME(out != NULL);
    zckCtx *zck = mk_zck(in.zck_null, in.err0);
    size_t len = in.len0;
    int r = compint_from_int(zck, out, in.iv, &len);
    size_t n = SPEC_CI_ENCLEN(in.iv);
    V_ASSERT((r == 1) == ((!in.zck_null && in.err0 == 0) && in.iv >= 0), "C20.from_int.accept_iff_nonneg");
    V_ASSERT(r != 1 || (len == in.len0 + n && SPEC_CI_LEN(out, MAX_COMP_SIZE) == n &&
                        SPEC_CI_VAL(out, n) == (v_u128)in.iv), "C20.from_int.encoding");
    V_COVER(r == 1); V_COVER(r == 0);
}

/* --- round-trip lemma over the two contracts + the real code --------------------------- */
/* decode(encode(v)) == v, consumes exactly the bytes produced, for all 2^64 v.  Both real
 * functions are called (not replaced): this is a full-domain, loop-complete check. */
void h_compint_roundtrip(void) {
    IN_enc in = nondet_IN_enc();
    char *out = malloc(MAX_COMP_SIZE);
    V_ASSUME(out != NULL);
    size_t wlen = 0;
    compint_from_size(out, in.v, &wlen);
    V_ASSERT(wlen >= 1 && wlen <= 10, "C20.roundtrip.at_most_ten");
    /* hand the decoder exactly the bytes produced */
    char *exact = malloc(wlen);
    V_ASSUME(exact != NULL);
    memcpy(exact, out, wlen);
    zckCtx *zck = mk_zck(0, 0);
    size_t val = 0, rlen = 0;
    int r = compint_to_size(zck, &val, exact, &rlen, wlen);
    V_ASSERT(r == 1, "C20.roundtrip.decodes");
    V_ASSERT(val == in.v, "C20.roundtrip.same_value");
    V_ASSERT(rlen == wlen, "C20.roundtrip.consumes_exactly");
    V_COVER(wlen == 10); V_COVER(wlen == 1);
}

#ifdef VERIF_NATIVE
#include "replay_in.h"   /* generated by the driver from the CBMC trace: nondet_<T>() definitions */
#endif
