/* C04 -- BOUNDED COMPOSITION LEMMA (model_checking level, plain CBMC, nothing more):
 * one round of the delta-update procedure "ask for what is missing, feed the answer" composed from the
 * REAL bodies of zck_get_missing_range (+ range_add / range_insert_new / range_merge_combined /
 * index_new_chunk / finish_chunk, src/lib/dl/range.c, src/lib/index/index_create.c), zck_dl_init,
 * zck_dl_set_range, dl_write_range, dl_write, set_chunk_valid, zero_chunk (src/lib/dl/dl.c) and
 * zck_missing_chunks (src/lib/index/index_read.c) on a chunk table of at most VERIF_N entries with
 * symbolic stored sizes (1..C4_SZ bytes, or 0..C4_SZ with -DVERIF_C04_EMPTY) and a symbolic validity vector.
 * I/O and hashing are small stub BODIES (a ghost file that logs every byte written with its offset; a
 * running "checksum" that records the bytes fed since hash_init), and the SERVER IS FAITHFUL: it answers the
 * requested ranges, in order, with the bytes file B has at exactly those offsets; validate_chunk accepts a
 * chunk iff the bytes fed since hash_init are exactly the stored bytes of that chunk in B.
 * mk_target / check_request (the C10 oracle) are those of units/range_b.c. */
#define VERIF_RANGE_B_NO_HARNESS 1
#include "units/range_b.c"
#include "extracted_missing_chunks.c"

#ifndef C4_SZ
#define C4_SZ 3
#endif
#ifndef C4_HDR_MAX
#define C4_HDR_MAX 255
#endif
#define C4_PAY (VERIF_N * C4_SZ)      /* longest possible payload */
#define C4_LOG (C4_PAY + C4_SZ + 2)   /* write log capacity: payload + one zero-fill + slack */

/* ---- ghost file / checksum model (stub BODIES, no contracts) -------------------------------------- */
static size_t m_pos;                       /* position of the target descriptor */
static int    m_fd;                        /* the target descriptor */
static size_t m_woff[C4_LOG]; static char m_wval[C4_LOG]; static unsigned m_nw;   /* every byte written, in order */
static unsigned m_seeks, m_inits, m_verdicts;
static char   m_h[C4_SZ + 1]; static size_t m_fed;   /* bytes fed to the running chunk checksum since hash_init */
static unsigned char m_B[VERIF_N][C4_SZ];  /* stored bytes of the chunks of file B (what the server holds) */
static int m_model_overflow;

int seek_data(zckCtx *zck, off_t offset, int whence) {
    VALIDATE_INT(zck);
    V_ASSERT(whence == SEEK_SET, "C04.model.seek_is_absolute");
    m_pos = (size_t)offset; m_seeks++;
    return true;
}
ssize_t tell_data(zckCtx *zck) { return (ssize_t)m_pos; }
int write_data(zckCtx *zck, int fd, const char *data, size_t length) {
    VALIDATE_INT(zck);
    if(length == 0)
        return true;
    if(data == NULL) { set_error(zck, "Unable to write from NULL data pointer"); return false; }
    V_ASSERT(fd == m_fd, "C04.write_data.only_the_target_descriptor_is_written");
    V_ASSERT(length <= C4_SZ, "C04.model.write_length_within_model_bound");
    for(int j = 0; j < C4_SZ; j++)
        if((size_t)j < length) {
            if(m_nw < C4_LOG) { m_woff[m_nw] = m_pos + j; m_wval[m_nw] = data[j]; m_nw++; } else m_model_overflow = 1;
        }
    m_pos += length;
    return true;
}
bool hash_init(zckCtx *zck, zckHash *hash, zckHashType *hash_type) {
    if(hash == NULL || hash_type == NULL) { set_error(zck, "Either zckHash or zckHashType struct is null"); return false; }
    V_ASSERT(hash == &zck->check_chunk_hash, "C04.model.only_the_running_chunk_checksum_is_used");
    hash->type = hash_type;
    m_fed = 0; m_inits++;
    return true;
}
bool hash_update(zckCtx *zck, zckHash *hash, const char *message, const size_t size) {
    if(message == NULL && size == 0) return true;
    if(message == NULL || size == 0) { set_error(zck, "hash_update: inconsistent message/size"); return false; }
    V_ASSERT(hash == &zck->check_chunk_hash, "C04.model.only_the_running_chunk_checksum_is_used");
    for(int j = 0; j < C4_SZ; j++)
        if((size_t)j < size && m_fed + j < C4_SZ + 1) m_h[m_fed + j] = message[j];
    m_fed += size;
    return true;
}
/* faithful-server checksum: the verdict is 1 iff exactly the stored bytes of that chunk of B were fed since
 * hash_init (a collision-free checksum over B's content); sets the flag like the real validate_chunk */
int validate_chunk(zckChunk *idx, zck_log_type bad_checksum) {
    if(idx == NULL || idx->zck == NULL) return -1;
    VALIDATE_INT(idx->zck);
    int ok = m_fed == idx->comp_length, which = -1;
    for(int i = 0; i < VERIF_N; i++) if(idx == &b_chunks[i]) which = i;
    V_ASSERT(which >= 0, "C04.validate_chunk.asked_about_a_chunk_of_the_target_index");
    if(which < 0) return -1;
    for(int j = 0; j < C4_SZ; j++)
        if((size_t)j < idx->comp_length && ok && (unsigned char)m_h[j] != m_B[which][j]) ok = 0;
    m_verdicts++;
    idx->valid = ok ? 1 : -1;
    return ok ? 1 : -1;
}

#include "src/lib/dl/dl.c"

typedef struct {
    IN_mr mr;
    unsigned char B[VERIF_N][C4_SZ];
    char dg[VERIF_N][2];
    size_t cut, bad; unsigned char flip; int use_wcb;
} IN_c4;
V_INPUT(IN_c4)

/* byte of file B at absolute offset off (only defined inside chunk extents) */
static unsigned char B_at(IN_mr *in, size_t off) {
    unsigned char v = 0;
    for(int i = 0; i < VERIF_N; i++)
        if(i < in->nc && IN_EXTENT(in, i, off)) v = m_B[i][off - (HDR(in) + b_chunks[i].start)];
    return v;
}

static unsigned m_ucb;
static size_t c4_user_wcb(void *p, size_t l, size_t c, void *d) { m_ucb++; return l * c; }

/* C05, bounded: what an unfaithful response (one payload byte wrong) leads to */
static void c5_after_corrupt(IN_mr *in, zckCtx *zck, bool req[VERIF_N], int valid0[VERIF_N], int bad, int fed_ok) {
    V_ASSERT(!fed_ok, "C05.zck_write_chunk_cb.a_checksum_mismatch_is_reported_by_the_callback");
    if(bad < 0) return;
    V_ASSERT(b_chunks[bad].valid == -1, "C05.set_chunk_valid.mismatch_means_marked_failed");
    for(int i = 0; i < VERIF_N; i++)
        if(i < in->nc && i != bad) {
            if(!req[i]) V_ASSERT(b_chunks[i].valid == valid0[i], "C05.compose.no_other_validity_flag_changed");
            else V_ASSERT(b_chunks[i].valid == (i < bad ? 1 : 0), "C05.compose.chunks_before_the_bad_one_are_valid_later_ones_untouched");
        }
    V_ASSERT(!m_model_overflow, "C04.model.write_log_within_model_bound");
    bool b_in_bad = IN_EXTENT(in, bad, in->b); int last = -1;
    for(unsigned k = 0; k < C4_LOG; k++)
        if(k < m_nw) {
            bool inreq = false, inother = false;
            for(int i = 0; i < VERIF_N; i++) if(i < in->nc && IN_EXTENT(in, i, m_woff[k])) { if(req[i]) inreq = true; else inother = true; }
            V_ASSERT(inreq, "C05.compose.no_byte_outside_the_extents_of_the_requested_chunks_is_written");
            V_ASSERT(!inother, "C05.compose.chunks_not_requested_are_not_written");
            V_ASSERT(m_woff[k] >= HDR(in), "C05.compose.the_header_is_not_written");
            if(m_woff[k] == in->b) last = (int)k;
        }
    V_ASSERT(!b_in_bad || (last >= 0 && m_wval[last] == 0), "C05.set_chunk_valid.mismatch_means_zero_filled");
}

void h_c04_compose(void) {
    IN_c4 inn = nondet_IN_c4();
    IN_mr *in = &inn.mr;
    zckCtx *zck = mk_target(in);
    V_ASSUME(in->anyz.error_state == 0);
    V_ASSUME(in->lead_size <= C4_HDR_MAX && in->header_length <= C4_HDR_MAX);   /* bound: small header (keeps the 64-bit offset arithmetic cheap) */
    int missing0 = 0, valid0[VERIF_N];
    for(int i = 0; i < VERIF_N; i++) {
        valid0[i] = 0;
        if(i < in->nc) {
#ifdef VERIF_C04_EMPTY
            V_ASSUME(in->clen[i] <= C4_SZ);
#else
            V_ASSUME(in->clen[i] >= 1 && in->clen[i] <= C4_SZ);
#endif
            for(int j = 0; j < 2; j++) { b_digest[i][j] = inn.dg[i][j]; }
            for(int j = 0; j < C4_SZ; j++) m_B[i][j] = inn.B[i][j];
            valid0[i] = in->valid[i];
            if(in->valid[i] == 0) missing0++;
        }
    }
    /* header.c: data_offset = lead_size + header_length (established when the header was read) */
    zck->data_offset = HDR(in);
    zck->mode = ZCK_MODE_READ;
    zck->chunk_hash_type.digest_size = in->dsize;
    zck->check_chunk_hash.ctx = NULL; zck->check_chunk_hash.type = NULL;
    m_fd = zck->fd; m_pos = 0; m_nw = 0; m_seeks = m_inits = m_verdicts = 0; m_fed = 0; m_model_overflow = 0; m_ucb = 0;
    V_ASSUME(in->max_ranges >= -1 && in->max_ranges <= VERIF_N + 1);

    { int mc0 = zck_missing_chunks(zck); V_ASSERT(mc0 == missing0, "C04.zck_missing_chunks.counts_the_chunks_with_valid_0"); }

    /* ---- 1. ask for what is missing (real zck_get_missing_range) ---- */
    zckRange *r = zck_get_missing_range(zck, in->max_ranges);
    V_ASSERT(r != NULL, "C04.zck_get_missing_range.answers_on_a_usable_context");
    if(r == NULL) return;
    check_request(in, r);

    /* which chunks were requested = targets of the range index entries; the ranges as a table */
    bool req[VERIF_N]; int nreq = 0;
    for(int i = 0; i < VERIF_N; i++) req[i] = false;
    { zckChunk *e = r->index.first;
      for(int j = 0; j < VERIF_N + 1; j++) if(e != NULL) { for(int i = 0; i < VERIF_N; i++) if(e->src == &b_chunks[i] && !req[i]) { req[i] = true; nreq++; } e = e->next; } }
    size_t rs[VERIF_N], re[VERIF_N]; int len = 0;
    { zckRangeItem *it = r->first;
      for(int j = 0; j < VERIF_N; j++) if(it != NULL) { rs[j] = it->start; re[j] = it->end; len = j + 1; it = it->next; } }
    /* the requested bytes are exactly the stored extents of requested chunks, and only chunks with valid == 0 are
     * requested (for the solver-chosen file offset in->b) */
    { bool in_range = false, in_req = false, in_notmissing = false;
      for(int j = 0; j < VERIF_N; j++) if(j < len && rs[j] <= in->b && in->b <= re[j]) in_range = true;
      for(int i = 0; i < VERIF_N; i++) if(i < in->nc && IN_EXTENT(in, i, in->b)) { if(req[i]) in_req = true; if(valid0[i] != 0) in_notmissing = true; }
      V_ASSERT(in_range == in_req, "C04.zck_get_missing_range.requested_bytes_are_exactly_the_extents_of_the_requested_chunks");
      V_ASSERT(!in_range || !in_notmissing, "C04.zck_get_missing_range.nothing_already_present_is_fetched_again");
      for(int i = 0; i < VERIF_N; i++) V_ASSERT(!req[i] || valid0[i] == 0, "C04.zck_get_missing_range.only_chunks_with_valid_0_are_requested");
      if(in->max_ranges < 0)
          for(int i = 0; i < VERIF_N; i++) V_ASSERT(!(i < in->nc && valid0[i] == 0 && in->clen[i] > 0) || req[i], "C04.zck_get_missing_range.unlimited_request_covers_every_missing_chunk");
      V_ASSERT(missing0 == 0 || nreq >= 1, "C04.zck_get_missing_range.progress_at_least_one_missing_chunk_is_requested");
    }

    /* ---- 2. the faithful server: bytes of B at the requested offsets, ranges in order ---- */
    char resp[C4_PAY + 1]; size_t n = 0; bool srv_overflow = false;
    for(int j = 0; j < VERIF_N; j++)
        if(j < len)
            for(int k = 0; k < C4_PAY; k++) {
                size_t off = rs[j] + k;
                if(off >= rs[j] && off <= re[j]) { if(n < C4_PAY) resp[n++] = (char)B_at(in, off); else srv_overflow = true; }
            }
    V_ASSERT(!srv_overflow, "C04.model.response_within_model_bound");
    for(int j = 0; j < VERIF_N; j++) V_ASSERT(!(j < len) || re[j] - rs[j] < C4_PAY, "C04.model.response_within_model_bound");

    /* ---- 3. feed the response (wiring exactly as src/zck_dl.c: zck_dl_init, zck_dl_set_range) ---- */
    zckDL *dl = zck_dl_init(zck);
    V_ASSERT(dl != NULL, "C04.zck_dl_init.answers");
    if(dl == NULL) return;
    { bool sr = zck_dl_set_range(dl, r); V_ASSERT(sr, "C04.zck_dl_set_range.accepts"); }
    size_t cut = inn.cut;
#ifdef VERIF_C04_ONECALL
    cut = n;
#else
    V_ASSUME(cut >= 1 && cut < n);      /* two non-empty pieces (needs n >= 2) */
#endif
#ifdef VERIF_C04_VIA_CB
    /* the transport's write callback, REAL body (plain range body: no boundary was announced), optionally with a
     * client callback chained behind it that always says "all taken" (a progress meter) */
    if(inn.use_wcb) { bool sw = zck_dl_set_write_cb(dl, c4_user_wcb); V_ASSERT(sw, "C04.zck_dl_set_write_cb.accepts"); }
#define C4_FEED(p, len) zck_write_chunk_cb((void *)(p), 1, (len), dl)
#else
#define C4_FEED(p, len) ((size_t)dl_write_range(dl, (p), (len)))
#endif
    int badchunk = -1;
#ifdef VERIF_C05_CORRUPT
    /* UNFAITHFUL server: exactly one payload byte differs from B (any position, any non-zero difference) */
    V_ASSUME(inn.bad < n && inn.flip != 0);
    resp[inn.bad] ^= inn.flip;
    { size_t acc = 0; for(int i = 0; i < VERIF_N; i++) if(i < in->nc && req[i]) { if(inn.bad >= acc && inn.bad - acc < in->clen[i]) badchunk = i; acc += in->clen[i]; } }
    V_ASSERT(badchunk >= 0, "C05.model.corrupted_byte_belongs_to_a_requested_chunk");
#endif
    int fed_ok = 1, ncalls = 0; unsigned ucb0 = m_ucb;
    size_t pl[2] = { cut, n - cut }; const char *pp[2] = { resp, resp + cut };
    for(int q = 0; q < 2; q++)
        if(pl[q] > 0 && fed_ok) {      /* a transport stops at the first invocation that does not take everything */
            size_t rr = C4_FEED(pp[q], pl[q]);
            ncalls++;
            if(rr != pl[q]) fed_ok = 0;
#ifndef VERIF_C05_CORRUPT
            V_ASSERT(rr != 0, "C04.dl_write_range.a_faithful_response_is_accepted");
            V_ASSERT(rr == pl[q], "C04.dl_write_range.consumes_the_whole_piece");
#else
            /* the invocation that completes the corrupted chunk must not report "all taken" -- also not through a client callback */
            V_ASSERT(b_chunks[badchunk].valid != -1 || rr != pl[q], "C05.zck_write_chunk_cb.a_checksum_mismatch_is_reported_by_the_callback");
#endif
        }
#ifdef VERIF_C04_VIA_CB
    V_ASSERT(m_ucb - ucb0 == (inn.use_wcb ? (unsigned)(ncalls - !fed_ok) : 0u), "C05.zck_write_chunk_cb.client_callback_consulted_exactly_for_the_accepted_invocations");
#endif
    V_ASSERT(zck->error_state == 0, "C04.compose.no_error_raised");
#ifdef VERIF_C05_CORRUPT
    c5_after_corrupt(in, zck, req, valid0, badchunk, fed_ok);
    /* (cover goals must live in the harness function: the driver only collects those) */
    V_COVER(badchunk == VERIF_N - 1 && VERIF_N > 1 && req[0] && b_chunks[0].valid == 1 && IN_EXTENT(in, badchunk, in->b));   /* first chunk accepted, last one refused and zeroed */
    V_COVER(badchunk == 0 && in->nc == VERIF_N && req[VERIF_N - 1] && b_chunks[VERIF_N - 1].valid == 0);                      /* refused before the next chunk was started */
#if defined(VERIF_C04_VIA_CB) && !defined(VERIF_C04_ONECALL)
    V_COVER(m_ucb > 0 && !fed_ok);                                                                                          /* client callback saw the accepted first piece, not the refused one */
#endif
#else

    /* ---- 4. what the round achieved ---- */
    for(int i = 0; i < VERIF_N; i++)
        if(i < in->nc) {
            if(req[i] && (in->clen[i] > 0)) V_ASSERT(b_chunks[i].valid == 1, "C04.compose.every_requested_chunk_is_valid_afterwards");
#ifdef VERIF_C04_EMPTY
            /* a requested chunk that stores no bytes is complete as soon as the writer reaches its payload position */
            if(req[i] && n > 0) V_ASSERT(b_chunks[i].valid == 1, "C05.compose.a_requested_chunk_without_bytes_is_valid_after_a_faithful_response");
#endif
            if(!req[i]) V_ASSERT(b_chunks[i].valid == valid0[i], "C04.compose.no_other_validity_flag_changed");
            V_ASSERT(valid0[i] != 1 || b_chunks[i].valid == 1, "C04.compose.valid_chunks_stay_valid");
        }
#ifndef VERIF_C04_EMPTY
    { int mc1 = zck_missing_chunks(zck);
      V_ASSERT(mc1 == missing0 - nreq, "C04.compose.missing_count_decreased_by_the_number_of_requested_chunks");
      V_ASSERT(in->max_ranges >= 0 || mc1 == 0, "C04.compose.an_unlimited_request_leaves_nothing_missing"); }
#endif
    /* every byte written: inside the extent of a requested chunk (hence of a chunk that was missing), never in the
     * header, never in the extent of a chunk that was not requested; the log IS the payload, in order */
    V_ASSERT(!m_model_overflow, "C04.model.write_log_within_model_bound");
    V_ASSERT(m_nw == n, "C04.compose.exactly_the_payload_bytes_are_written_once_each");
    for(unsigned k = 0; k < C4_LOG; k++)
        if(k < m_nw) {
            bool inreq = false, inother = false;
            for(int i = 0; i < VERIF_N; i++) if(i < in->nc && IN_EXTENT(in, i, m_woff[k])) { if(req[i]) inreq = true; else inother = true; }
            V_ASSERT(inreq, "C04.compose.no_byte_outside_the_extents_of_the_requested_chunks_is_written");
            V_ASSERT(!inother, "C04.compose.chunks_not_requested_are_not_written");
            V_ASSERT(m_woff[k] >= HDR(in), "C04.compose.the_header_is_not_written");
            V_ASSERT((unsigned char)m_wval[k] == B_at(in, m_woff[k]), "C04.compose.every_byte_written_is_the_byte_of_B_at_that_offset");
        }
    /* every byte of a requested chunk's extent received its byte of B (solver-chosen offset in->b) */
    { bool b_req = false, b_written = false;
      for(int i = 0; i < VERIF_N; i++) if(i < in->nc && req[i] && IN_EXTENT(in, i, in->b)) b_req = true;
      for(unsigned k = 0; k < C4_LOG; k++) if(k < m_nw && m_woff[k] == in->b) b_written = true;
      V_ASSERT(!b_req || b_written, "C04.compose.every_byte_of_a_requested_chunk_is_written");
    }
#ifndef VERIF_C04_EMPTY
    V_ASSERT(m_verdicts == (unsigned)nreq || !fed_ok, "C04.compose.one_verdict_per_requested_chunk");
#endif

    V_COVER(nreq == VERIF_N && len == 1 && n == C4_PAY);                       /* everything missing, one merged range, longest payload */
    V_COVER(nreq == 1 && in->nc == VERIF_N && valid0[0] == 1 && b_chunks[VERIF_N - 1].valid == 1 && valid0[VERIF_N - 1] == 0);   /* first present, last fetched */
    V_COVER(nreq == 1 && in->nc == VERIF_N && valid0[0] == 0 && valid0[VERIF_N - 1] == -1 && b_chunks[0].valid == 1);  /* failed chunk is not re-requested */
    V_COVER(in->max_ranges == 1 && missing0 > nreq && nreq >= 1 && zck->error_state == 0);   /* limit cut the request short (needs N >= 3 or non-adjacent) */
#ifdef VERIF_C04_EMPTY
    V_COVER(in->nc == VERIF_N && in->clen[0] == 0 && req[0] && req[VERIF_N - 1] && n > 0 && b_chunks[0].valid == 1 && b_chunks[VERIF_N - 1].valid == 1);   /* empty missing chunk first, then a data chunk */
#endif
#ifndef VERIF_C04_ONECALL
    V_COVER(nreq == VERIF_N && cut == (size_t)in->clen[0] && b_chunks[VERIF_N - 1].valid == 1);   /* cut exactly at a chunk border */
    V_COVER(nreq == VERIF_N && cut < (size_t)in->clen[0] && in->clen[0] == C4_SZ && b_chunks[VERIF_N - 1].valid == 1);   /* cut inside the first chunk */
#else
    V_COVER(missing0 == 0 && n == 0 && in->nc == VERIF_N);                    /* nothing missing, nothing requested, nothing fed */
#endif
#endif /* !VERIF_C05_CORRUPT */
}
