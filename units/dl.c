/* Proof units for src/lib/dl/dl.c (C05 range reassembly verified and confined, C17 clean failure) */
#include "spec/verif_zck.h"
#include "spec/ghost.h"
#include "spec/ghost_dl.h"
GHOST_DEFS
GHOST_DL_DEFS
#include <unistd.h>
#define write verif_diverted_write            /* write(): stubs/libc_io_ww.h (watched byte) instead of stubs/libc_io.h */
#include "stubs/libc_io.h"
#undef write
#include "stubs/libc_io_ww.h"
#include "stubs/libc_mem.h"
GHOST_MEM_DEFS
#include "stubs/regex.h"
#define write_data verif_diverted_write_data  /* write_data: contracts/io_ww.h (enforced by unit write_data_ww) */
#include "contracts/io.h"
#undef write_data
#include "contracts/io_ww.h"
#include "contracts/hashfn.h"
#include "contracts/multipart.h"
#include "contracts/dl.h"
#include "extracted_zalloc.c"
#include "src/lib/dl/dl.c"
#ifdef VERIF_WITH_MULTIPART_C
/* zck_header_cb unit: the real multipart_get_boundary / reset_mp bodies are part of the verified text (their
 * contracts were written for enforcement; as assumptions they cannot hand back freshly allocated patterns) */
#include "src/lib/dl/multipart.c"
#endif

/* ---- harness state: a target context, up to three target chunks, up to three requested ranges ---- */
typedef struct {
    zckCtx anyz; zckDL anydl; zckChunk anyc[3], anyr[3]; zckRange anyrange; zckMP anymp;
    int err0, ctype, fd;
    size_t data_offset;
    int n_tgt, n_rng;            /* 1..3 each */
    int src_of[3];               /* range entry i -> target chunk */
    int cur, chk;                /* range->index.current / dl->tgt_check: -1 = NULL */
    int ctx_live, ctx_typed, watch_chunk_hash;
    size_t wic, dlcd, len;
    size_t hu_total0, hu_k, k1; int hu_seen0, hu_final0, hu_inits0;
    g_off_t pos0[G_NFD]; size_t wr0[G_NFD]; int failed0;
    int ww_fd; g_off_t ww_off; unsigned ww_hit0; char ww_val0;
    int dl_null, zck_null, mp_null, has_boundary, wcb, hcb; size_t l, c;
    int nx[3], first, range_null, idx_first_null;   /* control-only unit: arbitrary links among the named nodes */
    regex_t anyrx[3]; int rx_state[3]; size_t buffer_len; int boundary_len;   /* callbacks: parser side */
    char bytes[16];
} IN_dl;
V_INPUT(IN_dl)

static zckChunk *g_tg[3], *g_rg[3];
static zckCtx *mk_tgt(IN_dl *in) {
    V_ASSUME(in->err0 >= 0 && in->err0 <= 2 && SPEC_HASH_VALID(in->ctype));
    V_ASSUME(in->hu_final0 >= 0 && in->hu_final0 < 1000 && in->hu_inits0 >= 0 && in->hu_inits0 < 1000 && in->hu_seen0 >= 0 && in->hu_seen0 < 1000);
    V_ASSUME(in->failed0 == 0 || in->failed0 == 1);
    zckCtx *zck = malloc(sizeof(*zck));
    V_ASSUME(zck != NULL);
    *zck = in->anyz;
    zck->error_state = in->err0; zck->fd = in->fd; zck->data_offset = in->data_offset;
    zck->chunk_hash_type.type = in->ctype; zck->chunk_hash_type.digest_size = SPEC_DIGEST_SIZE(in->ctype);
    zck->check_chunk_hash.ctx = NULL; zck->check_chunk_hash.type = NULL;
    if(in->ctx_live) { zck->check_chunk_hash.ctx = malloc(1); V_ASSUME(zck->check_chunk_hash.ctx != NULL); }
    if(in->ctx_typed) zck->check_chunk_hash.type = &zck->chunk_hash_type;
    g_hu_hash = in->watch_chunk_hash ? &zck->check_chunk_hash : &zck->check_full_hash;
    g_hu_total = in->hu_total0; g_hu_k = in->hu_k; g_hu_seen = in->hu_seen0; g_hu_final = in->hu_final0; g_hu_inits = in->hu_inits0; g_k1 = in->k1;
    for(int i = 0; i < G_NFD; i++) { g_fpos[i] = in->pos0[i]; g_wr_bytes[i] = in->wr0[i]; }
    g_io_failed = in->failed0;
    g_ww_fd = in->ww_fd; g_ww_off = in->ww_off; g_ww_hit = in->ww_hit0; g_ww_val = in->ww_val0;
    return zck;
}
static zckChunk *mk_chunk(zckCtx *zck, const zckChunk *any) {
    zckChunk *c = malloc(sizeof(*c));
    V_ASSUME(c != NULL);
    *c = *any;
    c->zck = zck; c->digest_size = zck->chunk_hash_type.digest_size;
    c->digest = malloc(c->digest_size);
    V_ASSUME(c->digest != NULL);
    c->next = NULL; c->src = NULL;
    return c;
}
/* target chunks (free-standing: dl.c reaches them only through range entries' src) */
static void mk_targets(IN_dl *in, zckCtx *zck) {
    V_ASSUME(in->n_tgt >= 1 && in->n_tgt <= 3);
    for(int i = 0; i < 3; i++) g_tg[i] = i < in->n_tgt ? mk_chunk(zck, &in->anyc[i]) : NULL;
    zck->index.first = g_tg[0];
}

void h_dl_write(void) {
    IN_dl in = nondet_IN_dl();
    zckCtx *zck = mk_tgt(&in);
    zckDL *dl = malloc(sizeof(*dl));
    V_ASSUME(dl != NULL);
    *dl = in.anydl; dl->zck = zck; dl->range = NULL; dl->write_in_chunk = in.wic; dl->dl_chunk_data = in.dlcd;
    mk_targets(&in, zck);
    zckChunk *c = g_tg[0];
    dl->tgt_check = in.chk >= 0 ? c : NULL;
    g_off_t lo = (g_off_t)in.data_offset + (g_off_t)c->start;
    /* DL_WIN: bytes are only expected while the descriptor stands inside the extent of the (not valid) chunk being filled */
    V_ASSUME(in.wic == 0 || in.err0 > 0 || (in.chk >= 0 && c->valid != 1 && in.wic <= c->comp_length && g_fpos[G_IX(in.fd)] == lo + (g_off_t)(c->comp_length - in.wic)));
    V_ASSUME(in.len <= 16);
    char *at = malloc(in.len);
    V_ASSUME(at != NULL);
    V_TIE16(at, in.len, in.bytes, 0);
    g_off_t p0 = g_fpos[G_IX(in.fd)];
    int r = dl_write(dl, at, in.len);
    size_t m = in.wic < in.len ? in.wic : in.len;
    V_ASSERT((g_ww_hit == in.ww_hit0 && g_ww_val == in.ww_val0) || (in.chk >= 0 && c->valid != 1 && in.fd == in.ww_fd && (g_off_t)(in.ww_off - lo) < (g_off_t)c->comp_length), "C05,C17.dl_write.only_the_extent_of_the_chunk_being_filled_is_written_and_that_chunk_is_not_valid");
    V_ASSERT(r == -1 || (size_t)r == m, "C05.dl_write.writes_min_of_remaining_and_length");
    V_ASSERT(r <= 0 || !(in.fd == in.ww_fd && (g_off_t)(in.ww_off - p0) < (g_off_t)r) || (g_ww_hit == in.ww_hit0 + 1 && g_ww_val == at[in.ww_off - p0]), "C05.dl_write.file_receives_the_bytes_in_order");
    V_ASSERT((in.fd == in.ww_fd && (g_off_t)(in.ww_off - p0) < (g_off_t)m) || (g_ww_hit == in.ww_hit0 && g_ww_val == in.ww_val0), "C05,C17.dl_write.nothing_outside_the_span_is_written");
    V_ASSERT(r != -1 || zck->error_state > 0, "C05,C12.dl_write.failure_is_reported");
    V_COVER(r > 0 && (size_t)r == in.wic && in.wic < in.len && g_ww_hit == in.ww_hit0 + 1);
    V_COVER(r > 0 && (size_t)r == in.len && in.wic > in.len && in.watch_chunk_hash && g_hu_seen == in.hu_seen0 + 1);
    V_COVER(r == 0 && in.len > 0); V_COVER(r == -1 && in.err0 == 0);
}

void h_zero_chunk(void) {
    IN_dl in = nondet_IN_dl();
    zckCtx *zck = mk_tgt(&in);
    mk_targets(&in, zck);
    zckChunk *c = g_tg[0];
    int r = zero_chunk(zck, c);
    g_off_t lo = (g_off_t)in.data_offset + (g_off_t)c->start;
    int in_ext = in.fd == in.ww_fd && (g_off_t)(in.ww_off - lo) < (g_off_t)c->comp_length;
    V_ASSERT(in_ext || (g_ww_hit == in.ww_hit0 && g_ww_val == in.ww_val0), "C05,C08,C17.zero_chunk.nothing_outside_the_extent_is_written");
    V_ASSERT(!r || in.err0 > 0 || !in_ext || (g_ww_hit == in.ww_hit0 + 1 && g_ww_val == 0), "C05,C08.zero_chunk.every_byte_of_the_extent_is_zeroed");
    V_COVER(r && in.err0 == 0 && c->comp_length > 2 * BUF_SIZE + 1 && in_ext && (in.ww_off - lo) > BUF_SIZE);
    V_COVER(!r && in.err0 == 0 && g_ww_hit == in.ww_hit0 + 1);
    V_COVER(!r && in.err0 > 0);   /* since fix c4d749c a context in error is refused */ V_COVER(r && c->comp_length == 0);
}


void h_set_chunk_valid(void) {
    IN_dl in = nondet_IN_dl();
    zckCtx *zck = mk_tgt(&in);
    mk_targets(&in, zck);
    zckDL *dl = malloc(sizeof(*dl));
    V_ASSUME(dl != NULL);
    *dl = in.anydl; dl->zck = zck; dl->range = NULL; dl->write_in_chunk = in.wic; dl->tgt_check = g_tg[0];
    zckChunk *c = g_tg[0];
    V_ASSUME(c->valid != 1);
    g_off_t lo = (g_off_t)in.data_offset + (g_off_t)c->start;
    V_ASSUME(zck->check_chunk_hash.ctx == NULL || in.err0 > 0 || (in.wic == 0 && g_fpos[G_IX(in.fd)] == lo + (g_off_t)c->comp_length && (!in.watch_chunk_hash || g_hu_total == c->comp_length)));
    size_t wr0 = g_wr_bytes[G_IX(in.fd)];
    bool r = set_chunk_valid(dl);
    int in_ext = in.fd == in.ww_fd && (g_off_t)(in.ww_off - lo) < (g_off_t)c->comp_length;
    V_ASSERT(!r || (c->valid == 1 && in.err0 == 0 && g_ww_hit == in.ww_hit0 && g_wr_bytes[G_IX(in.fd)] == wr0), "C05.set_chunk_valid.true_means_marked_valid_and_released");
    V_ASSERT(r || c->valid != 1, "C05.set_chunk_valid.false_means_not_marked_valid");
    V_ASSERT(r || zck->error_state > 0 || (c->valid == -1 && (!in_ext || (g_ww_hit == in.ww_hit0 + 1 && g_ww_val == 0))), "C05.set_chunk_valid.mismatch_means_zero_filled_and_marked_failed");
    V_ASSERT(in_ext || (g_ww_hit == in.ww_hit0 && g_ww_val == in.ww_val0), "C05,C17.set_chunk_valid.nothing_outside_the_chunk_extent_is_written");
    V_COVER(r); V_COVER(!r && zck->error_state == 0 && in_ext); V_COVER(!r && in.err0 == 0 && zck->error_state > 0 && c->valid == -1);
    V_COVER(!r && in.err0 == 0 && zck->error_state > 0 && c->valid == 0);
}

/* requested-range list of 1..3 entries, each pointing at one of the target chunks */
static zckDL *mk_dl(IN_dl *in, zckCtx *zck) {
    mk_targets(in, zck);
#ifndef VERIF_DL_NMAX
#define VERIF_DL_NMAX 3
#endif
    V_ASSUME(in->n_rng >= 1 && in->n_rng <= VERIF_DL_NMAX && in->n_tgt <= VERIF_DL_NMAX);
    zckRange *range = malloc(sizeof(*range));
    V_ASSUME(range != NULL);
    *range = in->anyrange;
    zckChunk *prev = NULL;
    for(int i = 0; i < 3; i++) {
        g_rg[i] = NULL;
        if(i < in->n_rng) {
            V_ASSUME(in->src_of[i] >= 0 && in->src_of[i] < in->n_tgt);
            zckChunk *r = mk_chunk(zck, &in->anyr[i]);
            r->src = g_tg[in->src_of[i]];
            if(prev) prev->next = r; else range->index.first = r;
            prev = r; g_rg[i] = r;
        }
    }
    DR_NONE_INIT(); g_dr1 = DR_NAME(g_rg[0]); g_dr2 = DR_NAME(g_rg[1]); g_dr3 = DR_NAME(g_rg[2]);
    V_ASSUME(in->cur >= -1 && in->cur < in->n_rng && in->chk >= -1 && in->chk < in->n_rng);
    range->index.current = in->cur < 0 ? NULL : g_rg[in->cur];
    zckDL *dl = malloc(sizeof(*dl));
    V_ASSUME(dl != NULL);
    *dl = in->anydl;
    dl->zck = zck; dl->range = range; dl->write_in_chunk = in->wic; dl->dl_chunk_data = in->dlcd;
    dl->tgt_check = in->chk < 0 ? NULL : g_rg[in->chk]->src;
    dl->mp = NULL; dl->boundary = NULL; dl->hdr_regex = dl->dl_regex = dl->end_regex = NULL; dl->write_cb = NULL; dl->header_cb = NULL;
    return dl;
}
/* the state invariant DL_STATE, evaluated by the harness on the objects it built (assumed, not asserted) */
static int dl_state_ok(IN_dl *in, zckDL *dl) {
    zckCtx *zck = dl->zck; zckChunk *t = NULL;
    if(dl->tgt_check == NULL) return dl->write_in_chunk == 0;
    /* reach the chunk through the harness's own names (see the note at DL_STATE in contracts/dl_range.h) */
    for(int i = 0; i < 3; i++) if(g_tg[i] != NULL && dl->tgt_check == g_tg[i]) t = g_tg[i];
    if(t == NULL) return 0;
    g_off_t lo = (g_off_t)zck->data_offset + (g_off_t)t->start;
    return t->valid != 1 && dl->write_in_chunk <= t->comp_length && (dl->write_in_chunk == 0 || zck->check_chunk_hash.ctx != NULL) &&
        (zck->check_chunk_hash.ctx == NULL || (g_fpos[G_IX(zck->fd)] == lo + (g_off_t)(t->comp_length - dl->write_in_chunk) && (!in->watch_chunk_hash || g_hu_total == t->comp_length - dl->write_in_chunk)));
}
static int off_in_open_extent(IN_dl *in, zckCtx *zck, int valid0[3]) {
    for(int i = 0; i < 3; i++)
        if(g_rg[i] != NULL && valid0[i] != 1 && in->fd == in->ww_fd && (g_off_t)(in->ww_off - ((g_off_t)zck->data_offset + (g_off_t)g_rg[i]->src->start)) < (g_off_t)g_rg[i]->src->comp_length)
            return 1;
    return 0;
}

void h_dl_write_range(void) {
    IN_dl in = nondet_IN_dl();
    zckCtx *zck = mk_tgt(&in);
    zckDL *dl = mk_dl(&in, zck);
    V_ASSUME(in.err0 > 0 || dl_state_ok(&in, dl));
    V_ASSUME(in.len <= 16);
    char *at = malloc(in.len);
    V_ASSUME(at != NULL);
    V_TIE16(at, in.len, in.bytes, 0);
    int valid0[3]; for(int i = 0; i < 3; i++) valid0[i] = g_rg[i] ? g_rg[i]->src->valid : 0;
    int r = dl_write_range(dl, at, in.len);
    V_ASSERT(r >= 0 && (size_t)r <= in.len, "C05,C17.dl_write_range.consumes_at_most_length");
    V_ASSERT((g_ww_hit == in.ww_hit0 && g_ww_val == in.ww_val0) || off_in_open_extent(&in, zck, valid0), "C05,C17.dl_write_range.only_extents_of_requested_chunks_that_are_not_valid_are_written");
    for(int i = 0; i < 3; i++) V_ASSERT(g_rg[i] == NULL || valid0[i] != 1 || g_rg[i]->src->valid == 1, "C05.dl_write_range.valid_chunks_stay_valid");
    V_ASSERT(zck->error_state > 0 || dl_state_ok(&in, dl), "C05,C17.dl_write_range.state_invariant_kept_on_every_return");
    V_COVER(r > 0 && (size_t)r == in.len && in.wic > 0 && in.wic < in.len && dl->write_in_chunk > 0 && in.n_rng >= 2);      /* finished one chunk, verified it, started the next */
    V_COVER(r == 0 && in.err0 == 0 && zck->error_state == 0 && in.wic > 0 && in.chk >= 0 && g_rg[in.chk]->src->valid == -1);   /* checksum mismatch */
    V_COVER(r > 0 && in.wic == 0 && in.chk < 0 && dl->tgt_check != NULL);   /* matched a chunk from idle */
    V_COVER(r == 0 && in.len > 0 && in.err0 == 0 && zck->error_state == 0 && in.wic == 0 && dl->tgt_check == NULL);   /* nobody expects these bytes */
    V_COVER(r > 0 && (size_t)r < in.len);
}

/* ---- control-only unit: the requested-range list is two named nodes with ARBITRARY contents and links (any graph
 * over the two nodes, cycles and sharing of target chunks included); nothing about list shape is assumed.  The
 * list scan is closed by a loop contract, so the number of scan steps plays no role. -------------------------- */
static zckChunk *pick_node(int k) { return k == 1 ? g_rg[0] : k == 2 ? g_rg[1] : NULL; }
void h_dl_write_range_ctl(void) {
    IN_dl in = nondet_IN_dl();
    zckCtx *zck = mk_tgt(&in);
    if(in.idx_first_null) zck->index.first = NULL;
    for(int i = 0; i < 2; i++) {
        g_tg[i] = malloc(sizeof(zckChunk)); g_rg[i] = malloc(sizeof(zckChunk));
        V_ASSUME(g_tg[i] != NULL && g_rg[i] != NULL);
        *g_tg[i] = in.anyc[i]; *g_rg[i] = in.anyr[i];
    }
    g_tg[2] = g_rg[2] = NULL;
    for(int i = 0; i < 2; i++) { g_rg[i]->src = g_tg[in.src_of[i] & 1]; g_rg[i]->next = pick_node(in.nx[i]); }
#ifdef VERIF_DL_ACYCLIC
    V_ASSUME(in.nx[0] != 1 && in.nx[1] == 0);      /* bounded variant: no cycles (the scan is unwound, not closed by a loop contract) */
#endif
    DR_NONE_INIT(); g_dr1 = g_rg[0]; g_dr2 = g_rg[1]; g_dr3 = DR_NONE;
    zckDL *dl = malloc(sizeof(*dl));
    V_ASSUME(dl != NULL);
    *dl = in.anydl;
    dl->zck = zck; dl->range = NULL;
    if(!in.range_null) {
        dl->range = malloc(sizeof(zckRange)); V_ASSUME(dl->range != NULL);
        *dl->range = in.anyrange; dl->range->index.first = pick_node(in.first); dl->range->index.current = pick_node(in.cur);
    }
    dl->write_in_chunk = in.wic; dl->dl_chunk_data = in.dlcd;
    dl->tgt_check = in.chk < 0 ? NULL : g_tg[in.chk & 1];
    V_ASSUME(in.err0 > 0 || dl_state_ok(&in, dl));
    V_ASSUME(in.len <= 16);
    char *at = malloc(in.len);
    V_ASSUME(at != NULL);
    int valid0[2] = { g_tg[0]->valid, g_tg[1]->valid };
    zckChunk *chk0 = dl->tgt_check;
    int r = dl_write_range(dl, at, in.len);
    V_ASSERT(r >= 0 && (size_t)r <= in.len, "C05,C17.dl_write_range.consumes_at_most_length");
    for(int i = 0; i < 2; i++) {
        V_ASSERT(valid0[i] != 1 || g_tg[i]->valid == 1, "C05.dl_write_range.valid_chunks_stay_valid");
        V_ASSERT(valid0[i] != 1 || dl->tgt_check != g_tg[i] || dl->tgt_check == chk0, "C05.dl_write_range.a_valid_chunk_is_never_selected_for_filling");
        V_ASSERT(valid0[i] == -1 || g_tg[i]->valid != -1 || r == 0, "C05.dl_write_range.a_checksum_mismatch_makes_the_call_report_zero");
    }
    V_ASSERT(zck->error_state > 0 || dl_state_ok(&in, dl), "C05,C17.dl_write_range.state_invariant_kept_on_every_return");
    V_ASSERT(in.err0 == 0 || (r == 0 && g_ww_hit == in.ww_hit0 && g_ww_val == in.ww_val0), "C05,C12.dl_write_range.context_in_error_is_refused");
    V_ASSERT(zck->error_state == 0 || in.err0 > 0 || r == 0, "C05,C12.dl_write_range.an_error_raised_during_the_call_makes_it_report_zero");
    V_COVER(r > 0 && (size_t)r == in.len && in.wic > 0 && in.wic < in.len && dl->write_in_chunk > 0);      /* finished one chunk, verified it, started the next */
    V_COVER(r == 0 && in.err0 == 0 && zck->error_state == 0 && in.wic > 0 && chk0 != NULL && chk0->valid == -1);   /* checksum mismatch */
    V_COVER(r > 0 && in.wic == 0 && in.chk < 0 && dl->tgt_check != NULL);   /* matched a chunk from idle */
    V_COVER(r == 0 && in.len > 0 && in.err0 == 0 && zck->error_state == 0 && in.wic == 0 && dl->tgt_check == NULL);   /* nobody expects these bytes */
    V_COVER(r > 0 && (size_t)r < in.len);
#ifndef VERIF_DL_ACYCLIC
    V_COVER(r > 0 && in.nx[0] == 1 && in.nx[1] == 1);     /* cyclic list */
#else
    V_COVER(r > 0 && in.wic == 0 && in.chk < 0 && dl->tgt_check != NULL && in.first == 1 && in.nx[0] == 2 && dl->tgt_check == g_rg[1]->src && g_rg[1]->src != g_rg[0]->src);  /* second entry matched */
#endif
}

/* ---- the transport callbacks: download state as in the control-only unit (named nodes, arbitrary links) plus the
 * multipart parser side (patterns NULL or compiled, carried buffer, boundary) ----------------------------------- */
static regex_t *mk_rx_dl(IN_dl *in, int i) {
    if(in->rx_state[i] == 0) return NULL;
    regex_t *r = malloc(sizeof(*r));
    V_ASSUME(r != NULL);
    *r = in->anyrx[i]; r->re_nsub = RX_MAGIC;
    return r;
}
static zckDL *mk_cb_dl(IN_dl *in) {
#ifdef VERIF_CB_MP
    in->mp_null = 0;      /* write callback: a parser object exists (zck_dl_init; its allocation failure is advisory) */
#endif
    zckCtx *zck = mk_tgt(in);
    for(int i = 0; i < 2; i++) {
        g_tg[i] = malloc(sizeof(zckChunk)); g_rg[i] = malloc(sizeof(zckChunk));
        V_ASSUME(g_tg[i] != NULL && g_rg[i] != NULL);
        *g_tg[i] = in->anyc[i]; *g_rg[i] = in->anyr[i];
    }
    g_tg[2] = g_rg[2] = NULL;
    for(int i = 0; i < 2; i++) { g_rg[i]->src = g_tg[in->src_of[i] & 1]; g_rg[i]->next = pick_node(in->nx[i]); }
    DR_NONE_INIT(); g_dr1 = g_rg[0]; g_dr2 = g_rg[1]; g_dr3 = DR_NONE;
    zckDL *dl = malloc(sizeof(*dl));
    V_ASSUME(dl != NULL);
    *dl = in->anydl;
    dl->zck = zck; dl->range = NULL;
    if(!in->range_null) {
        dl->range = malloc(sizeof(zckRange)); V_ASSUME(dl->range != NULL);
        *dl->range = in->anyrange; dl->range->index.first = pick_node(in->first); dl->range->index.current = pick_node(in->cur);
    }
    dl->write_in_chunk = in->wic; dl->dl_chunk_data = in->dlcd;
    dl->tgt_check = in->chk < 0 ? NULL : g_tg[in->chk & 1];
    V_ASSUME(in->err0 > 0 || dl_state_ok(in, dl));
    dl->hdr_regex = mk_rx_dl(in, 0); dl->dl_regex = mk_rx_dl(in, 1); dl->end_regex = mk_rx_dl(in, 2);
    V_ASSUME((dl->dl_regex == NULL) == (dl->end_regex == NULL));
    dl->mp = NULL;
    if(!in->mp_null) {
        dl->mp = malloc(sizeof(zckMP)); V_ASSUME(dl->mp != NULL); *dl->mp = in->anymp;
        dl->mp->buffer = NULL;
        V_ASSUME(in->buffer_len <= 6);
        if(in->buffer_len > 0) { dl->mp->buffer = malloc(in->buffer_len); V_ASSUME(dl->mp->buffer != NULL); dl->mp->buffer_len = in->buffer_len; }
    }
    dl->boundary = NULL;
    if(in->has_boundary) {
        V_ASSUME(in->boundary_len >= 0 && in->boundary_len <= 7);
        dl->boundary = malloc(in->boundary_len + 1); V_ASSUME(dl->boundary != NULL);
        dl->boundary[in->boundary_len] = 0;
    }
    dl->write_cb = in->wcb ? verif_user_wcb : NULL; dl->header_cb = in->hcb ? verif_user_wcb : NULL;
    return dl;
}
void h_zck_write_chunk_cb(void) {
    IN_dl in = nondet_IN_dl();
#ifdef VERIF_NO_USER_CB
    in.wcb = 0;   /* variant: no client callback chained */
#endif
#ifdef VERIF_CB_PLAIN
    in.has_boundary = 0;   /* variant: plain range body only (no boundary announced): the multipart branch is not entered */
#endif
    zckDL *dl = mk_cb_dl(&in);
    V_ASSUME(in.l <= 16 && in.c <= 16 && in.l * in.c <= 16);
    size_t n = in.l * in.c;
    char *p = malloc(n);
    V_ASSUME(p != NULL);
    int valid0[2] = { dl ? g_tg[0]->valid : 0, dl ? g_tg[1]->valid : 0 };
    size_t r = zck_write_chunk_cb(p, in.l, in.c, dl);
    if(dl != NULL && n > 0) {
        for(int i = 0; i < 2; i++) V_ASSERT(valid0[i] == -1 || g_tg[i]->valid != -1 || r != n, "C05.zck_write_chunk_cb.a_checksum_mismatch_is_reported_by_the_callback");
        V_ASSERT(in.err0 == 0 || r != n, "C05,C12,C17.zck_write_chunk_cb.a_context_in_error_is_reported_by_the_callback");
    }
    V_COVER(dl != NULL && r == n && n > 0 && !in.has_boundary && in.wic > 0);
#ifndef VERIF_CB_PLAIN
    V_COVER(dl != NULL && r == n && n > 0 && in.has_boundary);
#endif
    V_COVER(dl != NULL && r == 0 && n > 0 && in.err0 == 0 && dl->zck->error_state == 0 && valid0[0] == 0 && g_tg[0]->valid == -1 && !in.has_boundary);   /* checksum mismatch reported */
#ifndef VERIF_NO_USER_CB
    V_COVER(dl != NULL && in.wcb && r == n && n > 0);
#endif
}
void h_zck_write_zck_header_cb(void) {
    IN_dl in = nondet_IN_dl();
#ifdef VERIF_NO_USER_CB
    in.wcb = 0;
#endif
    zckDL *dl = NULL;
    {
        zckCtx *zck = mk_tgt(&in);
        dl = malloc(sizeof(*dl)); V_ASSUME(dl != NULL);
        *dl = in.anydl; dl->zck = zck;
        dl->write_cb = in.wcb ? verif_user_wcb : NULL; dl->header_cb = in.hcb ? verif_user_wcb : NULL;
    }
    V_ASSUME(in.l <= 16 && in.c <= 16 && in.l * in.c <= 16);
    size_t n = in.l * in.c;
    char *p = malloc(n);
    V_ASSUME(p != NULL);
    size_t wr0 = dl ? g_wr_bytes[G_IX(in.fd)] : 0;
    size_t r = zck_write_zck_header_cb(p, in.l, in.c, dl);
    V_ASSERT(dl == NULL || r != n || g_wr_bytes[G_IX(in.fd)] == wr0 + n, "C12.zck_write_zck_header_cb.accepting_means_every_byte_was_written");
    V_COVER(dl != NULL && r == n && n > 0); V_COVER(dl != NULL && r != n && n > 0 && g_wr_bytes[G_IX(in.fd)] < wr0 + n);
}
void h_zck_header_cb(void) {
    IN_dl in = nondet_IN_dl();
    /* parser side only: zck_header_cb never looks at the download state */
    zckDL *dl = malloc(sizeof(*dl));
    V_ASSUME(dl != NULL);
    *dl = in.anydl;
    dl->zck = NULL;
    if(!in.zck_null) { dl->zck = malloc(sizeof(zckCtx)); V_ASSUME(dl->zck != NULL); *dl->zck = in.anyz; V_ASSUME(in.err0 >= 0 && in.err0 <= 2); dl->zck->error_state = in.err0; }
    dl->hdr_regex = mk_rx_dl(&in, 0); dl->dl_regex = mk_rx_dl(&in, 1); dl->end_regex = mk_rx_dl(&in, 2);
    V_ASSUME((dl->dl_regex == NULL) == (dl->end_regex == NULL));
    dl->mp = NULL;
    if(!in.mp_null) {
        dl->mp = malloc(sizeof(zckMP)); V_ASSUME(dl->mp != NULL); *dl->mp = in.anymp;
        dl->mp->buffer = NULL;
        V_ASSUME(in.buffer_len <= 6);
        if(in.buffer_len > 0) { dl->mp->buffer = malloc(in.buffer_len); V_ASSUME(dl->mp->buffer != NULL); dl->mp->buffer_len = in.buffer_len; }
    }
    dl->boundary = NULL;
    if(in.has_boundary) {
        V_ASSUME(in.boundary_len >= 0 && in.boundary_len <= 7);
        dl->boundary = malloc(in.boundary_len + 1); V_ASSUME(dl->boundary != NULL);
        dl->boundary[in.boundary_len] = 0;
    }
    dl->write_cb = in.wcb ? verif_user_wcb : NULL; dl->header_cb = in.hcb ? verif_user_wcb : NULL;
    V_ASSUME(in.l <= 24 && in.c <= 24 && in.l * in.c <= 24);
    size_t n = in.l * in.c;
    char *b = malloc(n);
    V_ASSUME(b != NULL);
    size_t r = zck_header_cb(b, in.l, in.c, dl);
    V_ASSERT(dl == NULL || dl->hdr_regex == NULL || RX_COMPILED(dl->hdr_regex), "C17.zck_header_cb.no_uncompiled_pattern_left_behind_on_any_return");
    V_ASSERT(dl == NULL || in.hcb || r == n, "C17.zck_header_cb.header_lines_are_always_accepted");
    V_COVER(dl != NULL && r == n && n > 0 && !in.hcb); V_COVER(dl != NULL && in.hcb);
}

/* ---- life-cycle units ------------------------------------------------------------------------------------- */
void h_clear_dl_regex(void) {
    IN_dl in = nondet_IN_dl();
    zckDL *dl = in.dl_null ? NULL : mk_cb_dl(&in);
    clear_dl_regex(dl);
    V_ASSERT(dl == NULL || (dl->hdr_regex == NULL && dl->dl_regex == NULL && dl->end_regex == NULL), "C17.clear_dl_regex.no_pattern_pointer_survives");
    V_COVER(dl != NULL && in.rx_state[0] && in.rx_state[1] && in.rx_state[2]); V_COVER(dl != NULL && !in.rx_state[0] && in.rx_state[1] && in.rx_state[2]); V_COVER(dl == NULL);
}
void h_zck_dl_reset(void) {
    IN_dl in = nondet_IN_dl();
    zckDL *dl = in.dl_null ? NULL : mk_cb_dl(&in);
    if(dl != NULL && in.zck_null) dl->zck = NULL;
    zckMP *mp0 = dl ? dl->mp : NULL; size_t d0 = dl ? dl->dl : 0;
    zck_dl_reset(dl);
    V_ASSERT(dl == NULL || (dl->hdr_regex == NULL && dl->dl_regex == NULL && dl->end_regex == NULL && dl->boundary == NULL), "C17.zck_dl_reset.no_pattern_or_boundary_pointer_survives");
    V_ASSERT(dl == NULL || (dl->mp == mp0 && dl->dl == d0), "C17.zck_dl_reset.keeps_context_parser_object_and_statistics");
    V_COVER(dl != NULL && in.rx_state[1] && in.has_boundary && !in.mp_null && in.buffer_len > 0); V_COVER(dl != NULL && in.mp_null); V_COVER(dl == NULL);
}
void h_zck_dl_free(void) {
    IN_dl in = nondet_IN_dl();
    zckDL *dl = mk_cb_dl(&in);
    if(in.zck_null) dl->zck = NULL;
    zckDL **pp = malloc(sizeof(*pp));
    V_ASSUME(pp != NULL);
    *pp = dl;
    zck_dl_free(pp);
    V_ASSERT(*pp == NULL, "C17.zck_dl_free.pointer_cleared");
    V_COVER(in.rx_state[0] && in.rx_state[1] && in.has_boundary && !in.mp_null && in.buffer_len > 0); V_COVER(in.mp_null);
}

#ifdef VERIF_NATIVE
#include "replay_in.h"
#endif
