/* Proof units for the local chunk reuse functions of src/lib/dl/dl.c (C08, C12, C05) */
#define VERIF_UTHASH_STUB
#include "spec/verif_zck.h"
#include "spec/ghost.h"
GHOST_DEFS
#include "stubs/libc_mem.h"
GHOST_MEM_DEFS
#include "contracts/io.h"
#include "contracts/hash.h"
#include "contracts/hashfn.h"
#include "contracts/dlcopy.h"
#include "extracted_zalloc.c"
#include "src/lib/dl/dl.c"

/* ---- zero_chunk ------------------------------------------------------------------------------- */
typedef struct { zckCtx any; zckChunk anyc; int err0; size_t k2; g_off_t pos0[G_NFD]; size_t wr0[G_NFD]; int failed0; } IN_zc;
V_INPUT(IN_zc)

void h_zero_chunk(void) {
    IN_zc in = nondet_IN_zc();
    V_ASSUME(in.err0 >= 0 && in.err0 <= 2 && (in.failed0 == 0 || in.failed0 == 1));
    zckCtx *tgt = malloc(sizeof(*tgt));
    V_ASSUME(tgt != NULL);
    *tgt = in.any; tgt->error_state = in.err0;
    zckChunk *c = malloc(sizeof(*c));
    V_ASSUME(c != NULL);
    *c = in.anyc; c->zck = tgt;
    for(int i = 0; i < G_NFD; i++) { g_fpos[i] = in.pos0[i]; g_wr_bytes[i] = in.wr0[i]; }
    g_io_failed = in.failed0; g_k2 = in.k2;
    /* the window is the chunk's extent (no wrap of the extent in the file offset space) */
    g_win_fd = tgt->fd; g_win_lo = CHUNK_LO(tgt, c); g_win_hi = g_win_lo + (g_off_t)c->comp_length;
    V_ASSUME(g_win_hi >= g_win_lo);
    g_wr_guard = 1; g_wr_zero = 1; g_win_bad = 0;
    bool r = zero_chunk(tgt, c);
    V_COVER(r && c->comp_length > 2 * BUF_SIZE + 1); V_COVER(r && c->comp_length == 0); V_COVER(!r && in.err0 == 0 && g_wr_bytes[G_IX(tgt->fd)] > in.wr0[G_IX(tgt->fd)]);
}

#ifdef VERIF_NATIVE
#include "replay_in.h"
#endif
