/* Proof units for the local chunk reuse functions of src/lib/dl/dl.c (C08, C12, C05) */
#define VERIF_UTHASH_STUB
#include "spec/verif_zck.h"
#include "spec/ghost.h"
GHOST_DEFS
#include "stubs/libc_mem.h"
GHOST_MEM_DEFS
#include "contracts/io.h"
#include "contracts/hash.h"
#include "contracts/hashfn.h"
#include "contracts/dlcopy.h"
GHOST_COPY_DEFS
#include "extracted_zalloc.c"
#include "src/lib/dl/dl.c"

/* ---- zero_chunk ------------------------------------------------------------------------------- */
typedef struct { zckCtx any; zckChunk anyc; int err0; size_t k2; g_off_t pos0[G_NFD]; size_t wr0[G_NFD]; int failed0; } IN_zc;
V_INPUT(IN_zc)

void h_zero_chunk(void) {
    IN_zc in = nondet_IN_zc();
    V_ASSUME(in.err0 >= 0 && in.err0 <= 2 && (in.failed0 == 0 || in.failed0 == 1));
    zckCtx *tgt = malloc(sizeof(*tgt));
    V_ASSUME(tgt != NULL);
    *tgt = in.any; tgt->error_state = in.err0;
    tgt->fd = 4;   /* fixed descriptor number (constant ghost slot, solver cost); zero_chunk only passes it on */
    zckChunk *c = malloc(sizeof(*c));
    V_ASSUME(c != NULL);
    *c = in.anyc; c->zck = tgt;
    for(int i = 0; i < G_NFD; i++) { g_fpos[i] = in.pos0[i]; g_wr_bytes[i] = in.wr0[i]; }
    g_io_failed = in.failed0; g_k2 = in.k2;
    /* the window is the chunk's extent (no wrap of the extent in the file offset space) */
    g_win_fd = tgt->fd; g_win_lo = CHUNK_LO(tgt, c); g_win_hi = g_win_lo + (g_off_t)c->comp_length;
    V_ASSUME(g_win_hi >= g_win_lo);
    g_win_bad = 0;
    bool r = zero_chunk(tgt, c);
    V_COVER(r && c->comp_length > 2 * BUF_SIZE + 1); V_COVER(r && c->comp_length == 0); V_COVER(!r && in.err0 == 0 && g_wr_bytes[G_IX(tgt->fd)] > in.wr0[G_IX(tgt->fd)]);
}

/* ---- write_and_verify_chunk --------------------------------------------------------------------- */
typedef struct { zckCtx anys, anyt; zckChunk anysc, anytc; int errs, errt, stype; const zckHash *watch; size_t k1, k2, hu_k, hu_total0; unsigned hu_seen0, hu_final0, hu_inits0;
                 g_off_t pos0[G_NFD]; size_t wr0[G_NFD], rd0[G_NFD]; int failed0; } IN_wv;
V_INPUT(IN_wv)

static zckCtx *wv_src, *wv_tgt; static zckChunk *wv_sc, *wv_tc;
static void mk_copy_pair(IN_wv *in) {
#ifdef VERIF_HTYPE
    in->stype = VERIF_HTYPE;   /* case split over the checksum types (units json "variants"): concrete digest lengths */
#endif
    V_ASSUME(in->errs >= 0 && in->errs <= 2 && in->errt >= 0 && in->errt <= 2 && (in->failed0 == 0 || in->failed0 == 1) && SPEC_HASH_VALID(in->stype));
    V_ASSUME(in->hu_final0 < 1000 && in->hu_inits0 < 1000 && in->hu_seen0 < 1000);
    zckCtx *src = malloc(sizeof(*src)), *tgt = malloc(sizeof(*tgt));
    V_ASSUME(src != NULL && tgt != NULL);
    *src = in->anys; *tgt = in->anyt; src->error_state = in->errs; tgt->error_state = in->errt;
    /* descriptor numbers are fixed (distinct ghost slots): constant indices into the per-descriptor ghost arrays keep the
     * solver cost down; the functions under contract only pass the descriptors on */
    src->fd = 3; tgt->fd = 4;
    src->chunk_hash_type.type = in->stype; src->chunk_hash_type.digest_size = SPEC_DIGEST_SIZE(in->stype);
    V_ASSUME(SPEC_HASH_VALID(tgt->chunk_hash_type.type) && tgt->chunk_hash_type.digest_size == SPEC_DIGEST_SIZE(tgt->chunk_hash_type.type));
    zckChunk *sc = malloc(sizeof(*sc)), *tc = malloc(sizeof(*tc));
    V_ASSUME(sc != NULL && tc != NULL);
    *sc = in->anysc; *tc = in->anytc; sc->zck = src; tc->zck = tgt; sc->next = NULL; tc->next = NULL;
    sc->digest_size = src->chunk_hash_type.digest_size; tc->digest_size = tgt->chunk_hash_type.digest_size;
    sc->digest = malloc(sc->digest_size); tc->digest = malloc(tc->digest_size);
    V_ASSUME(sc->digest != NULL && tc->digest != NULL);
    for(int i = 0; i < G_NFD; i++) { g_fpos[i] = in->pos0[i]; g_wr_bytes[i] = in->wr0[i]; g_rd_bytes[i] = in->rd0[i]; }
    g_io_failed = in->failed0; g_k1 = in->k1; g_k2 = in->k2;
    /* the watched digest byte lies inside the digest (an index beyond it makes every "for each digest byte" clause vacuous; CBMC 6.11 also
     * reports a spurious out-of-bounds read inside hash_finalize's assumed contract for such an index) */
    V_ASSUME(g_k1 < (size_t)sc->digest_size);
    g_hu_hash = in->watch; g_hu_k = in->hu_k; g_hu_total = in->hu_total0; g_hu_seen = in->hu_seen0; g_hu_final = in->hu_final0; g_hu_inits = in->hu_inits0;
    wv_src = src; wv_tgt = tgt; wv_sc = sc; wv_tc = tc;
}

void h_write_and_verify_chunk(void) {
    IN_wv in = nondet_IN_wv();
    mk_copy_pair(&in);
    zckCtx *src = wv_src, *tgt = wv_tgt; zckChunk *sc = wv_sc, *tc = wv_tc;
    /* what zck_copy_chunks establishes (proved at its call site in unit zck_copy_chunks) */
    V_ASSUME(tc->digest_size == sc->digest_size && (!(g_k1 < (size_t)tc->digest_size) || tc->digest[g_k1] == sc->digest[g_k1]));
    V_ASSUME(sc->comp_length == tc->comp_length && sc->length == tc->length && tc->valid != 1);
    g_win_fd = tgt->fd; g_win_lo = CHUNK_LO(tgt, tc); g_win_hi = g_win_lo + (g_off_t)tc->comp_length;
    V_ASSUME(g_win_hi >= g_win_lo);
    g_win_bad = 0;
    int valid0 = tc->valid;
    bool r = write_and_verify_chunk(src, tgt, sc, tc);
    V_COVER(r && tc->valid == 1 && tc->comp_length > 2 * BUF_SIZE + 1 && g_hu_final == in.hu_final0 + 1);
    V_COVER(r && tc->valid == -1 && valid0 == 0 && g_hu_final == in.hu_final0 + 1);
    V_COVER(r && tc->valid == 1 && tc->comp_length == 0);
    V_COVER(!r && in.errs == 0 && in.errt == 0 && src->mode == ZCK_MODE_READ && tgt->mode == ZCK_MODE_READ && g_rd_bytes[G_IX(src->fd)] > in.rd0[G_IX(src->fd)]);
}

/* ---- zck_copy_chunks / zck_find_matching_chunks: target list <= 2 entries, source table <= 2 entries ---------------- */
typedef struct { zckCtx anys, anyt; zckChunk anysc[2], anytc[2]; int errs, errt, stype, ttype, nt, ns; int src_null, tgt_null; const zckHash *watch; size_t k1, hu_k, hu_total0; unsigned hu_seen0, hu_final0, hu_inits0;
                 g_off_t pos0[G_NFD]; size_t wr0[G_NFD], rd0[G_NFD]; int failed0; } IN_cp;
V_INPUT(IN_cp)
static zckCtx *cp_src, *cp_tgt;
static zckChunk *mk_node(zckCtx *z, zckChunk *any) {
    zckChunk *c = malloc(sizeof(*c));
    V_ASSUME(c != NULL);
    *c = *any; c->zck = z; c->next = NULL; c->src = (c->valid & 2) ? c : NULL;   /* earlier link: none or itself (a solver-chosen pointer costs a case split over all objects) */
    c->digest_size = z->chunk_hash_type.digest_size;
    c->digest = malloc(c->digest_size);
    V_ASSUME(c->digest != NULL);
    c->digest_uncompressed = NULL;
    if(z->has_uncompressed_source) { c->digest_uncompressed = malloc(c->digest_size); V_ASSUME(c->digest_uncompressed != NULL); }
    return c;
}
static void mk_lists(IN_cp *in) {
#ifdef VERIF_HTYPE
    in->stype = VERIF_HTYPE;
#endif
    V_ASSUME(in->errs >= 0 && in->errs <= 2 && in->errt >= 0 && in->errt <= 2 && (in->failed0 == 0 || in->failed0 == 1) && SPEC_HASH_VALID(in->stype) && SPEC_HASH_VALID(in->ttype));
    V_ASSUME(in->hu_final0 < 1000 && in->hu_inits0 < 1000 && in->hu_seen0 < 1000 && in->nt >= 1 && in->nt <= 2 && in->ns >= 1 && in->ns <= 2);
    zckCtx *src = malloc(sizeof(*src)), *tgt = malloc(sizeof(*tgt));
    V_ASSUME(src != NULL && tgt != NULL);
    *src = in->anys; *tgt = in->anyt; src->error_state = in->errs; tgt->error_state = in->errt;
    src->fd = 3; tgt->fd = 4;   /* fixed descriptor numbers, see mk_copy_pair */
    src->chunk_hash_type.type = in->stype; src->chunk_hash_type.digest_size = SPEC_DIGEST_SIZE(in->stype);
    tgt->chunk_hash_type.type = in->ttype; tgt->chunk_hash_type.digest_size = SPEC_DIGEST_SIZE(in->ttype);
    g_n1 = mk_node(tgt, &in->anytc[0]); g_n2 = in->nt > 1 ? mk_node(tgt, &in->anytc[1]) : NULL; g_n3 = NULL;
    g_n1->next = g_n2; tgt->index.first = g_n1;
    g_s1 = mk_node(src, &in->anysc[0]); g_s2 = in->ns > 1 ? mk_node(src, &in->anysc[1]) : NULL;
    g_cp_valid0[0] = g_n1->valid; g_cp_src0[0] = g_n1->src;
    if(g_n2) { g_cp_valid0[1] = g_n2->valid; g_cp_src0[1] = g_n2->src; }
    for(int i = 0; i < G_NFD; i++) { g_fpos[i] = in->pos0[i]; g_wr_bytes[i] = in->wr0[i]; g_rd_bytes[i] = in->rd0[i]; }
    g_io_failed = in->failed0; g_k1 = in->k1;
    g_hu_hash = in->watch; g_hu_k = in->hu_k; g_hu_total = in->hu_total0; g_hu_seen = in->hu_seen0; g_hu_final = in->hu_final0; g_hu_inits = in->hu_inits0;
    cp_src = src; cp_tgt = tgt;
}

void h_zck_copy_chunks(void) {
    IN_cp in = nondet_IN_cp();
    mk_lists(&in);
    bool r = zck_copy_chunks(cp_src, cp_tgt);
    V_COVER(r && in.nt == 2 && g_cp_valid0[0] == 0 && g_n1->valid == 1 && g_cp_valid0[1] == -1 && g_n2->valid == 1);
    V_COVER(r && in.nt == 2 && g_cp_valid0[0] == 1 && g_cp_valid0[1] == 0 && g_n2->valid == -1);
    V_COVER(r && in.nt == 2 && g_cp_valid0[0] == 0 && g_n1->valid == 0 && g_cp_valid0[1] == 0 && g_n2->valid == 0);
    V_COVER(!r && in.errs == 0 && in.errt == 0 && cp_src->mode == ZCK_MODE_READ && cp_tgt->mode == ZCK_MODE_READ);
}

void h_zck_find_matching_chunks(void) {
    IN_cp in = nondet_IN_cp();
    mk_lists(&in);
    zckCtx *s = in.src_null ? NULL : cp_src, *t = in.tgt_null ? NULL : cp_tgt;
    bool r = zck_find_matching_chunks(s, t);
    V_COVER(r && in.nt == 2 && g_n1->valid == 1 && g_cp_valid0[0] == 0 && g_n1->src == g_s2 && g_n2->valid == 0 && g_cp_valid0[1] == 0 && cp_src->comp.type == cp_tgt->comp.type);
    V_COVER(r && g_n1->valid == 1 && g_cp_valid0[0] == 0 && cp_src->comp.type != cp_tgt->comp.type);
    V_COVER(r && g_n1->valid == 0 && g_cp_valid0[0] == 0 && cp_src->comp.type != cp_tgt->comp.type && !cp_tgt->has_uncompressed_source);
    V_COVER(r && g_cp_valid0[0] == -1 && in.nt == 2 && g_cp_valid0[1] == 0 && g_n2->valid == 1); V_COVER(!r);
}

#ifdef VERIF_NATIVE
#include "replay_in.h"
#endif
