#!/usr/bin/env python3
"""Writes units/mpx.json: unit `mpx` (the real multipart_extract, plain CBMC) with one variant per pair
(fragment length L, carried-buffer length M).  Re-run after changing NMAX / MMAX:  python3 units/gen_mpx.py"""
import json, os
NMAX = int(os.environ.get('MPX_NMAX', 6))     # fragment bytes  0..NMAX   (quick tier)
MMAX = int(os.environ.get('MPX_MMAX', 3))     # carried bytes   0..MMAX   (quick tier)
NTH = int(os.environ.get('MPX_NTH', 10))      # thorough tier: additionally up to NTH x MTH
MTH = int(os.environ.get('MPX_MTH', 6))
GEN = [(6, 0), (3, 3)]                         # variants that enter with NO patterns (real gen_regex executed)

def uws(T):
    return [
        {"function": "multipart_extract", "line_match": r"while\s*\(\s*i\s*\)", "n": 2 * (T // 4) + 5},
        {"function": "multipart_extract", "line_match": r"for\s*\(\s*;\s*j\s*<\s*end", "n": T + 2},
        {"function": "multipart_extract", "line_match": r"match\[1\]\.rm_so", "n": T + 2},
        {"function": "multipart_extract", "line_match": r"match\[2\]\.rm_so", "n": T + 2},
        {"function": "regexec", "line_match": r"__string\[n\]", "n": T + 2},
        {"function": "regexec", "line_match": r"__nmatch", "n": 5},
    ]

def bound(L, M, gen):
    return ("plain CBMC (no contract instrumentation), fragment length l = %d bytes and carried part-header buffer = %d bytes "
            "(lengths fixed per variant, %d bytes in the scanner; the union of the variants is the bound of the unit); "
            "all byte contents, mp->state, mp->length, every other field, every regexec verdict / in-string offsets and every "
            "dl_write_range result arbitrary; the outer state loop, the CRLFCRLF scan, the digit loops and the model's strlen "
            "scan are unwound completely (unwinding assertions); allocation never fails%s"
            % (L, M, L + M, "; no patterns at entry, boundary of 2 arbitrary bytes, real gen_regex executed" if gen else "; both patterns present and compiled at entry"))

variants = []
for L in range(0, max(NMAX, NTH) + 1):
    for M in range(0, max(MMAX, MTH) + 1):
        quick = L <= NMAX and M <= MMAX
        if not quick and not (L <= NTH and M <= MTH):
            continue
        T = L + M
        variants.append({"suffix": "l%d_c%d" % (L, M), "defines": ["MPX_L=%d" % L, "MPX_M=%d" % M],
                         "unwindset": uws(T), "bound": bound(L, M, False),
                         "tier": "quick" if quick else "thorough", "timeout": 600 if quick else 1500})
variants.sort(key=lambda v: (v['tier'] != 'quick', v['suffix'].endswith('_c6')))   # stable: the 6-byte column last
for L, M in GEN:
    variants.append({"suffix": "gen_l%d_c%d" % (L, M), "defines": ["MPX_L=%d" % L, "MPX_M=%d" % M, "MPX_GEN"],
                     "unwindset": uws(L + M), "bound": bound(L, M, True), "tier": "quick"})

unit = {
    "name": "mpx",
    "file": "units/mpx.c",
    "harness": "h_mpx",
    "dfcc": False,
    "extract": [{"file": "src/lib/zck.c", "functions": ["zmalloc", "zrealloc"], "as": "extracted_zalloc.c"}],
    "properties": ["C17", "C05"],
    "mode": "bounded",
    "solver": "cadical",
    "cbmc_flags": ["--no-malloc-may-fail"],
    "timeout": 600,
    "unwind": 90,
    "mem_gb": 8,
    "covers": True,
    "assumes": [
        "regexec by the assumed body model of stubs/regex.h (any verdict; on a match ANY sub-match offsets 0 <= so <= eo <= strlen(subject); asserts that the pattern object is allocated and COMPILED - typestate in re_nsub); regcomp/regfree: the contracts of stubs/regex.h written as bodies (units/mpx.c)",
        "dl_write_range by a stand-in body: asserts that the bytes handed over lie inside the CURRENT buffer (the caller's fragment, or the block realloc handed out once a carried buffer was appended to) and are readable (call-site precondition of contracts/dl_range.h), returns any count in [0, length], may raise the error state; the download-state part of its precondition (DL_STATE) is NOT checked here - multipart.c never writes the fields it reads (frame argument, read from the code)",
        "allocation never fails (--no-malloc-may-fail; calloc/realloc stand-ins return blocks of exactly the requested size as constant-size objects): C17 speaks of bytes delivered, not of memory exhaustion; the two allocation-failure defects of multipart_extract (agent-notes/dl.md F-adv) are outside this unit",
        "--pointer-overflow-check is off (DESIGN section 5): the scanner forms j+4 up to three bytes past the end for comparison only",
        "variants without the suffix gen: both part patterns exist and are compiled at entry (the state after a successful gen_regex, whose contract is proved by unit gen_regex); variants gen_*: no pattern at entry, the real gen_regex / add_boundary_to_regex / create_regex bodies are executed with snprintf by a stand-in body (writes a NUL inside the first n bytes of the destination, any return value)",
    ],
    "unchecked": [
        {"key": r"^multipart_extract/pointer_arithmetic/pointer relation: pointer outside object bounds in (i|j \+ 4)$",
         "line_match": r"^( {8}if\(i >= end\)| {12}if\(j \+ 4 >= end\))",
         "reason": "DESIGN section 5, unchecked class: near the end of the buffer the CRLFCRLF scan forms j+4 (and stores it in i) up to three bytes past the end of the buffer and only COMPARES it with end (never dereferenced: the dereference checks of the same lines are checked). Strictly this is undefined in ISO C (pointer more than one past the end); on the flat address space of every supported platform it is a plain integer comparison."}
    ],
    "variants": variants,
}
json.dump([unit], open(os.path.join(os.path.dirname(os.path.abspath(__file__)), 'mpx.json'), 'w'), indent=1)
print(len(variants), "variants")
