/* Proof units for src/lib/hash/hash.c */
#include "spec/verif_zck.h"
#include "spec/ghost.h"
GHOST_DEFS
#include "contracts/hash.h"
#include "src/lib/hash/hash.c"

typedef struct { int h; int type0, size0; int zck_null, err0; } IN_hs;
V_INPUT(IN_hs)

void h_hash_setup(void) {
    IN_hs in = nondet_IN_hs();
    zckCtx *zck = NULL;
    if(!in.zck_null) { zck = calloc(1, sizeof(*zck)); V_ASSUME(zck != NULL); zck->error_state = in.err0; }
    zckHashType *ht = malloc(sizeof(*ht));
    V_ASSUME(ht != NULL);
    ht->type = in.type0; ht->digest_size = in.size0;
    bool r = hash_setup(zck, ht, in.h);
    V_ASSERT(r == SPEC_HASH_VALID(in.h), "C07,C13,C18.hash_setup.accept_iff_known_type");
    V_ASSERT(!r || (ht->type == in.h && ht->digest_size == SPEC_DIGEST_SIZE(in.h)), "C07,C13,C18.hash_setup.digest_size_of_type");
    V_COVER(r && in.h == 3); V_COVER(r && in.h == 0); V_COVER(!r && in.h < 0); V_COVER(!r && in.h > 3);
}

#ifdef VERIF_NATIVE
#include "replay_in.h"
#endif
