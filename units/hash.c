/* Proof units for src/lib/hash/hash.c */
#include "spec/verif_zck.h"
#include "spec/ghost.h"
GHOST_DEFS
#include "contracts/hash.h"
#include "contracts/hashfn.h"      /* hash_init / hash_update / hash_finalize: the text every caller unit assumes */
#include "contracts/hash_close.h"
#include "stubs/libhash.h"         /* assumed ghost-recording contracts of the back end lib_hash_* */
#include "src/lib/hash/hash.c"

typedef struct { int h; int type0, size0; int zck_null, err0; } IN_hs;
V_INPUT(IN_hs)

void h_hash_setup(void) {
    IN_hs in = nondet_IN_hs();
    zckCtx *zck = NULL;
    if(!in.zck_null) { zck = calloc(1, sizeof(*zck)); V_ASSUME(zck != NULL); zck->error_state = in.err0; }
    zckHashType *ht = malloc(sizeof(*ht));
    V_ASSUME(ht != NULL);
    ht->type = in.type0; ht->digest_size = in.size0;
    bool r = hash_setup(zck, ht, in.h);
    V_ASSERT(r == SPEC_HASH_VALID(in.h), "C07,C13,C18.hash_setup.accept_iff_known_type");
    V_ASSERT(!r || (ht->type == in.h && ht->digest_size == SPEC_DIGEST_SIZE(in.h)), "C07,C13,C18.hash_setup.digest_size_of_type");
    V_COVER(r && in.h == 3); V_COVER(r && in.h == 0); V_COVER(!r && in.h < 0); V_COVER(!r && in.h > 3);
}

/* ---- hash_init / hash_update / hash_finalize / hash_close: the contracts of contracts/hashfn.h ENFORCED on the
 * real functions, back end lib_hash_* by the assumed ghost-recording contracts of stubs/libhash.h ---- */
typedef struct { zckCtx zany; zckHash hany; int zck_null, hash_null, ctx_live, type_set, ht_null, type, dsz, watched; size_t size; int msg_null;
                 size_t hu_total0, hu_k, k1; unsigned hu_seen0, hu_final0, hu_inits0; } IN_hg;
V_INPUT(IN_hg)
static zckCtx *hg_zck(IN_hg *in) { if(in->zck_null) return NULL; zckCtx *z = malloc(sizeof(*z)); V_ASSUME(z != NULL); *z = in->zany; V_ASSUME(z->error_state >= 0 && z->error_state <= 2); return z; }
static zckHashType *hg_type(IN_hg *in) { zckHashType *t = malloc(sizeof(*t)); V_ASSUME(t != NULL); t->type = in->type; t->digest_size = in->dsz; return t; }
static zckHash *hg_hash(IN_hg *in) {
    zckHash *h = malloc(sizeof(*h)); V_ASSUME(h != NULL); *h = in->hany;
    h->ctx = NULL; h->type = NULL;
    if(in->ctx_live) { h->ctx = malloc(1); V_ASSUME(h->ctx != NULL); }
    if(in->type_set) h->type = hg_type(in);
    V_ASSUME(in->hu_final0 < 1000 && in->hu_inits0 < 1000 && in->hu_seen0 < 1000 && in->hu_total0 < ((size_t)1 << 60));
    g_hu_hash = in->watched ? h : NULL; g_hu_total = in->hu_total0; g_hu_k = in->hu_k; g_hu_seen = in->hu_seen0;
    g_hu_final = in->hu_final0; g_hu_inits = in->hu_inits0; g_k1 = in->k1;
    return h;
}
void h_hash_init(void) {
    IN_hg in = nondet_IN_hg();
#ifdef VERIF_HT_SET
    V_ASSUME(!in.ht_null);
#elif defined(VERIF_HT_NULL)
    V_ASSUME(in.ht_null);
#endif
    zckCtx *zck = hg_zck(&in); zckHash *h = hg_hash(&in);
    zckHashType *ht = in.ht_null ? NULL : hg_type(&in);
    bool r = hash_init(zck, h, ht);
#ifdef VERIF_HT_NULL
    V_COVER(!r && in.ctx_live);
#else
    V_COVER(r && in.type == 3 && in.ctx_live && in.watched); V_COVER(!r && in.type == 7); V_COVER(!r && in.type == 1); V_COVER(r && !in.watched && zck == NULL);
#endif
}
void h_hash_update(void) {
    IN_hg in = nondet_IN_hg();
    zckCtx *zck = hg_zck(&in); zckHash *h = in.hash_null ? NULL : hg_hash(&in);
    char *m = NULL;
    if(!in.msg_null) { m = malloc(in.size); V_ASSUME(m != NULL); }
    bool r = hash_update(zck, h, m, in.size);
    V_COVER(r && m != NULL && in.size == 9 && in.watched && g_hu_seen == in.hu_seen0 + 1); V_COVER(r && m == NULL); V_COVER(!r && m == NULL); V_COVER(!r && m != NULL && in.size == 0);
    V_COVER(!r && h != NULL && in.ctx_live && in.type_set && in.size > 0 && m != NULL); V_COVER(!r && h == NULL);
}
void h_hash_finalize(void) {
    IN_hg in = nondet_IN_hg();
    zckCtx *zck = hg_zck(&in); zckHash *h = hg_hash(&in);
    char *d = hash_finalize(zck, h);
    V_COVER(d != NULL && in.type == 3 && in.watched); V_COVER(d == NULL && !in.ctx_live); V_COVER(d == NULL && in.ctx_live && in.type_set && in.type == 2); V_COVER(d == NULL && in.type == 9 && in.ctx_live && in.type_set);
}
void h_hash_close(void) {
    IN_hg in = nondet_IN_hg();
    zckHash *h = in.hash_null ? NULL : hg_hash(&in);
    hash_close(h);
    V_COVER(h == NULL); V_COVER(h != NULL && in.ctx_live); V_COVER(h != NULL && !in.ctx_live && in.type_set);
}

#ifdef VERIF_NATIVE
#include "replay_in.h"
#endif
