/* Proof units for the checksum verdict functions of src/lib/hash/hash.c (C02, C06, C09, C15) */
#include "spec/verif_zck.h"
#include "spec/ghost.h"
GHOST_DEFS
#include "contracts/io.h"
#include "contracts/hash.h"
#include "contracts/hashfn.h"
#include "contracts/index.h"
#include "extracted_zalloc.c"
#include "src/lib/hash/hash.c"

typedef struct {
    int err0, mode, type, ctype; int ctx_live, type_set;
    size_t hu_total0, hu_k, k1; int hu_seen0, hu_final0, hu_inits0;
    unsigned char stored[SPEC_MAX_DIGEST];         /* stored (expected) digest */
    size_t comp_length; int valid0; size_t number; int hus;
} IN_hv;
V_INPUT(IN_hv)

/* case split over the four checksum types (units.json "variants"): a concrete type makes every
 * digest length concrete, so memcmp/memset over the digest need no symbolic-length model */
#ifdef VERIF_HTYPE
#define FIX_TYPE(in) do { (in).type = VERIF_HTYPE; (in).ctype = VERIF_HTYPE; } while(0)
#else
#define FIX_TYPE(in) ((void)0)
#endif
static void ghost_setup(IN_hv *in, zckHash *watched) {
    g_hu_hash = watched; g_hu_total = in->hu_total0; g_hu_k = in->hu_k; g_hu_seen = in->hu_seen0;
    g_hu_final = in->hu_final0; g_hu_inits = in->hu_inits0; g_k1 = in->k1;
    V_ASSUME(in->hu_final0 >= 0 && in->hu_final0 < 1000 && in->hu_inits0 >= 0 && in->hu_inits0 < 1000 && in->hu_seen0 >= 0 && in->hu_seen0 < 1000);
}

/* ---- validate_header ---- */
void h_validate_header(void) {
    IN_hv in = nondet_IN_hv();
    FIX_TYPE(in);
    V_ASSUME(in.err0 >= 0 && in.err0 <= 2 && SPEC_HASH_VALID(in.type));
    zckCtx *zck = calloc(1, sizeof(*zck));
    V_ASSUME(zck != NULL);
    zck->mode = in.mode; zck->error_state = in.err0;
    zck->hash_type.type = in.type; zck->hash_type.digest_size = SPEC_DIGEST_SIZE(in.type);
    zck->header_digest = malloc(SPEC_DIGEST_SIZE(in.type));
    V_ASSUME(zck->header_digest != NULL);
    V_TIE64(zck->header_digest, SPEC_DIGEST_SIZE(in.type), (char *)in.stored, 0);
    if(in.ctx_live) { zck->check_full_hash.ctx = malloc(1); V_ASSUME(zck->check_full_hash.ctx != NULL); }
    if(in.type_set) zck->check_full_hash.type = &zck->hash_type;
    ghost_setup(&in, &zck->check_full_hash);
    int r = validate_header(zck);
    V_COVER(r == 1); V_COVER(r == -1); V_COVER(r == 0 && in.err0 == 0); V_COVER(r == 1 && g_k1 == 15);
}

/* ---- validate_chunk / validate_current_chunk ---- */
static zckChunk *mk_chunk_ctx(IN_hv *in) {
    V_ASSUME(in->err0 >= 0 && in->err0 <= 2 && SPEC_HASH_VALID(in->ctype));
    zckCtx *zck = calloc(1, sizeof(*zck));
    V_ASSUME(zck != NULL);
    zck->mode = in->mode; zck->error_state = in->err0;
    zck->chunk_hash_type.type = in->ctype; zck->chunk_hash_type.digest_size = SPEC_DIGEST_SIZE(in->ctype);
    zckChunk *c = calloc(1, sizeof(*c));
    V_ASSUME(c != NULL);
    c->zck = zck; c->digest_size = SPEC_DIGEST_SIZE(in->ctype);
    c->digest = malloc(c->digest_size);
    V_ASSUME(c->digest != NULL);
    V_TIE64(c->digest, c->digest_size, (char *)in->stored, 0);
    c->comp_length = in->comp_length; c->valid = in->valid0; c->number = in->number;
    if(in->ctx_live) { zck->check_chunk_hash.ctx = malloc(1); V_ASSUME(zck->check_chunk_hash.ctx != NULL); }
    if(in->type_set) zck->check_chunk_hash.type = &zck->chunk_hash_type;
    ghost_setup(in, &zck->check_chunk_hash);
    return c;
}

void h_validate_chunk(void) {
    IN_hv in = nondet_IN_hv();
    FIX_TYPE(in);
    zckChunk *c = mk_chunk_ctx(&in);
    int r = validate_chunk(c, ZCK_LOG_ERROR);
    V_COVER(r == 1 && in.comp_length > 0); V_COVER(r == 1 && in.comp_length == 0); V_COVER(r == -1 && in.err0 == 0);
    V_COVER(r == 0 && in.err0 == 0); V_COVER(r == 1 && in.valid0 == -1);
}

void h_validate_current_chunk(void) {
    IN_hv in = nondet_IN_hv();
    FIX_TYPE(in);
    zckChunk *c = mk_chunk_ctx(&in);
    c->zck->comp.data_idx = c;
    int r = validate_current_chunk(c->zck);
    V_COVER(r == 1); V_COVER(r == -1 && in.err0 == 0); V_COVER(r == 0 && in.err0 > 0);
}

/* ---- validate_file ---- */
void h_validate_file(void) {
    IN_hv in = nondet_IN_hv();
    FIX_TYPE(in);
    V_ASSUME(in.err0 >= 0 && in.err0 <= 2 && SPEC_HASH_VALID(in.type));
    zckCtx *zck = calloc(1, sizeof(*zck));
    V_ASSUME(zck != NULL);
    zck->mode = in.mode; zck->error_state = in.err0; zck->has_uncompressed_source = in.hus;
    zck->hash_type.type = in.type; zck->hash_type.digest_size = SPEC_DIGEST_SIZE(in.type);
    zck->full_hash_digest = malloc(SPEC_DIGEST_SIZE(in.type));
    V_ASSUME(zck->full_hash_digest != NULL);
    V_TIE64(zck->full_hash_digest, SPEC_DIGEST_SIZE(in.type), (char *)in.stored, 0);
    if(in.ctx_live) { zck->check_full_hash.ctx = malloc(1); V_ASSUME(zck->check_full_hash.ctx != NULL); }
    if(in.type_set) zck->check_full_hash.type = &zck->hash_type;
    ghost_setup(&in, &zck->check_full_hash);
    int r = validate_file(zck, ZCK_LOG_WARNING);
    V_COVER(r == 1 && in.hus == 0); V_COVER(r == 1 && in.hus != 0); V_COVER(r == -1); V_COVER(r == 0 && in.err0 == 0);
}


/* ---- set_chunk_hash_type ---- */
typedef struct { int h, err0, mode; int t0, s0; } IN_sc;
V_INPUT(IN_sc)
void h_set_chunk_hash_type(void) {
    IN_sc in = nondet_IN_sc();
    V_ASSUME(in.err0 >= 0 && in.err0 <= 2);
    zckCtx *zck = calloc(1, sizeof(*zck));
    V_ASSUME(zck != NULL);
    zck->mode = in.mode; zck->error_state = in.err0; zck->chunk_hash_type.type = in.t0; zck->chunk_hash_type.digest_size = in.s0;
    bool r = set_chunk_hash_type(zck, in.h);
    V_ASSERT(!r || zck->index.digest_size == (size_t)SPEC_DIGEST_SIZE(in.h), "C13,C03.set_chunk_hash_type.digest_size_of_type");
    V_COVER(r && in.h == 3); V_COVER(!r && in.err0 == 0); V_COVER(r && in.h == 0);
}

#ifdef VERIF_NATIVE
#include "replay_in.h"
#endif
