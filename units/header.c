/* Proof units for src/lib/header.c (C03, C06, C07, C13) */
#include "spec/verif_zck.h"
#include "spec/ghost.h"
GHOST_DEFS
#include "contracts/io.h"
#include "contracts/compint.h"
#include "contracts/hash.h"
#include "contracts/hashfn.h"
#include "contracts/comp.h"
#include "contracts/header.h"
#include "extracted_zalloc.c"    /* zmalloc, zrealloc: verbatim from src/lib/zck.c   */
#include "extracted_hash.c"      /* hash_reset: verbatim from src/lib/hash/hash.c    */
#ifdef VERIF_NATIVE
/* native replay only: the call read_index -> index_read is intercepted so that the limit the real
 * read_index computes can be compared with the buffer it points into (this is the precondition of
 * index_read's contract, evaluated on the real code's arguments) */
static bool verif_index_read_probe(zckCtx *zck, char *data, size_t size, size_t max_length) {
    size_t off = (size_t)(data - zck->header);
    V_ASSERT(data >= zck->header && off <= zck->header_size && size <= max_length && max_length <= zck->header_size - off,
             "C03.read_index.limit_passed_to_index_read_lies_inside_the_header_buffer");
    zck->index.first = calloc(1, sizeof(zckChunk)); zck->index.count = 1;
    return true;
}
#define index_read verif_index_read_probe
#endif
#include "src/lib/header.c"

/* ---------------------------------------------------------------- read_lead -------------- */
typedef struct {
    int fd, mode, err0;
    int prep_hash_type; ssize_t prep_hdr_size; int have_prep_digest; unsigned char prep_digest[SPEC_MAX_DIGEST];
    size_t k1; int watch_on; g_off_t watch_off; g_off_t pos0;
    int header_only0;
} IN_rl;
V_INPUT(IN_rl)

static zckCtx *mk_lead_ctx(IN_rl *in) {
    zckCtx *z = calloc(1, sizeof(*z));
    V_ASSUME(z != NULL);
    z->fd = in->fd; z->mode = in->mode; z->error_state = in->err0;
    z->prep_hash_type = in->prep_hash_type; z->prep_hdr_size = in->prep_hdr_size;
    z->header_only = in->header_only0 != 0;
    if(in->have_prep_digest) {
        /* pins come from zck_set_ioption/zck_set_soption: type valid, digest of exactly its size */
        V_ASSUME(SPEC_HASH_VALID(in->prep_hash_type));
        size_t n = SPEC_DIGEST_SIZE(in->prep_hash_type);
        z->prep_digest = malloc(n);
        V_ASSUME(z->prep_digest != NULL);
        memcpy(z->prep_digest, in->prep_digest, n);
    }
    g_k1 = in->k1;
    g_fpos[G_IX(in->fd)] = in->pos0;
    g_watch_fd = in->watch_on ? in->fd : -1; g_watch_off = in->watch_off; g_watch_seen = 0;
    return z;
}

void h_read_lead(void) {
    IN_rl in = nondet_IN_rl();
    V_ASSUME(in.err0 >= 0 && in.err0 <= 2);
    zckCtx *zck = mk_lead_ctx(&in);
    bool r = read_lead(zck);
    V_COVER(r && zck->hash_type.type == 3);           /* 16-byte digest: lead shorter than the first read */
    V_COVER(r && zck->hash_type.type == 2);           /* 64-byte digest: second read needed */
    V_COVER(r && in.have_prep_digest && in.prep_hdr_size >= 0);
    V_COVER(r && zck->header_only && !in.header_only0);
    V_COVER(!r && in.err0 == 0 && in.mode == ZCK_MODE_READ);
    V_COVER(r && in.watch_on && g_watch_seen);
}

/* ------------------------------------------------------ read_header_from_file ---------- */
typedef struct {
    int fd, mode, err0, type; size_t hdr_digest_loc, header_length;
    int ctx_live, type_set; size_t hu_total0, hu_k; int hu_seen0, hu_final0, hu_inits0;
    size_t k1, k2; int watch_on; g_off_t watch_off, pos0;
} IN_rh;
V_INPUT(IN_rh)

void h_read_header_from_file(void) {
    IN_rh in = nondet_IN_rh();
    V_ASSUME(in.err0 >= 0 && in.err0 <= 2 && SPEC_HASH_VALID(in.type));
    V_ASSUME(in.hdr_digest_loc >= 7 && in.hdr_digest_loc <= LEAD_MIN);
    zckCtx *zck = calloc(1, sizeof(*zck));
    V_ASSUME(zck != NULL);
    zck->fd = in.fd; zck->mode = in.mode; zck->error_state = in.err0;
    zck->hash_type.type = in.type; zck->hash_type.digest_size = SPEC_DIGEST_SIZE(in.type);
    zck->hdr_digest_loc = in.hdr_digest_loc;
    zck->lead_size = in.hdr_digest_loc + (size_t)SPEC_DIGEST_SIZE(in.type);
    zck->header_length = in.header_length;
    zck->header_size = zck->lead_size > LEAD_MIN ? zck->lead_size : LEAD_MIN;
    zck->header = malloc(zck->header_size);            /* content: arbitrary (what read_lead read) */
    V_ASSUME(zck->header != NULL);
    zck->lead_string = zck->header;
    zck->header_digest = malloc(SPEC_DIGEST_SIZE(in.type));
    V_ASSUME(zck->header_digest != NULL);
    if(in.ctx_live) { zck->check_full_hash.ctx = malloc(1); V_ASSUME(zck->check_full_hash.ctx != NULL); }
    if(in.type_set) zck->check_full_hash.type = &zck->hash_type;
    g_hu_hash = &zck->check_full_hash; g_hu_total = in.hu_total0; g_hu_k = in.hu_k; g_hu_seen = in.hu_seen0;
    g_hu_final = in.hu_final0; g_hu_inits = in.hu_inits0;
    V_ASSUME(in.hu_final0 >= 0 && in.hu_final0 < 1000 && in.hu_inits0 >= 0 && in.hu_inits0 < 1000 && in.hu_seen0 >= 0 && in.hu_seen0 < 1000);
    g_k1 = in.k1; g_k2 = in.k2;
    if(g_k2 < zck->header_size) g_old_byte = zck->header[g_k2];
    g_fpos[G_IX(in.fd)] = in.pos0;
    g_watch_fd = in.watch_on ? in.fd : -1; g_watch_off = in.watch_off; g_watch_seen = 0;
    bool r = read_header_from_file(zck);
    V_COVER(r && zck->header_length > 100000);
    V_COVER(r && zck->header_size == LEAD_MIN);          /* everything already loaded by read_lead */
    V_COVER(r && in.type == 3 && g_hu_k == 3);
    V_COVER(!r && in.err0 == 0 && in.mode == ZCK_MODE_READ);
    V_COVER(r && in.watch_on && g_watch_seen);
}


/* --------------------------------------------- read_preface / read_index / read_sig ------- */
/* a context as read_lead + read_header_from_file leave it: exact-size buffer lead ‖ header  */
#define PRE_N 192
#ifndef VERIF_HDR_MAX
#define VERIF_HDR_MAX (((size_t)1 << 33))
#endif
typedef struct {
    int fd, mode, err0, type; size_t hdr_digest_loc, header_length;
    unsigned char pre[PRE_N];          /* first PRE_N bytes of the header buffer (lead ‖ header), tied at constant indices */
    size_t preface_size, index_size;   /* state left by earlier stages (read_index / read_sig units) */
    size_t k1; int comp_started0; int hso0, hoe0, hus0;
} IN_hp;
V_INPUT(IN_hp)

static zckCtx *mk_loaded_ctx(IN_hp *in) {
    V_ASSUME(in->err0 >= 0 && in->err0 <= 2 && SPEC_HASH_VALID(in->type));
    V_ASSUME(in->hdr_digest_loc >= 7 && in->hdr_digest_loc <= LEAD_MIN);
    V_ASSUME(in->header_length <= VERIF_HDR_MAX);
    zckCtx *zck = calloc(1, sizeof(*zck));
    V_ASSUME(zck != NULL);
    zck->fd = in->fd; zck->mode = in->mode; zck->error_state = in->err0;
    zck->hash_type.type = in->type; zck->hash_type.digest_size = SPEC_DIGEST_SIZE(in->type);
    zck->hdr_digest_loc = in->hdr_digest_loc;
    zck->lead_size = in->hdr_digest_loc + (size_t)SPEC_DIGEST_SIZE(in->type);
    zck->header_length = in->header_length;
    zck->header_size = zck->lead_size + zck->header_length;
    zck->header = malloc(zck->header_size);
    V_ASSUME(zck->header != NULL);
    V_TIE192(zck->header, zck->header_size, (char *)in->pre, 0);
    zck->lead_string = zck->header;
    zck->header_digest = malloc(SPEC_DIGEST_SIZE(in->type));
    V_ASSUME(zck->header_digest != NULL);
    zck->comp.started = in->comp_started0;
    zck->has_streams = in->hso0; zck->has_optional_elems = in->hoe0; zck->has_uncompressed_source = in->hus0;
    g_k1 = in->k1;
    return zck;
}

#ifdef VERIF_NATIVE
/* zchunk_format.txt, preface: returns the offset just past the index-size field, or (size_t)-1 if
 * the preface is malformed (a field or an optional element does not fit inside the header) */
static size_t spec_preface_end(const char *p, size_t hl, size_t ds) {
    size_t o = ds, n; v_u128 v;
    if(ds > hl) return (size_t)-1;
    n = spec_ci_len(p + o, hl - o); if(n < 1) return (size_t)-1;
    v_u128 flags = spec_ci_val(p + o, n); o += n;
    n = spec_ci_len(p + o, hl - o); if(n < 1) return (size_t)-1;
    o += n;
    if(flags & 2) {
        n = spec_ci_len(p + o, hl - o); if(n < 1) return (size_t)-1;
        v_u128 cnt = spec_ci_val(p + o, n); o += n;
        for(v_u128 i = 0; i < cnt; i++) {
            n = spec_ci_len(p + o, hl - o); if(n < 1) return (size_t)-1;
            o += n;
            n = spec_ci_len(p + o, hl - o); if(n < 1) return (size_t)-1;
            v = spec_ci_val(p + o, n); o += n;
            if(v > (v_u128)(hl - o)) return (size_t)-1;       /* element data must lie inside the header */
            o += (size_t)v;
        }
    }
    n = spec_ci_len(p + o, hl - o); if(n < 1) return (size_t)-1;
    return o + n;
}
#endif

void h_read_preface(void) {
    IN_hp in = nondet_IN_hp();
    zckCtx *zck = mk_loaded_ctx(&in);
    bool r = read_preface(zck);
#ifdef VERIF_NATIVE
    V_ASSERT(!r || post_read_preface(zck), "C13.read_preface.flags_comp_type_index_size_preface_size_are_the_stored_ones");
    /* native replay only: the specification-derived parser (with its loop over optional elements)
     * must accept every preface that read_preface accepts, with the same cursor */
    V_ASSERT(!r || spec_preface_end(zck->header + zck->lead_size, zck->header_length, (size_t)zck->hash_type.digest_size) == zck->preface_size,
             "C13,C03.read_preface.accepted_preface_is_wellformed_per_format_document");
#endif
    V_COVER(r && zck->has_optional_elems == 0 && zck->has_uncompressed_source != 0 && zck->index_size > 1000);
    V_COVER(r && zck->has_optional_elems != 0 && zck->preface_size > 200);
    V_COVER(r && zck->comp.type == ZCK_COMP_ZSTD && in.type == 2);
    V_COVER(!r && in.err0 == 0 && in.mode == ZCK_MODE_READ);
}

void h_read_index(void) {
    IN_hp in = nondet_IN_hp();
    zckCtx *zck = mk_loaded_ctx(&in);
    V_ASSUME(in.preface_size <= in.header_length && in.index_size <= (size_t)INT_MAX);
    zck->preface_string = zck->header + zck->lead_size;
    zck->preface_size = in.preface_size; zck->index_size = in.index_size;
    bool r = read_index(zck);
    V_COVER(r && zck->header_size > ((size_t)1 << 32));   /* headers beyond 2^31: max_length must not be narrowed */
    V_COVER(r && zck->index_size == 3);
    V_COVER(!r && in.err0 == 0 && in.mode == ZCK_MODE_READ);
}

void h_read_sig(void) {
    IN_hp in = nondet_IN_hp();
    zckCtx *zck = mk_loaded_ctx(&in);
    V_ASSUME(in.preface_size <= in.header_length && in.index_size <= (size_t)INT_MAX);
    V_ASSUME(in.preface_size + in.index_size <= in.header_length);
    zck->preface_string = zck->header + zck->lead_size;
    zck->preface_size = in.preface_size; zck->index_size = in.index_size;
    zck->index_string = zck->header + (zck->lead_size + zck->preface_size);
    bool r = read_sig(zck);
    V_COVER(r && zck->sig_size == 1);
    V_COVER(r && zck->sig_size == 3);                     /* non-minimal encoding of 0 */
    V_COVER(!r && in.err0 == 0 && in.mode == ZCK_MODE_READ);
}

#ifdef VERIF_NATIVE
#include "replay_in.h"
#endif
