/* Proof units for the header-building side of src/lib/header.c: lead_create, preface_create, sig_create,
 * header_create (C01 sizes/layout/allocations, C06 writer-side checksum coverage, C13 fields). */
#include "spec/verif_zck.h"
#include "spec/ghost.h"
GHOST_DEFS
#include "spec/ghost_close.h"
GHOST_CLOSE_DEFS
#include "contracts/io.h"
#include "contracts/compint.h"
#include "contracts/hash.h"
#include "contracts/hashfn.h"
#include "contracts/headerw.h"
#include "extracted_zalloc.c"    /* zmalloc, zrealloc: verbatim from src/lib/zck.c */
#include "src/lib/header.c"

typedef struct { zckCtx any; int htype; int digest_live, hd_live; size_t k1, hu_k; const zckHash *watch; size_t hu_total0; unsigned hu_seen0, hu_final0, hu_inits0; } IN_hw;
V_INPUT(IN_hw)

static zckCtx *mk_hctx(IN_hw *in) {
    V_ASSUME(SPEC_HASH_VALID(in->htype));
    V_ASSUME(in->hu_final0 < 1000 && in->hu_inits0 < 1000 && in->hu_seen0 < 1000);
    zckCtx *zck = malloc(sizeof(*zck));
    V_ASSUME(zck != NULL);
    *zck = in->any;
    zck->hash_type.type = in->htype; zck->hash_type.digest_size = SPEC_DIGEST_SIZE(in->htype);
    zck->full_hash_digest = NULL;
    if(in->digest_live) { zck->full_hash_digest = malloc(zck->hash_type.digest_size); V_ASSUME(zck->full_hash_digest != NULL); }
    zck->header_digest = NULL;
    if(in->hd_live) { zck->header_digest = malloc(1); V_ASSUME(zck->header_digest != NULL); }
    zck->full_hash.ctx = NULL; zck->full_hash.type = NULL;
    g_k1 = in->k1; g_hu_k = in->hu_k; g_hu_hash = in->watch;
    g_hu_total = in->hu_total0; g_hu_seen = in->hu_seen0; g_hu_final = in->hu_final0; g_hu_inits = in->hu_inits0;
    g_res_ec = 1; g_res_hc = 0;
    return zck;
}

void h_lead_create(void) {
    IN_hw in = nondet_IN_hw();
    zckCtx *zck = mk_hctx(&in);
    bool r = lead_create(zck);
    V_COVER(r && in.htype == 1 && zck->header_length == 300);
    V_COVER(r && in.htype == 2 && zck->hdr_digest_loc == 16);     /* 5 + 1 + 10: the longest header-length field */
    V_COVER(!r);
}

void h_preface_create(void) {
    IN_hw in = nondet_IN_hw();
    zckCtx *zck = mk_hctx(&in);
    V_ASSUME(in.digest_live);
    bool r = preface_create(zck);
    V_COVER(r && in.htype == 0 && zck->comp.type == 2 && zck->has_uncompressed_source != 0);
    V_COVER(r && in.htype == 2 && zck->preface_size == 64 + 1 + 2 + 10);   /* the longest preface (the codec number is a byte) */
    V_COVER(!r && in.any.error_state == 0 && in.any.mode == ZCK_MODE_WRITE);             /* allocation failure */
    V_COVER(!r && in.any.mode != ZCK_MODE_WRITE);
}

void h_sig_create(void) {
    IN_hw in = nondet_IN_hw();
    zckCtx *zck = mk_hctx(&in);
    bool r = sig_create(zck);
    V_COVER(r && zck->sigs.count == 0);
    V_COVER(r && zck->sigs.count == 1000000);
    V_COVER(!r && in.any.sigs.count < 0);
}

void h_header_create(void) {
    IN_hw in = nondet_IN_hw();
    zckCtx *zck = mk_hctx(&in);
    V_ASSUME(zck->mode != ZCK_MODE_WRITE || (zck->comp.dc_data_size == 0 && zck->work_index_item == NULL));
    unsigned inits0 = g_hu_inits;
    bool r = header_create(zck);
    V_COVER(r && g_hu_inits == inits0 + 1 && g_hu_k == 3);                          /* the solver picked the header hash; a lead byte */
    V_COVER(r && g_hu_inits == inits0 + 1 && g_hu_k >= zck->hdr_digest_loc && g_hu_k < zck->hdr_digest_loc + zck->header_length);   /* a byte behind the slot */
    V_COVER(r && g_hu_inits == inits0);
    V_COVER(!r && in.any.error_state == 0 && in.any.mode == ZCK_MODE_WRITE);
    V_COVER(!r && in.any.mode != ZCK_MODE_WRITE);
}

#ifdef VERIF_NATIVE
#include "replay_in.h"
#endif
