/* Units for src/lib/index/index_read.c (C03, C13).  The list-building loop is unwound: BOUNDED
 * (at most IDX_K entries; every buffer content and size up to IDX_BUF bytes). */
#define VERIF_UTHASH_STUB 1
#include "spec/verif_zck.h"
#include "spec/ghost.h"
GHOST_DEFS
#include "spec/spec_compint.h"
#include "spec/spec_hash.h"
/* plain CBMC unit (no contract instrumentation): the real bodies of index_read, compint_to_size,
 * compint_to_int, set_chunk_hash_type and hash_setup are executed symbolically; obligations are
 * CBMC's generated memory-safety checks plus the assertions of the specification-derived walk */
#include "extracted_zalloc.c"
#include "src/lib/compint.c"
#include "src/lib/hash/hash.c"
zckChunk *verif_uthash_find(zckChunk *head, const void *key, size_t len, int uncomp) {
#ifdef VERIF_NATIVE
    return NULL;
#else
    _Bool nondet_bool(void);
    return nondet_bool() ? NULL : head;      /* assumed uthash contract: NULL or some element of the table */
#endif
}
#include "src/lib/index/index_read.c"

#ifndef IDX_BUF
#define IDX_BUF 144
#endif
typedef struct { unsigned char b[IDX_BUF]; size_t size, max; int err0, mode, hus; size_t k1; } IN_ix;
V_INPUT(IN_ix)

void h_index_read(void) {
    IN_ix in = nondet_IN_ix();
    V_ASSUME(in.max <= IDX_BUF && in.size <= in.max && in.err0 >= 0 && in.err0 <= 2);
    char *data = malloc(in.max);                     /* exact size: bounds check = guard page */
    V_ASSUME(data != NULL);
    V_TIE128(data, in.max, (char *)in.b, 0); V_TIE16(data, in.max, (char *)in.b, 128);
#ifdef VERIF_HOTHER
    V_ASSUME(!(in.max >= 1 && (unsigned char)data[0] >= 0x80 && (unsigned char)data[0] <= 0x83));   /* every first byte that is not a one-byte encoding of a known type */
#endif
#ifdef VERIF_HTYPE
    V_ASSUME(in.max >= 1 && (unsigned char)data[0] == (0x80 | VERIF_HTYPE));   /* case split: chunk checksum type of this variant (other first bytes: variant .other) */
#endif
    zckCtx *zck = calloc(1, sizeof(*zck));
    V_ASSUME(zck != NULL);
    zck->mode = in.mode; zck->error_state = in.err0; zck->has_uncompressed_source = in.hus;
    g_k1 = in.k1;
    bool r = index_read(zck, data, in.size, in.max);
    if(r) {
        /* specification-derived walk over the same bytes (zchunk_format.txt, "Index") */
        size_t o = 0, n;
        n = hspec_ci_len(data + o, in.max - o); o += n;                    /* chunk checksum type */
        size_t ds = zck->index.digest_size;
        n = hspec_ci_len(data + o, in.max - o);
        v_u128 declared = hspec_ci_val(data + o, n); o += n;              /* chunk count          */
        zckChunk *c = zck->index.first;
        size_t start = 0, i = 0;
        while(o < in.size) {
            V_ASSERT(c != NULL, "C13.index_read.every_stored_entry_is_in_the_list");
            V_ASSERT(o + ds <= in.max, "C03,C13.index_read.entry_digest_inside_buffer");
            V_ASSERT(c->digest != NULL && c->digest_size == (int)ds, "C13.index_read.entry_digest_size");
            if(g_k1 < ds) V_ASSERT(c->digest[g_k1] == data[o + g_k1], "C13.index_read.entry_digest_is_the_stored_one");
            o += ds;
            if(in.hus) {
                V_ASSERT(o + ds <= in.max, "C03,C13.index_read.entry_uncompressed_digest_inside_buffer");
                V_ASSERT(c->digest_uncompressed != NULL, "C13.index_read.entry_has_uncompressed_digest");
                if(g_k1 < ds) V_ASSERT(c->digest_uncompressed[g_k1] == data[o + g_k1], "C13.index_read.entry_uncompressed_digest_is_the_stored_one");
                o += ds;
            }
            n = hspec_ci_len(data + o, in.max - o);
            V_ASSERT(n >= 1 && c->comp_length == (size_t)hspec_ci_val(data + o, n) && hspec_ci_fits64(data + o, n), "C13.index_read.entry_stored_size_is_the_stored_one");
            o += n;
            n = hspec_ci_len(data + o, in.max - o);
            V_ASSERT(n >= 1 && c->length == (size_t)hspec_ci_val(data + o, n) && hspec_ci_fits64(data + o, n), "C13.index_read.entry_uncompressed_size_is_the_stored_one");
            o += n;
            V_ASSERT(c->start == start && c->number == i, "C13.index_read.start_is_running_sum_and_number_is_position");
            V_ASSERT(start + c->comp_length >= start, "C13.index_read.running_sum_does_not_wrap");
            V_ASSERT(c->zck == zck && c->valid == 0, "C13.index_read.entry_owner_and_initial_validity");
            start += c->comp_length; i++; c = c->next;
        }
        V_ASSERT(c == NULL, "C13.index_read.list_has_no_extra_entries");
        V_ASSERT(zck->index.count == i && (v_u128)i == declared, "C13.index_read.count_equals_entries_parsed_and_declared");
        V_ASSERT(i >= 1, "C13,C03.index_read.at_least_the_dictionary_entry");
        V_ASSERT(zck->index.length == start, "C13.index_read.total_length_is_sum");
    }
#if !defined(VERIF_HOTHER) && VERIF_HTYPE != 2
    V_COVER(r && zck->index.count == 2 && in.hus == 0);
#endif
#ifndef VERIF_HOTHER
    V_COVER(r && zck->index.count == 1 && in.hus != 0);
#endif
    V_COVER(!r && in.err0 == 0);
}

#ifdef VERIF_NATIVE
#include "replay_in.h"
#endif
