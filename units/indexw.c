/* Proof units for the index-building side of src/lib/index/index_create.c: index_add_to_chunk and
 * index_finish_chunk against the contracts that comp_write / comp_end_chunk / comp_init assume (contracts/writer.h,
 * full view).  C01: lengths accumulate exactly, the finished entry carries them into the index; C06/C01: the chunk
 * and data hashes are fed exactly the stored bytes. */
#include "spec/verif_zck.h"
#include "spec/ghost.h"
#include "spec/ghost_writer.h"
#include "spec/ghost_close.h"
GHOST_DEFS
GHOST_WRITER_DEFS
#include "contracts/io.h"
#include "contracts/compint.h"
#include "contracts/hash.h"
#include "contracts/hashfn.h"
#include "contracts/writer.h"
#include "contracts/indexw.h"
#include "extracted_zalloc.c"
#include "src/lib/index/index_create.c"

typedef struct {
    zckCtx any; zckChunk wi, last;
    size_t n, comp_size, orig_size;
    int ctype, htype, wi_live, last_live, wh_live, whu_live, fh_live, wh_typed, whu_typed, fh_typed, watch;
    size_t hu_total0, hu_k, k1, k2; unsigned hu_seen0, hu_final0, hu_inits0;
} IN_ix;
V_INPUT(IN_ix)

static zckCtx *mk_ix(IN_ix *in) {
    V_ASSUME(SPEC_HASH_VALID(in->ctype) && SPEC_HASH_VALID(in->htype));
    V_ASSUME(in->hu_final0 < 1000 && in->hu_inits0 < 1000 && in->hu_seen0 < 1000);
    zckCtx *zck = malloc(sizeof(*zck));
    V_ASSUME(zck != NULL);
    *zck = in->any;
    zck->chunk_hash_type.type = in->ctype; zck->chunk_hash_type.digest_size = SPEC_DIGEST_SIZE(in->ctype);
    zck->hash_type.type = in->htype; zck->hash_type.digest_size = SPEC_DIGEST_SIZE(in->htype);
    zck->index.digest_size = SPEC_DIGEST_SIZE(in->ctype);
    zck->work_index_item = NULL;
    if(in->wi_live) { zckChunk *c = malloc(sizeof(*c)); V_ASSUME(c != NULL); *c = in->wi; c->digest = NULL; c->digest_uncompressed = NULL; c->next = NULL; zck->work_index_item = c; }
    zck->index.first = NULL; zck->index.last = NULL;
    if(in->last_live) { zckChunk *c = malloc(sizeof(*c)); V_ASSUME(c != NULL); *c = in->last; c->digest = NULL; c->digest_uncompressed = NULL; c->next = NULL; zck->index.first = c; zck->index.last = c; }
    zck->work_index_hash.ctx = NULL; zck->work_index_hash_uncomp.ctx = NULL; zck->full_hash.ctx = NULL;
    if(in->wh_live) { zck->work_index_hash.ctx = malloc(1); V_ASSUME(zck->work_index_hash.ctx != NULL); }
    if(in->whu_live) { zck->work_index_hash_uncomp.ctx = malloc(1); V_ASSUME(zck->work_index_hash_uncomp.ctx != NULL); }
    if(in->fh_live) { zck->full_hash.ctx = malloc(1); V_ASSUME(zck->full_hash.ctx != NULL); }
    zck->work_index_hash.type = in->wh_typed ? &zck->chunk_hash_type : NULL;
    zck->work_index_hash_uncomp.type = in->whu_typed ? &zck->chunk_hash_type : NULL;
    zck->full_hash.type = in->fh_typed ? &zck->hash_type : NULL;
    g_hu_hash = in->watch == 1 ? &zck->full_hash : in->watch == 2 ? &zck->work_index_hash : in->watch == 3 ? &zck->work_index_hash_uncomp : NULL;
    g_hu_total = in->hu_total0; g_hu_k = in->hu_k; g_hu_seen = in->hu_seen0; g_hu_final = in->hu_final0; g_hu_inits = in->hu_inits0;
    g_k1 = in->k1; g_k2 = in->k2;
    return zck;
}

void h_index_add_to_chunk(void) {
    IN_ix in = nondet_IN_ix();
    zckCtx *zck = mk_ix(&in);
    char *data = malloc(in.comp_size);
    V_ASSUME(data != NULL);
    bool r = index_add_to_chunk(zck, data, in.comp_size, in.orig_size);
    V_COVER(r && in.wi_live && in.comp_size == 7 && in.orig_size == 9 && in.watch == 2);
    V_COVER(r && !in.wi_live && in.comp_size == 0 && in.orig_size == 5);
    V_COVER(r && !in.wi_live && in.comp_size > 0 && zck->has_uncompressed_source != 0 && in.watch == 1);
    V_COVER(!r && in.any.error_state == 0 && !in.wi_live && zck->work_index_item != NULL);    /* hash_init failed after the entry was allocated */
    V_COVER(!r && in.any.error_state == 0 && in.wi_live);
}

void h_index_finish_chunk(void) {
    IN_ix in = nondet_IN_ix();
    zckCtx *zck = mk_ix(&in);
    size_t cnt0 = zck->index.count;
    bool r = index_finish_chunk(zck);
    V_COVER(r && in.wi_live && in.last_live && in.wi.length == 100 && zck->index.count == cnt0 + 1);
    V_COVER(r && in.wi_live && !in.last_live && in.wi.length == 0);
    V_COVER(r && !in.wi_live);                                   /* the empty dictionary entry of comp_init */
    V_COVER(!r && in.any.error_state == 0 && in.wi_live && in.wi.length > 0);
}

#ifdef VERIF_NATIVE
#include "replay_in.h"
#endif
