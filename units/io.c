/* Proof units for src/lib/io.c (C12: I/O failures are reported; C01: temp -> output copy) */
#include "spec/verif_zck.h"
#include "spec/ghost.h"
GHOST_DEFS
#include "stubs/libc_io.h"
#include "contracts/io.h"

#include "contracts/io_temp.h"   /* chunks_from_temp: shared with units/zckw.c */

#include "extracted_zalloc.c"   /* zmalloc/zrealloc, extracted verbatim from src/lib/zck.c by the driver */
#include "src/lib/io.c"

typedef struct { int fd, temp_fd, mode, err0, no_write; size_t len; int data_null; int whence; off_t off;
                 g_off_t pos0[G_NFD]; size_t rd0[G_NFD], wr0[G_NFD]; int failed0; } IN_io;
V_INPUT(IN_io)

static zckCtx *mk_ctx(IN_io *in) {
    zckCtx *z = calloc(1, sizeof(*z));
    V_ASSUME(z != NULL);
    z->fd = in->fd; z->temp_fd = in->temp_fd; z->mode = in->mode; z->error_state = in->err0;
    z->no_write = in->no_write;
    for(int i = 0; i < G_NFD; i++) { g_fpos[i] = in->pos0[i]; g_rd_bytes[i] = in->rd0[i]; g_wr_bytes[i] = in->wr0[i]; }
    g_io_failed = in->failed0;
    return z;
}
#define IN_OK(in) ((in).err0 >= 0 && (in).err0 <= 2 && ((in).failed0 == 0 || (in).failed0 == 1))

void h_read_data(void) {
    IN_io in = nondet_IN_io();
    V_ASSUME(IN_OK(in) && in.len <= 64);
    zckCtx *z = mk_ctx(&in);
    char *buf = in.data_null ? NULL : malloc(in.len);
    V_ASSUME(in.data_null || buf != NULL);
    ssize_t r = read_data(z, buf, in.len);
    V_ASSERT(r >= -1 && (r == -1 || (size_t)r <= in.len), "C12,C03.read_data.never_more_than_asked");
    V_ASSERT(r != -1 || z->error_state > 0, "C12.read_data.failure_sets_error");
    V_COVER(r == -1 && in.err0 == 0 && in.mode == 0 && !in.data_null);
    V_COVER(r >= 0 && (size_t)r < in.len); V_COVER(r > 0 && (size_t)r == in.len);
}

void h_write_data(void) {
    IN_io in = nondet_IN_io();
    V_ASSUME(IN_OK(in) && in.len <= 64);
    zckCtx *z = mk_ctx(&in);
    char *buf = in.data_null ? NULL : malloc(in.len);
    V_ASSUME(in.data_null || buf != NULL);
    int r = write_data(z, in.fd, buf, in.len);
    V_ASSERT(r != 1 || g_wr_bytes[G_IX(in.fd)] == in.wr0[G_IX(in.fd)] + in.len, "C12.write_data.success_means_all_bytes_accepted");
    V_ASSERT(r == 1 || z->error_state > 0, "C12.write_data.failure_sets_error");
    V_COVER(r == 1 && in.len > 1 && g_io_failed == 1 && in.failed0 == 0);   /* succeeded through the retry */
    V_COVER(r == 0 && in.err0 == 0); V_COVER(r == 1 && g_io_failed == 0);
}

void h_seek_data(void) {
    IN_io in = nondet_IN_io();
    V_ASSUME(IN_OK(in));
    zckCtx *z = mk_ctx(&in);
    int r = seek_data(z, in.off, in.whence);
    V_ASSERT(r != 1 || in.whence != SEEK_SET || g_fpos[G_IX(in.fd)] == (g_off_t)in.off, "C12,C09,C14.seek_data.success_means_positioned");
    V_ASSERT(r == 1 || z->error_state > 0, "C12.seek_data.failure_sets_error");
    V_COVER(r == 1); V_COVER(r == 0 && in.err0 == 0);
}

void h_chunks_from_temp(void) {
    IN_io in = nondet_IN_io();
    V_ASSUME(IN_OK(in) && G_IX(in.fd) != G_IX(in.temp_fd) && in.err0 == 0);
    zckCtx *z = mk_ctx(&in);
    g_last_read = 1;
    int r = chunks_from_temp(z);
    V_ASSERT(!r || in.no_write == 1 || g_wr_bytes[G_IX(in.fd)] - in.wr0[G_IX(in.fd)] == g_rd_bytes[G_IX(in.temp_fd)] - in.rd0[G_IX(in.temp_fd)], "C12,C01.chunks_from_temp.success_means_every_byte_read_was_written");
    V_ASSERT(!r || in.no_write == 1 || g_last_read == 0, "C12,C01.chunks_from_temp.success_means_read_reached_eof");
    V_COVER(r && in.no_write == 0 && g_rd_bytes[G_IX(in.temp_fd)] > in.rd0[G_IX(in.temp_fd)] + BUF_SIZE);
    V_COVER(!r && in.no_write == 0 && in.err0 == 0);
}

#ifdef VERIF_NATIVE
#include "replay_in.h"
#endif
