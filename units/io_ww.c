/* write_data (src/lib/io.c) against its contract with the watched-byte record (contracts/io_ww.h),
 * which the download-side units (units/dl.c) rely on. */
#include "spec/verif_zck.h"
#include "spec/ghost.h"
#include "spec/ghost_dl.h"
GHOST_DEFS
GHOST_DL_DEFS
#include <unistd.h>
#define write verif_diverted_write            /* the write() contract of stubs/libc_io.h is not used here */
#include "stubs/libc_io.h"
#undef write
#include "stubs/libc_io_ww.h"
#define write_data verif_diverted_write_data  /* nor the write_data contract of contracts/io.h */
#include "contracts/io.h"
#undef write_data
#include "contracts/io_ww.h"
/* tell_data: the contract zck_write_zck_header_cb relies on (text in contracts/dl.h; repeated here verbatim would
 * drag in the whole download-side header, so the unit includes that header) */
#include "stubs/libc_mem.h"
GHOST_MEM_DEFS
#include "stubs/regex.h"
#include "contracts/hashfn.h"
#include "contracts/dl.h"
#include "extracted_zalloc.c"
#include "src/lib/io.c"

typedef struct { int any_fd, any_mode; int fd, err0; size_t len; int data_null; g_off_t pos0[G_NFD]; size_t wr0[G_NFD]; int failed0;
                 int ww_fd; g_off_t ww_off; unsigned ww_hit0; char ww_val0; char bytes[64]; } IN_ww;
V_INPUT(IN_ww)

void h_write_data_ww(void) {
    IN_ww in = nondet_IN_ww();
    V_ASSUME(in.err0 >= 0 && in.err0 <= 2 && (in.failed0 == 0 || in.failed0 == 1) && in.len <= 64);
    zckCtx *z = calloc(1, sizeof(*z));
    V_ASSUME(z != NULL);
    z->error_state = in.err0; z->fd = in.any_fd; z->mode = in.any_mode;
    for(int i = 0; i < G_NFD; i++) { g_fpos[i] = in.pos0[i]; g_wr_bytes[i] = in.wr0[i]; }
    g_io_failed = in.failed0;
    g_ww_fd = in.ww_fd; g_ww_off = in.ww_off; g_ww_hit = in.ww_hit0; g_ww_val = in.ww_val0;
    char *buf = in.data_null ? NULL : malloc(in.len);
    V_ASSUME(in.data_null || buf != NULL);
    if(buf) { V_TIE64(buf, in.len, in.bytes, 0); }
    g_off_t p0 = g_fpos[G_IX(in.fd)];
    int r = write_data(z, in.fd, buf, in.len);
    V_ASSERT(r != 1 || !(in.fd == in.ww_fd && (g_off_t)(in.ww_off - p0) < in.len) || (g_ww_hit == in.ww_hit0 + 1 && g_ww_val == buf[in.ww_off - p0]), "C05.write_data.file_offset_receives_the_byte_at_the_same_distance");
    V_ASSERT((in.fd == in.ww_fd && (g_off_t)(in.ww_off - p0) < in.len) || (g_ww_hit == in.ww_hit0 && g_ww_val == in.ww_val0), "C05.write_data.nothing_outside_the_span_is_written");
    V_COVER(r == 1 && in.len > 1 && g_io_failed == 1 && in.failed0 == 0 && g_ww_hit == in.ww_hit0 + 1);   /* succeeded through the retry, watched byte written */
    V_COVER(r == 0 && in.err0 == 0 && g_ww_hit == in.ww_hit0 + 1);
    V_COVER(r == -1);
    V_COVER(r == 1 && g_io_failed == 0);
}

void h_tell_data(void) {
    IN_ww in = nondet_IN_ww();
    zckCtx *z = calloc(1, sizeof(*z));
    V_ASSUME(z != NULL);
    z->fd = in.any_fd;
    for(int i = 0; i < G_NFD; i++) g_fpos[i] = in.pos0[i];
    g_off_t p0 = g_fpos[G_IX(in.any_fd)];
    ssize_t r = tell_data(z);
    V_ASSERT(g_fpos[G_IX(in.any_fd)] == p0, "C12,C05.tell_data.position_unchanged");
    V_COVER(r == -1); V_COVER(r > 0);
}

#ifdef VERIF_NATIVE
#include "replay_in.h"
#endif
