/* C18 proof units for src/lib/hash/bundled/libsha.c (the bundled implementation of the lib_hash_* interface). */
#include "spec/verif_zck.h"
#include "spec/ghost.h"
#include "spec/ghost_sha.h"
GHOST_DEFS
GHOST_SHA_DEFS
#include "contracts/libsha.h"
GHOST_LH_DEFS
#include "contracts/hash_close.h"
#include "extracted_zalloc.c"
#include "src/lib/hash/bundled/libsha.c"

typedef struct { zckCtx zany; zckHash hany; int zck_null, type, dsz; SHA_CTX c1; sha256_ctx c256; sha512_ctx c512; size_t size, k1;
                 unsigned init_calls, up_calls, fin_calls; } IN_ls;
V_INPUT(IN_ls)
#ifdef VERIF_HTYPE
#define FIX_TYPE(in) do { (in).type = VERIF_HTYPE; } while(0)
#else
#define FIX_TYPE(in) ((void)0)
#endif
static zckCtx *mk_zck(IN_ls *in) {
    if(in->zck_null) return NULL;
    zckCtx *z = malloc(sizeof(*z)); V_ASSUME(z != NULL); *z = in->zany; return z;
}
static zckHash *mk_hash(IN_ls *in, int with_ctx) {
    zckHash *h = malloc(sizeof(*h)); V_ASSUME(h != NULL); *h = in->hany;
    zckHashType *t = malloc(sizeof(*t)); V_ASSUME(t != NULL); t->type = in->type; t->digest_size = in->dsz;
    h->type = t; h->ctx = NULL;
    if(with_ctx && SPEC_HASH_VALID(in->type)) {
        if(in->type == 0) { SHA_CTX *c = malloc(sizeof(*c)); V_ASSUME(c != NULL); *c = in->c1; V_ASSUME((c->count[0] & 7) == 0); h->ctx = c; }
        else if(in->type == 1) { sha256_ctx *c = malloc(sizeof(*c)); V_ASSUME(c != NULL); *c = in->c256; V_ASSUME(c->len < 64 && c->tot_len % 64 == 0); h->ctx = c; }
        else { sha512_ctx *c = malloc(sizeof(*c)); V_ASSUME(c != NULL); *c = in->c512; V_ASSUME(c->len < 128 && c->tot_len % 128 == 0); h->ctx = c; }
    }
    g_k1 = in->k1;
    V_ASSUME(in->init_calls < 1000 && in->up_calls < 1000 && in->fin_calls < 1000);
    g_init_calls = in->init_calls; g_up_calls = in->up_calls; g_fin_calls = in->fin_calls;
    return h;
}

void h_lib_hash_init(void) {
    IN_ls in = nondet_IN_ls(); FIX_TYPE(in);
    zckCtx *zck = mk_zck(&in); zckHash *h = mk_hash(&in, 0);
    bool r = lib_hash_init(zck, h);
    V_COVER(r && in.type == 3 && g_init_fn == REC_FN_SHA512); V_COVER(r && in.type == 0); V_COVER(r && in.type == 1); V_COVER(!r && in.type == 4); V_COVER(!r && in.type < 0);
}
void h_lib_hash_update(void) {
    IN_ls in = nondet_IN_ls(); FIX_TYPE(in);
    zckCtx *zck = mk_zck(&in); zckHash *h = mk_hash(&in, 1);
    char *m = malloc(in.size); V_ASSUME(m != NULL);
    g_up_end = m; g_up_inorder = 1; g_up_len = 0; g_up_fn = 0; g_up_ctx = NULL;   /* no update recorded yet */
    bool r = lib_hash_update(zck, h, m, in.size);
    V_COVER(r && in.type == 3 && g_up_fn == REC_FN_SHA512); V_COVER(r && in.type == 0 && in.size == 70); V_COVER(r && in.type == 1 && in.size == 0); V_COVER(!r && in.type == 4);
    V_COVER(r && in.size > 0xffffffffull);
}
void h_lib_hash_final(void) {
    IN_ls in = nondet_IN_ls(); FIX_TYPE(in);
    zckCtx *zck = mk_zck(&in); zckHash *h = mk_hash(&in, 1);
    char *d = lib_hash_final(zck, h);
    V_COVER(d != NULL && in.type == 3 && g_fin_fn == REC_FN_SHA512); V_COVER(d != NULL && in.type == 0); V_COVER(d != NULL && in.type == 1 && g_k1 == 31); V_COVER(d == NULL && in.type == 4);
}
void h_lib_hash_ctx_close(void) {
    IN_ls in = nondet_IN_ls(); FIX_TYPE(in);
    zckHash *h = mk_hash(&in, 1);
    lib_hash_ctx_close(h);
    V_COVER(in.type == 2); V_COVER(in.type == 7);
}

#ifdef VERIF_NATIVE
#include "replay_in.h"
#endif
