/* multipart_extract (src/lib/dl/multipart.c), C17: the part-header scanner on arbitrary body bytes.
 * PLAIN bounded unit (no --dfcc), one VARIANT per pair (fragment length MPX_L, carried-buffer length MPX_M):
 * the real multipart_extract, gen_regex, create_regex, reset_mp, zmalloc, zrealloc bodies are executed symbolically.
 * Everything but the two LENGTHS is arbitrary in every variant: fragment bytes, carried bytes, mp->state, mp->length,
 * every other field of zckDL/zckCtx/zckMP, every regexec verdict and every in-string sub-match offset, every result
 * of dl_write_range.  The lengths are compile-time constants because CBMC 6.11 exhausts memory on byte accesses
 * with symbolic offset into objects of SYMBOLIC size (agent-notes/dl.md D.2): with constant lengths the fragment,
 * the carried buffer and the realloc'd concatenation are constant-size objects.  The union of the variants
 * 0 <= MPX_L <= N, 0 <= MPX_M <= M is the bounded statement "l <= N, carried <= M".
 * Stand-ins with bodies only for what lies outside multipart.c:
 *   regexec                  = the assumed model of stubs/regex.h (typestate in re_nsub: any verdict, any in-string
 *                              offsets); regcomp/regfree = the same header's contracts written as bodies;
 *   dl_write_range           = asserts what it is handed (bytes inside the CURRENT buffer) and returns any count
 *                              in [0, length], possibly raising the context's error state;
 *   calloc / realloc         = blocks of exactly the requested size (constant-size objects by case distinction);
 *   snprintf (MPX_GEN only)  = writes at most n bytes into the destination, NUL-terminated, any return value. */
#include "spec/verif_zck.h"
#include "stubs/regex.h"
#include "contracts/mpx_cb.h"   /* the statement macros shared with the lean contract of multipart_extract used by unit mpx_cb */
#include <limits.h>
#ifndef MPX_L
#define MPX_L 6
#endif
#ifndef MPX_M
#define MPX_M 3
#endif
#define MPX_T (MPX_L + MPX_M)
int nondet_int(void); char nondet_char(void);
#ifndef VERIF_NATIVE
int regcomp(regex_t *preg, const char *pattern, int cflags) {
    __CPROVER_assert(__CPROVER_w_ok(preg, sizeof(regex_t)), "C17.regcomp.pattern_object_is_allocated");
    __CPROVER_assert(pattern != NULL && __CPROVER_r_ok(pattern, 1), "C17.regcomp.pattern_text_is_readable");
    if(nondet_rx_int()) { preg->re_nsub = 0; return REG_BADPAT; }
    preg->re_nsub = RX_MAGIC;
    return 0;
}
void regfree(regex_t *preg) {
    __CPROVER_assert(preg != NULL && __CPROVER_rw_ok(preg, sizeof(regex_t)), "C17.regfree.pattern_object_is_allocated");
    __CPROVER_assert(RX_COMPILED(preg), "C17.regfree.pattern_is_compiled");
    preg->re_nsub = 0;
}
/* ghosts: the buffer multipart_extract is working on -- the caller's fragment, or, once a carried buffer was
 * appended to, the block the realloc stand-in handed out */
static const char *g_cur_buf; static size_t g_cur_len; static int g_nwrites;
int dl_write_range(zckDL *dl, const char *at, size_t length) {
    __CPROVER_assert(dl != NULL && dl->zck != NULL, "C17,C05.multipart_extract.dl_write_range_gets_the_context");
    __CPROVER_assert(length <= INT_MAX && (length == 0 || __CPROVER_r_ok(at, length)), "C17,C05.multipart_extract.bytes_handed_to_dl_write_range_are_readable");
    __CPROVER_assert(__CPROVER_same_object(at, g_cur_buf) && __CPROVER_POINTER_OFFSET(at) >= 0 && (size_t)__CPROVER_POINTER_OFFSET(at) + length <= g_cur_len, "C17,C05.multipart_extract.bytes_handed_to_dl_write_range_lie_inside_the_current_buffer");
    g_nwrites++;
    int r = nondet_int();
    __CPROVER_assume(r >= 0 && (size_t)r <= length);
    if(nondet_int()) dl->zck->error_state = 1;
    return r;
}
/* sizes this unit can ask for: 1..MPX_T (carry-over save, concatenation), sizeof(regex_t) and, in the gen variants,
 * the two pattern strings (65 resp. 8 bytes + boundary + 1); anything else is flagged */
#ifdef MPX_GEN
#define MPX_AMAX 96
#else
#define MPX_AMAX (MPX_T > 0 ? MPX_T : 1)
#endif
static char *alloc_exact(size_t n, int zero) {
    switch(n) {
#define AX(k) case k: if(k <= MPX_AMAX || k == sizeof(regex_t)) { char *q = malloc(k); if(zero && q != NULL && k > 0) memset(q, 0, k); return q; } break;
    AX(0) AX(1) AX(2) AX(3) AX(4) AX(5) AX(6) AX(7) AX(8) AX(9) AX(10) AX(11) AX(12) AX(13) AX(14) AX(15) AX(16)
    AX(17) AX(18) AX(19) AX(20) AX(21) AX(22) AX(23) AX(24) AX(25) AX(26) AX(27) AX(28) AX(29) AX(30) AX(31) AX(32)
    AX(64) AX(65) AX(66) AX(67) AX(68) AX(69) AX(70) AX(77) AX(78) AX(79) AX(80) AX(81) AX(82) AX(83) AX(84) AX(85) AX(86) AX(87) AX(88)
#undef AX
    default: break;
    }
    __CPROVER_assert(0, "MPX.alloc_exact.requested_size_in_the_units_range"); __CPROVER_assume(0); return NULL;
}
void *calloc(size_t a, size_t b) {          /* zmalloc: zero-filled block of a*b bytes */
    return alloc_exact(a * b, 1);
}
void *realloc(void *p, size_t n) {
    if(p == NULL) return alloc_exact(n, 0);
    char *q = alloc_exact(n, 0);
    if(q != NULL) {
        size_t old = __CPROVER_OBJECT_SIZE(p);
        for(size_t k = 0; k < MPX_T; k++) if(k < old && k < n) q[k] = ((const char *)p)[k];
        free(p);
        g_cur_buf = q; g_cur_len = n;
    }
    return q;
}
#ifdef MPX_GEN
#include <stdarg.h>
int snprintf(char *s, size_t n, const char *fmt, ...) {
    __CPROVER_assert(n == 0 || __CPROVER_w_ok(s, n), "C17.add_boundary_to_regex.snprintf_destination_holds_n_bytes");
    __CPROVER_assert(fmt != NULL, "C17.add_boundary_to_regex.snprintf_format_present");
    if(n > 0) s[nondet_int() ? 0 : n - 1] = 0;   /* (the destination is zero-filled by zmalloc: stays NUL-terminated) */
    return nondet_int();
}
#endif
#endif
#include "extracted_zalloc.c"
#include "src/lib/dl/multipart.c"

typedef struct {
    zckCtx anyz; zckDL anydl; zckMP anymp; regex_t anyrx[2];
    int err0;
    char frag[MPX_L + 1]; char carry[MPX_M + 1]; char bnd[4];
} IN_mpx;
V_INPUT(IN_mpx)

void h_mpx(void) {
    IN_mpx in = nondet_IN_mpx();
    V_ASSUME(in.err0 >= 0 && in.err0 <= 2);
    zckDL *dl = malloc(sizeof(*dl)); zckCtx *zck = malloc(sizeof(*zck)); zckMP *mp = malloc(sizeof(*mp));
    V_ASSUME(dl != NULL && zck != NULL && mp != NULL);
    *dl = in.anydl; *zck = in.anyz; *mp = in.anymp;          /* mp->state, mp->length: arbitrary */
    zck->error_state = in.err0; dl->zck = zck; dl->mp = mp;
    dl->hdr_regex = dl->dl_regex = dl->end_regex = NULL; dl->boundary = NULL;
#ifndef MPX_GEN
    /* both patterns exist and are compiled: the state after a successful gen_regex (unit gen_regex proves its contract) */
    dl->dl_regex = malloc(sizeof(regex_t)); dl->end_regex = malloc(sizeof(regex_t));
    V_ASSUME(dl->dl_regex != NULL && dl->end_regex != NULL);
    *dl->dl_regex = in.anyrx[0]; *dl->end_regex = in.anyrx[1];
    dl->dl_regex->re_nsub = RX_MAGIC; dl->end_regex->re_nsub = RX_MAGIC;
#else
    /* no patterns yet: multipart_extract calls the real gen_regex; boundary of exactly 2 arbitrary non-NUL bytes */
    dl->boundary = malloc(3); V_ASSUME(dl->boundary != NULL);
    V_ASSUME(in.bnd[0] != 0 && in.bnd[1] != 0);
    dl->boundary[0] = in.bnd[0]; dl->boundary[1] = in.bnd[1]; dl->boundary[2] = 0;
#endif
    mp->buffer = NULL;
#if MPX_M > 0
    mp->buffer = malloc(MPX_M); V_ASSUME(mp->buffer != NULL);
    for(int k = 0; k < MPX_M; k++) mp->buffer[k] = in.carry[k];
    mp->buffer_len = MPX_M;
#endif
    char *b = malloc(MPX_L); V_ASSUME(b != NULL);
    for(int k = 0; k < MPX_L; k++) b[k] = in.frag[k];
    g_cur_buf = b; g_cur_len = MPX_L; g_nwrites = 0;
    int state0 = mp->state; size_t length0 = mp->length;

    size_t r = multipart_extract(dl, b, MPX_L);

    V_ASSERT(MPXC_RET(r, MPX_L), "C17.multipart_extract.accepts_everything_or_reports_zero");
    V_ASSERT(r == 0 || r == MPX_T, "C17.multipart_extract.returns_zero_or_carried_plus_fragment_length");
    V_ASSERT(CBL_RX_INV(dl), "C17.multipart_extract.no_uncompiled_pattern_left_behind_on_any_return");
    V_ASSERT(dl->mp == mp && CBL_MP_WF(mp), "C17.multipart_extract.carried_buffer_length_equals_its_allocation_on_every_return");
    V_ASSERT(mp->buffer == NULL || mp->buffer_len <= MPX_T, "C17.multipart_extract.carried_buffer_never_longer_than_what_was_delivered");
    V_ASSERT(MPX_L == 0 || __CPROVER_rw_ok(b, MPX_L), "C17.multipart_extract.the_callers_buffer_is_not_freed");
    V_ASSERT(MPXC_ERR_REFUSED(in.err0, r) && (in.err0 == 0 || g_nwrites == 0), "C17,C12.multipart_extract.context_in_error_is_refused");
    /* vacuity guards (which of them exist depends on how many bytes the variant has) */
    V_COVER(r == MPX_T);                                                                /* accepted */
    V_COVER(r == 0 && in.err0 > 0);                                                     /* context in error refused */
#if MPX_T > 0
    V_COVER(r > 0 && state0 == 0 && mp->buffer != NULL && mp->buffer_len == MPX_T);     /* incomplete part header carried over */
    V_COVER(r > 0 && state0 != 0 && mp->state != 0 && g_nwrites == 1);                  /* payload continues in the next fragment */
    V_COVER(r > 0 && state0 != 0 && mp->state == 0 && g_nwrites == 1);                  /* payload ended inside the fragment */
    V_COVER(r == 0 && in.err0 == 0 && state0 != 0 && g_nwrites == 1);                   /* dl_write_range refused */
#endif
#if MPX_T > 4
    V_COVER(r > 0 && state0 == 0 && mp->state != 0 && mp->length > 0);                  /* part header parsed; payload continues in the next fragment */
    V_COVER(r > 0 && in.err0 == 0 && state0 == 0 && zck->error_state > 0 && g_nwrites == 0); /* neither pattern matches */
    V_COVER(r > 0 && in.err0 == 0 && state0 == 0 && zck->error_state == 0 && mp->state == 0 && mp->buffer == NULL && g_nwrites == 0); /* terminator matched */
#endif
#ifdef MPX_GEN
    V_COVER(r == 0 && in.err0 == 0 && dl->dl_regex == NULL && dl->end_regex == NULL && g_nwrites == 0);   /* the patterns could not be made: refused, nothing left behind */
    V_COVER(r > 0 && dl->dl_regex != NULL && dl->end_regex != NULL);                                        /* patterns made by this call */
#endif
#if MPX_T > 4 && MPX_M > 0
    V_COVER(r > 0 && state0 != 0 && length0 < MPX_M && g_nwrites == 2);                /* payload ends inside the carried bytes, next part header parsed from carried + new bytes */
#endif
}
#ifdef VERIF_NATIVE
#include "replay_in.h"
#endif
