/* zck_write_chunk_cb (src/lib/dl/dl.c), C17 view: the body callback of a range download with multipart_extract and
 * dl_write_range by the lean contracts of contracts/mpx_cb.h (patterns typestate, parser state, error state, fragment). */
#include "spec/verif_zck.h"
#include "contracts/mpx_cb.h"
int g_cbl_handed_on;
#include "src/lib/dl/dl.c"

typedef struct {
    zckCtx anyz; zckDL anydl; zckMP anymp; regex_t anyrx[3];
    int err0, have_hdr, have_patterns, has_boundary, wcb, handed0;
    size_t l, c, buffer_len;
} IN_mpxcb;
V_INPUT(IN_mpxcb)

void h_mpx_cb(void) {
    IN_mpxcb in = nondet_IN_mpxcb();
    V_ASSUME(in.err0 >= 0 && in.err0 <= 2);
    zckDL *dl = malloc(sizeof(*dl)); zckCtx *zck = malloc(sizeof(*zck)); zckMP *mp = malloc(sizeof(*mp));
    V_ASSUME(dl != NULL && zck != NULL && mp != NULL);
    *dl = in.anydl; *zck = in.anyz; *mp = in.anymp;
    zck->error_state = in.err0; dl->zck = zck; dl->mp = mp;
    dl->hdr_regex = dl->dl_regex = dl->end_regex = NULL;
    if(in.have_hdr) { dl->hdr_regex = malloc(sizeof(regex_t)); V_ASSUME(dl->hdr_regex != NULL); *dl->hdr_regex = in.anyrx[0]; dl->hdr_regex->re_nsub = RX_MAGIC; }
    if(in.have_patterns) {
        dl->dl_regex = malloc(sizeof(regex_t)); dl->end_regex = malloc(sizeof(regex_t));
        V_ASSUME(dl->dl_regex != NULL && dl->end_regex != NULL);
        *dl->dl_regex = in.anyrx[1]; *dl->end_regex = in.anyrx[2]; dl->dl_regex->re_nsub = RX_MAGIC; dl->end_regex->re_nsub = RX_MAGIC;
    }
    mp->buffer = NULL;
    V_ASSUME(in.buffer_len <= 6);
    if(in.buffer_len > 0) { mp->buffer = malloc(in.buffer_len); V_ASSUME(mp->buffer != NULL); mp->buffer_len = in.buffer_len; }
    dl->boundary = NULL;
    if(in.has_boundary) { dl->boundary = malloc(3); V_ASSUME(dl->boundary != NULL); dl->boundary[2] = 0; }
    dl->write_cb = in.wcb ? verif_user_wcb : NULL;
    V_ASSUME(in.l <= 16 && in.c <= 16 && in.l * in.c <= 16);
    size_t n = in.l * in.c;
    char *p = malloc(n); V_ASSUME(p != NULL);
    g_cbl_handed_on = in.handed0; V_ASSUME(in.handed0 >= 0 && in.handed0 < 1000);

    size_t r = zck_write_chunk_cb(p, in.l, in.c, dl);

    V_ASSERT(in.wcb || r == 0 || r == n, "C17.zck_write_chunk_cb.accepts_everything_or_reports_zero");
    V_ASSERT(n == 0 || in.err0 == 0 || r == 0, "C05,C12,C17.zck_write_chunk_cb.a_context_in_error_is_reported_by_the_callback");
    V_ASSERT(in.err0 == 0 || g_cbl_handed_on == in.handed0, "C05,C17.zck_write_chunk_cb.nothing_is_handed_on_on_a_context_in_error");
    V_COVER(r == n && n > 0 && in.has_boundary && !in.wcb);
    V_COVER(r == n && n > 0 && !in.has_boundary && !in.wcb);
    V_COVER(r == 0 && n > 0 && in.err0 == 0 && in.has_boundary);
    V_COVER(r == 0 && n > 0 && in.err0 == 0 && !in.has_boundary);
    V_COVER(r == 0 && n > 0 && in.err0 > 0);
    V_COVER(in.wcb && n > 0 && r != 0 && r != n);
    V_COVER(in.has_boundary && !in.have_patterns && dl->dl_regex != NULL);
    V_COVER(in.has_boundary && mp->buffer != NULL && in.buffer_len == 0);
}
#ifdef VERIF_NATIVE
#include "replay_in.h"
#endif
