/* Proof units for src/lib/dl/multipart.c (C17: regex life-cycle, boundary extraction, part-header scanner) */
#include "spec/verif_zck.h"
#include "spec/ghost.h"
#include "spec/ghost_dl.h"
GHOST_DEFS
GHOST_DL_DEFS
#include "stubs/libc_mem.h"
GHOST_MEM_DEFS
#include "stubs/regex.h"
#include "contracts/hashfn.h"
#include "contracts/multipart.h"
#include "contracts/dl_range.h"
#include "extracted_zalloc.c"
#include "src/lib/dl/multipart.c"
/* keeps the regfree declaration (and its contract) in the symbol table on trees where multipart.c does not call it */
void (*verif_keep_regfree)(regex_t *) = regfree;

typedef struct {
    zckCtx anyz; zckDL anydl; zckMP anymp; regex_t anyrx[3];
    int err0, dl_null, zck_null, mp_null, boundary_len, has_boundary;
    int rx_state[3];            /* hdr, dl, end: 0 = NULL, 1 = compiled object */
    size_t size, buffer_len;
    char line[24]; char bnd[8];
} IN_mp;
V_INPUT(IN_mp)

static regex_t *mk_rx(IN_mp *in, int i) {
    if(in->rx_state[i] == 0) return NULL;
    regex_t *r = malloc(sizeof(*r));
    V_ASSUME(r != NULL);
    *r = in->anyrx[i]; r->re_nsub = RX_MAGIC;
    return r;
}
static zckDL *mk_mpdl(IN_mp *in) {
    V_ASSUME(in->err0 >= 0 && in->err0 <= 2);
    zckDL *dl = malloc(sizeof(*dl));
    V_ASSUME(dl != NULL);
    *dl = in->anydl;
    dl->zck = NULL;
    if(!in->zck_null) { dl->zck = malloc(sizeof(zckCtx)); V_ASSUME(dl->zck != NULL); *dl->zck = in->anyz; dl->zck->error_state = in->err0; }
    dl->hdr_regex = mk_rx(in, 0); dl->dl_regex = mk_rx(in, 1); dl->end_regex = mk_rx(in, 2);
    V_ASSUME(dl->dl_regex == NULL || dl->end_regex != NULL);
    dl->mp = NULL;
    if(!in->mp_null) {
        dl->mp = malloc(sizeof(zckMP)); V_ASSUME(dl->mp != NULL); *dl->mp = in->anymp;
        dl->mp->buffer = NULL;
        V_ASSUME(in->buffer_len <= 6);
        if(in->buffer_len > 0) { dl->mp->buffer = malloc(in->buffer_len); V_ASSUME(dl->mp->buffer != NULL); dl->mp->buffer_len = in->buffer_len; }
    }
    dl->boundary = NULL;
    if(in->has_boundary) {
        V_ASSUME(in->boundary_len >= 0 && in->boundary_len <= 7);
        dl->boundary = malloc(in->boundary_len + 1); V_ASSUME(dl->boundary != NULL);
        dl->boundary[in->boundary_len] = 0;
    }
    return dl;
}

void h_gen_regex(void) {
    IN_mp in = nondet_IN_mp();
    V_ASSUME(in.rx_state[1] == 0);
    zckDL *dl = in.dl_null ? NULL : mk_mpdl(&in);
    bool r = gen_regex(dl);
    if(dl != NULL) {
        V_ASSERT(dl->dl_regex == NULL || RX_COMPILED(dl->dl_regex), "C17.gen_regex.no_uncompiled_pattern_left_behind_on_any_return");
        V_ASSERT(dl->end_regex == NULL || RX_COMPILED(dl->end_regex), "C17.gen_regex.no_uncompiled_pattern_left_behind_on_any_return");
        V_ASSERT(dl->dl_regex == NULL || dl->end_regex != NULL, "C17.gen_regex.no_uncompiled_pattern_left_behind_on_any_return");
    }
    V_COVER(r); V_COVER(!r && dl != NULL && !in.zck_null && in.err0 == 0 && in.has_boundary);
}

void h_create_regex(void) {
    IN_mp in = nondet_IN_mp();
    zckDL *dl = mk_mpdl(&in);
    regex_t *reg = in.rx_state[0] ? malloc(sizeof(regex_t)) : NULL;
    V_ASSUME(!in.rx_state[0] || reg != NULL);
    bool r = create_regex(dl->zck, reg, in.has_boundary ? dl->boundary : NULL);
    V_ASSERT(!r || RX_COMPILED(reg), "C17.create_regex.true_means_compiled");
    V_COVER(r); V_COVER(!r && !in.zck_null && in.err0 == 0 && reg != NULL && in.has_boundary);
}

void h_add_boundary_to_regex(void) {
    IN_mp in = nondet_IN_mp();
    zckDL *dl = mk_mpdl(&in);
    char *fmt = "\r\n--%s--";
    char *r = add_boundary_to_regex(dl->zck, fmt, dl->boundary);
    V_COVER(r != NULL); V_COVER(r == NULL && !in.zck_null && in.err0 == 0 && in.has_boundary);
}

void h_multipart_get_boundary(void) {
    IN_mp in = nondet_IN_mp();
    zckDL *dl = in.dl_null ? NULL : mk_mpdl(&in);
    V_ASSUME(in.size <= 24);
    char *b = malloc(in.size);
    V_ASSUME(b != NULL);
    V_TIE16(b, in.size, in.line, 0); V_TIE4(b, in.size, in.line, 16); V_TIE4(b, in.size, in.line, 20);
    char *b0 = dl ? dl->boundary : NULL;
    size_t r = multipart_get_boundary(dl, b, in.size);
    if(dl != NULL) {
        V_ASSERT(dl->hdr_regex == NULL || RX_COMPILED(dl->hdr_regex), "C17.multipart_get_boundary.no_uncompiled_pattern_left_behind_on_any_return");
        V_ASSERT(r == 0 || r == in.size, "C17.multipart_get_boundary.accepts_the_line_or_reports_zero");
    }
    V_COVER(dl != NULL && r == in.size && in.size > 10 && dl->boundary != b0 && __CPROVER_OBJECT_SIZE(dl->boundary) > 3);
    V_COVER(dl != NULL && r == in.size && in.size > 0 && dl->boundary == b0 && in.rx_state[0] == 0);
    V_COVER(dl != NULL && r == 0 && !in.zck_null && in.err0 == 0);
}

void h_reset_mp(void) {
    IN_mp in = nondet_IN_mp();
    zckDL *dl = mk_mpdl(&in);
    reset_mp(dl->mp);
    V_ASSERT(dl->mp == NULL || (dl->mp->buffer == NULL && dl->mp->buffer_len == 0 && dl->mp->state == 0), "C17,C05.reset_mp.parser_back_to_start");
    V_COVER(dl->mp != NULL && in.buffer_len > 0); V_COVER(dl->mp == NULL);
}

#ifdef VERIF_NATIVE
#include "replay_in.h"
#endif
