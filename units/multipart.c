/* Proof units for src/lib/dl/multipart.c (C17: regex life-cycle, boundary extraction, part-header scanner) */
#include "spec/verif_zck.h"
#include "spec/ghost.h"
#include "spec/ghost_dl.h"
GHOST_DEFS
GHOST_DL_DEFS
#include "stubs/libc_mem.h"
GHOST_MEM_DEFS
#include "stubs/regex.h"
#include "contracts/hashfn.h"
#include "contracts/multipart.h"
#include "contracts/dl_range.h"
#include "extracted_zalloc.c"
#include "src/lib/dl/multipart.c"
/* keeps the regfree declaration (and its contract) in the symbol table on trees where multipart.c does not call it */
void (*verif_keep_regfree)(regex_t *) = regfree;

typedef struct {
    zckCtx anyz; zckDL anydl; zckMP anymp; regex_t anyrx[3];
    int err0, dl_null, zck_null, mp_null, boundary_len, has_boundary;
    int rx_state[3];            /* hdr, dl, end: 0 = NULL, 1 = compiled object */
    size_t size, buffer_len;
    char line[24]; char bnd[8];
    /* download state behind the parser (multipart_extract only) */
    zckChunk anyc, anyr; zckRange anyrange; int range_null, chk, ctx_live, ctx_typed, watch_chunk_hash, fd;
    size_t hu_total0; g_off_t pos0; int ww_fd; g_off_t ww_off; unsigned ww_hit0; char ww_val0;
} IN_mp;
V_INPUT(IN_mp)

#ifndef MPX_CARRY
#define MPX_CARRY 6
#endif
static regex_t *mk_rx(IN_mp *in, int i) {
    if(in->rx_state[i] == 0) return NULL;
    regex_t *r = malloc(sizeof(*r));
    V_ASSUME(r != NULL);
    *r = in->anyrx[i]; r->re_nsub = RX_MAGIC;
    return r;
}
static zckDL *mk_mpdl(IN_mp *in) {
    V_ASSUME(in->err0 >= 0 && in->err0 <= 2);
    zckDL *dl = malloc(sizeof(*dl));
    V_ASSUME(dl != NULL);
    *dl = in->anydl;
    dl->zck = NULL;
    if(!in->zck_null) { dl->zck = malloc(sizeof(zckCtx)); V_ASSUME(dl->zck != NULL); *dl->zck = in->anyz; dl->zck->error_state = in->err0; }
    dl->hdr_regex = mk_rx(in, 0); dl->dl_regex = mk_rx(in, 1); dl->end_regex = mk_rx(in, 2);
    V_ASSUME((dl->dl_regex == NULL) == (dl->end_regex == NULL));
    dl->mp = NULL;
    if(!in->mp_null) {
        dl->mp = malloc(sizeof(zckMP)); V_ASSUME(dl->mp != NULL); *dl->mp = in->anymp;
        dl->mp->buffer = NULL;
        V_ASSUME(in->buffer_len <= MPX_CARRY);
        if(in->buffer_len > 0) { dl->mp->buffer = malloc(in->buffer_len); V_ASSUME(dl->mp->buffer != NULL); dl->mp->buffer_len = in->buffer_len; }
    }
    dl->boundary = NULL;
    if(in->has_boundary) {
        V_ASSUME(in->boundary_len >= 0 && in->boundary_len <= 7);
        dl->boundary = malloc(in->boundary_len + 1); V_ASSUME(dl->boundary != NULL);
        dl->boundary[in->boundary_len] = 0;
    }
    return dl;
}

void h_gen_regex(void) {
    IN_mp in = nondet_IN_mp();
    V_ASSUME(in.rx_state[1] == 0);
    zckDL *dl = in.dl_null ? NULL : mk_mpdl(&in);
    bool r = gen_regex(dl);
    if(dl != NULL) {
        V_ASSERT(dl->dl_regex == NULL || RX_COMPILED(dl->dl_regex), "C17.gen_regex.no_uncompiled_pattern_left_behind_on_any_return");
        V_ASSERT(dl->end_regex == NULL || RX_COMPILED(dl->end_regex), "C17.gen_regex.no_uncompiled_pattern_left_behind_on_any_return");
        V_ASSERT((dl->dl_regex == NULL) == (dl->end_regex == NULL), "C17.gen_regex.no_uncompiled_pattern_left_behind_on_any_return");
    }
    V_COVER(r); V_COVER(!r && dl != NULL && !in.zck_null && in.err0 == 0 && in.has_boundary);
}

void h_create_regex(void) {
    IN_mp in = nondet_IN_mp();
    zckDL *dl = mk_mpdl(&in);
    regex_t *reg = in.rx_state[0] ? malloc(sizeof(regex_t)) : NULL;
    V_ASSUME(!in.rx_state[0] || reg != NULL);
    bool r = create_regex(dl->zck, reg, in.has_boundary ? dl->boundary : NULL);
    V_ASSERT(!r || RX_COMPILED(reg), "C17.create_regex.true_means_compiled");
    V_COVER(r); V_COVER(!r && !in.zck_null && in.err0 == 0 && reg != NULL && in.has_boundary);
}

void h_add_boundary_to_regex(void) {
    IN_mp in = nondet_IN_mp();
    zckDL *dl = mk_mpdl(&in);
    char *fmt = "\r\n--%s--";
    char *r = add_boundary_to_regex(dl->zck, fmt, dl->boundary);
    V_COVER(r != NULL); V_COVER(r == NULL && !in.zck_null && in.err0 == 0 && in.has_boundary);
}

void h_multipart_get_boundary(void) {
    IN_mp in = nondet_IN_mp();
    zckDL *dl = in.dl_null ? NULL : mk_mpdl(&in);
    V_ASSUME(in.size <= 24);
    char *b = malloc(in.size);
    V_ASSUME(b != NULL);
    V_TIE16(b, in.size, in.line, 0); V_TIE4(b, in.size, in.line, 16); V_TIE4(b, in.size, in.line, 20);
    char *b0 = dl ? dl->boundary : NULL;
    size_t r = multipart_get_boundary(dl, b, in.size);
    if(dl != NULL) {
        V_ASSERT(dl->hdr_regex == NULL || RX_COMPILED(dl->hdr_regex), "C17.multipart_get_boundary.no_uncompiled_pattern_left_behind_on_any_return");
        V_ASSERT(r == 0 || r == in.size, "C17.multipart_get_boundary.accepts_the_line_or_reports_zero");
    }
    V_COVER(dl != NULL && r == in.size && in.size > 10 && dl->boundary != b0 && __CPROVER_OBJECT_SIZE(dl->boundary) > 3);
    V_COVER(dl != NULL && r == in.size && in.size > 0 && dl->boundary == b0 && in.rx_state[0] == 0);
    V_COVER(dl != NULL && r == 0 && !in.zck_null && in.err0 == 0);
}

/* the download state dl_write_range expects (contracts/dl_range.h), as far as multipart.c can see it: one
 * ghost-named range entry whose src is "the chunk being filled, if any" */
static void mk_dlstate(IN_mp *in, zckDL *dl) {
    DR_NONE_INIT(); g_dr1 = g_dr2 = g_dr3 = DR_NONE;
    if(dl == NULL || dl->zck == NULL) return;
    zckCtx *zck = dl->zck;
    zck->fd = in->fd;
    zck->check_chunk_hash.ctx = NULL; zck->check_chunk_hash.type = in->ctx_typed ? &zck->chunk_hash_type : NULL;
    if(in->ctx_live) { zck->check_chunk_hash.ctx = malloc(1); V_ASSUME(zck->check_chunk_hash.ctx != NULL); }
    g_hu_hash = in->watch_chunk_hash ? &zck->check_chunk_hash : &zck->check_full_hash;
    g_hu_total = in->hu_total0; g_fpos[G_IX(in->fd)] = in->pos0;
    g_ww_fd = in->ww_fd; g_ww_off = in->ww_off; g_ww_hit = in->ww_hit0; g_ww_val = in->ww_val0;
    dl->range = NULL;
    if(!in->range_null) { dl->range = malloc(sizeof(zckRange)); V_ASSUME(dl->range != NULL); *dl->range = in->anyrange; }
    zckChunk *t = malloc(sizeof(*t)), *r = malloc(sizeof(*r));
    V_ASSUME(t != NULL && r != NULL);
    *t = in->anyc; *r = in->anyr; r->src = t; g_dr1 = r;
    if(r->next != NULL) r->next = r;                      /* DR_NAMED: links stay among the named nodes (here: one) */
    if(dl->range != NULL) { if(dl->range->index.first != NULL) dl->range->index.first = r; if(dl->range->index.current != NULL) dl->range->index.current = r; }
    dl->tgt_check = in->chk ? t : NULL;
    V_ASSUME(zck->error_state > 0 || DL_STATE(dl));
}
#ifndef MPX_FRAG
#define MPX_FRAG 10
#endif
void h_multipart_extract(void) {
    IN_mp in = nondet_IN_mp();
    V_ASSUME(!in.zck_null && !in.mp_null);
    zckDL *dl = mk_mpdl(&in);
    mk_dlstate(&in, dl);
    V_ASSUME(in.size <= MPX_FRAG);
    char *b = malloc(in.size);
    V_ASSUME(b != NULL);
    V_TIE16(b, in.size, in.line, 0);
    int had_carry = dl != NULL && dl->mp != NULL && dl->mp->buffer != NULL;
    int state0 = (dl != NULL && dl->mp != NULL) ? dl->mp->state : 0;
    size_t r = multipart_extract(dl, b, in.size);
    V_ASSERT(r == 0 || r >= in.size, "C17.multipart_extract.accepts_everything_or_reports_zero");
    if(dl != NULL) {
        V_ASSERT(dl->dl_regex == NULL || (RX_COMPILED(dl->dl_regex) && dl->end_regex != NULL && RX_COMPILED(dl->end_regex)), "C17.multipart_extract.no_uncompiled_pattern_left_behind_on_any_return");
        V_ASSERT(dl->mp == NULL || dl->mp->buffer == NULL || __CPROVER_OBJECT_SIZE(dl->mp->buffer) == dl->mp->buffer_len, "C17.multipart_extract.carried_buffer_length_equals_its_allocation_on_every_return");
    }
    V_COVER(r > 0 && state0 == 0 && dl->mp->state != 0 && dl->mp->length > 0);                 /* parsed a part header; payload continues in the next fragment */
    V_COVER(r > 0 && had_carry && state0 == 0 && dl->mp->state != 0);                           /* ... out of carried + new bytes */
    V_COVER(r > 0 && !had_carry && dl->mp->buffer != NULL && dl->mp->buffer_len > 2);           /* incomplete part header saved */
    V_COVER(r > 0 && state0 != 0 && dl->mp->state == 0 && in.size > 6);                        /* payload ended inside the fragment */
    V_COVER(r == 0 && !in.zck_null && in.err0 == 0 && state0 != 0 && in.size > 0);              /* dl_write_range refused */
    V_COVER(r > 0 && in.err0 == 0 && dl->zck->error_state > 0 && dl->mp->state == 0);           /* neither pattern matches */
}

void h_reset_mp(void) {
    IN_mp in = nondet_IN_mp();
    zckDL *dl = mk_mpdl(&in);
    reset_mp(dl->mp);
    V_ASSERT(dl->mp == NULL || (dl->mp->buffer == NULL && dl->mp->buffer_len == 0 && dl->mp->state == 0), "C17,C05.reset_mp.parser_back_to_start");
    V_COVER(dl->mp != NULL && in.buffer_len > 0); V_COVER(dl->mp == NULL);
}

#ifdef VERIF_NATIVE
#include "replay_in.h"
#endif
