/* multipart_extract (src/lib/dl/multipart.c), C17: the part-header scanner on arbitrary body bytes.
 * PLAIN bounded unit (no --dfcc): the real multipart_extract, gen_regex, add_boundary_to_regex, create_regex, zmalloc,
 * zrealloc bodies are executed symbolically; stand-ins with bodies only for what lies outside the file:
 *   regcomp/regfree/regexec  = the assumed model of stubs/regex.h (typestate in re_nsub; regexec: any verdict, any
 *                              in-string offsets) -- here with bodies instead of contracts;
 *   dl_write_range           = checks what it is handed (the bytes lie inside an allocated object) and returns any
 *                              count in [0, length], possibly raising the context's error state.
 * Reason for the plain mode: under --dfcc symbolic execution of this function did not finish in 25 minutes even for
 * 7 bytes (every pointer step of the scanner is instrumented against a 35-target write set). */
#include "spec/verif_zck.h"
#include <regex.h>
#define RX_MAGIC ((size_t)0x5258)
#define RX_COMPILED(p) ((p)->re_nsub == RX_MAGIC)
int nondet_rx_int(void); regoff_t nondet_rx_off(void); int nondet_int(void);
int regcomp(regex_t *preg, const char *pattern, int cflags) {
    __CPROVER_assert(__CPROVER_w_ok(preg, sizeof(regex_t)), "C17.regcomp.pattern_object_is_allocated");
    __CPROVER_assert(pattern != NULL && __CPROVER_r_ok(pattern, 1), "C17.regcomp.pattern_text_is_readable");
    if(nondet_rx_int()) { preg->re_nsub = 0; return REG_BADPAT; }
    preg->re_nsub = RX_MAGIC;
    return 0;
}
void regfree(regex_t *preg) {
    __CPROVER_assert(preg != NULL && __CPROVER_rw_ok(preg, sizeof(regex_t)), "C17.regfree.pattern_object_is_allocated");
    __CPROVER_assert(RX_COMPILED(preg), "C17.regfree.pattern_is_compiled");
    preg->re_nsub = 0;
}
int regexec(const regex_t *preg, const char *string, size_t nmatch, regmatch_t pmatch[], int eflags) {
    __CPROVER_assert(preg != NULL && __CPROVER_r_ok(preg, sizeof(regex_t)), "C17.regexec.pattern_object_is_allocated");
    __CPROVER_assert(RX_COMPILED(preg), "C17.regexec.pattern_is_compiled");
    size_t n = 0;
    while(string[n] != 0) n++;            /* an unterminated subject shows up as an out-of-bounds read here */
    if(nondet_rx_int()) return REG_NOMATCH;
    for(size_t i = 0; i < nmatch; i++) {
        regoff_t so = nondet_rx_off(), eo = nondet_rx_off();
        __CPROVER_assume(0 <= so && so <= eo && (size_t)eo <= n);
        pmatch[i].rm_so = so; pmatch[i].rm_eo = eo;
    }
    return 0;
}
static const char *g_cur_buf; static size_t g_cur_len;   /* not used by the checks: documentation of intent */
int dl_write_range(zckDL *dl, const char *at, size_t length) {
    __CPROVER_assert(dl != NULL && dl->zck != NULL, "C17,C05.multipart_extract.dl_write_range_gets_the_context");
    __CPROVER_assert(length <= INT_MAX && (length == 0 || __CPROVER_r_ok(at, length)), "C17,C05.multipart_extract.bytes_handed_to_dl_write_range_lie_inside_the_current_buffer");
    int r = nondet_int();
    __CPROVER_assume(r >= 0 && (size_t)r <= length);
    if(nondet_int()) dl->zck->error_state = 1;
    return r;
}
/* realloc: a stand-in body (ASSUMED libc model) instead of CBMC's library model, whose whole-object array copy between
 * two objects of symbolic size exhausts memory during propositional reduction (12 GB within a minute): new block of n
 * bytes, the common prefix copied byte by byte (at most MPX_FRAG + MPX_CARRY bytes exist in this unit), old block freed */
#ifndef MPX_FRAG
#define MPX_FRAG 10
#endif
#ifndef MPX_CARRY
#define MPX_CARRY 6
#endif
/* CBMC 6.11: a byte access through a pointer with symbolic offset into an object of SYMBOLIC size exhausts memory
 * during propositional reduction (12 GB within a minute for a dozen scanner steps; constant-size objects: 0.5 GB, 6 s).
 * Every buffer of this unit is therefore allocated with a CONSTANT size chosen by case distinction on the requested
 * size (exact size, so that the bounds checks remain the guard page); sizes outside the unit's range are excluded. */
static char *alloc_exact(size_t n) {
    switch(n) {
#define AX(k) case k: return malloc(k);
    AX(0) AX(1) AX(2) AX(3) AX(4) AX(5) AX(6) AX(7) AX(8) AX(9) AX(10) AX(11) AX(12) AX(13) AX(14) AX(15) AX(16) AX(64)
#undef AX
    default: __CPROVER_assume(0); return NULL;
    }
}
void *calloc(size_t a, size_t b) {          /* zmalloc: zero-filled block of a*b bytes */
    size_t n = a * b;
    char *q = alloc_exact(n);
    if(q != NULL) for(size_t k = 0; k < 64; k++) if(k < n) q[k] = 0;
    return q;
}
void *realloc(void *p, size_t n) {
    if(p == NULL) return alloc_exact(n);
    char *q = alloc_exact(n);
    if(q != NULL) {
        size_t old = __CPROVER_OBJECT_SIZE(p);
        for(size_t k = 0; k < MPX_FRAG + MPX_CARRY; k++) if(k < old && k < n) q[k] = ((const char *)p)[k];
        free(p);
    }
    return q;
}
#include "extracted_zalloc.c"
#include "src/lib/dl/multipart.c"

#ifndef MPX_FRAG
#define MPX_FRAG 10
#endif
#ifndef MPX_CARRY
#define MPX_CARRY 6
#endif
typedef struct {
    zckCtx anyz; zckDL anydl; zckMP anymp; regex_t anyrx[3];
    int err0, boundary_len, has_boundary, have_patterns, have_hdr;
    size_t size, buffer_len;
    char line[16]; char carry[8]; char bnd[4];
} IN_mpp;
V_INPUT(IN_mpp)

void h_multipart_extract_plain(void) {
    IN_mpp in = nondet_IN_mpp();
    V_ASSUME(in.err0 >= 0 && in.err0 <= 2);
    zckDL *dl = malloc(sizeof(*dl)); zckCtx *zck = malloc(sizeof(*zck)); zckMP *mp = malloc(sizeof(*mp));
    V_ASSUME(dl != NULL && zck != NULL && mp != NULL);
    *dl = in.anydl; *zck = in.anyz; *mp = in.anymp;
    zck->error_state = in.err0; dl->zck = zck; dl->mp = mp;
    dl->hdr_regex = dl->dl_regex = dl->end_regex = NULL;
#ifdef MPX_HAVE_PATTERNS
    /* the patterns exist (the state after a successful gen_regex, whose own unit proves its contract): keeps CBMC's
     * snprintf model, reached only through gen_regex -> add_boundary_to_regex, out of the formula */
    in.have_patterns = 1;
#endif
    if(in.have_patterns) {       /* both or neither (DL_RX_INV) */
        dl->dl_regex = malloc(sizeof(regex_t)); dl->end_regex = malloc(sizeof(regex_t));
        V_ASSUME(dl->dl_regex != NULL && dl->end_regex != NULL);
        *dl->dl_regex = in.anyrx[1]; *dl->end_regex = in.anyrx[2]; dl->dl_regex->re_nsub = RX_MAGIC; dl->end_regex->re_nsub = RX_MAGIC;
    }
    mp->buffer = NULL;
    V_ASSUME(in.buffer_len <= MPX_CARRY);
    if(in.buffer_len > 0) {
        mp->buffer = alloc_exact(in.buffer_len); V_ASSUME(mp->buffer != NULL); mp->buffer_len = in.buffer_len;
        for(size_t k = 0; k < MPX_CARRY; k++) if(k < in.buffer_len) mp->buffer[k] = in.carry[k];
    }
    dl->boundary = NULL;
    if(in.has_boundary) {
        V_ASSUME(in.boundary_len >= 0 && in.boundary_len <= 3);
        dl->boundary = malloc(in.boundary_len + 1); V_ASSUME(dl->boundary != NULL);
        for(int k = 0; k < 3; k++) if(k < in.boundary_len) { V_ASSUME(in.bnd[k] != 0); dl->boundary[k] = in.bnd[k]; }
        dl->boundary[in.boundary_len] = 0;
    }
    V_ASSUME(in.size <= MPX_FRAG);
    char *b = alloc_exact(in.size);
    V_ASSUME(b != NULL);
    for(size_t k = 0; k < MPX_FRAG; k++) if(k < in.size) b[k] = in.line[k];
    int had_carry = mp->buffer != NULL, state0 = mp->state;
    size_t r = multipart_extract(dl, b, in.size);
    V_ASSERT(r == 0 || r >= in.size, "C17.multipart_extract.accepts_everything_or_reports_zero");
    V_ASSERT((dl->dl_regex == NULL) == (dl->end_regex == NULL), "C17.multipart_extract.no_uncompiled_pattern_left_behind_on_any_return");
    V_ASSERT(dl->dl_regex == NULL || (__CPROVER_rw_ok(dl->dl_regex, sizeof(regex_t)) && RX_COMPILED(dl->dl_regex) && __CPROVER_rw_ok(dl->end_regex, sizeof(regex_t)) && RX_COMPILED(dl->end_regex)), "C17.multipart_extract.no_uncompiled_pattern_left_behind_on_any_return");
    V_ASSERT(mp->buffer == NULL || (mp->buffer_len > 0 && __CPROVER_rw_ok(mp->buffer, mp->buffer_len) && __CPROVER_POINTER_OFFSET(mp->buffer) == 0 && __CPROVER_OBJECT_SIZE(mp->buffer) == mp->buffer_len), "C17.multipart_extract.carried_buffer_length_equals_its_allocation_on_every_return");
    V_ASSERT(in.size == 0 || __CPROVER_rw_ok(b, in.size), "C17.multipart_extract.the_callers_buffer_is_not_freed");
    V_ASSERT(in.err0 == 0 || r == 0, "C17,C12.multipart_extract.context_in_error_is_refused");
    V_COVER(r > 0 && state0 == 0 && mp->state != 0 && mp->length > 0);                /* parsed a part header; payload continues in the next fragment */
    V_COVER(r > 0 && had_carry && state0 == 0 && mp->state != 0);                      /* ... out of carried + new bytes */
    V_COVER(r > 0 && !had_carry && mp->buffer != NULL && mp->buffer_len > 2);          /* incomplete part header saved */
    V_COVER(r > 0 && state0 != 0 && mp->state == 0 && in.size > 4);                    /* payload ended inside the fragment */
    V_COVER(r == 0 && in.err0 == 0 && state0 != 0 && in.size > 0);                     /* dl_write_range refused */
#ifndef MPX_HAVE_PATTERNS
    V_COVER(r > 0 && in.err0 == 0 && zck->error_state > 0 && !in.have_patterns);       /* patterns generated here, neither matches */
#else
    V_COVER(r > 0 && in.err0 == 0 && zck->error_state > 0);                            /* neither pattern matches */
#endif
}
#ifdef VERIF_NATIVE
#include "replay_in.h"
#endif
