/* Proof units for the uncompressed codec hooks (src/lib/comp/nocomp/nocomp.c), reader side: the REAL
 * hooks are enforced against the contracts the reader units assume for the stand-ins. */
#include "spec/verif_zck.h"
#include "spec/ghost.h"
GHOST_DEFS
#include "contracts/hash.h"
#include "contracts/hashfn.h"
#include "contracts/comp.h"

static bool end_dchunk(zckCtx *zck, zckComp *comp, const bool use_dict, const size_t fd_size)
CONTRACT_END_DCHUNK
;
static bool decompress(zckCtx *zck, zckComp *comp, const bool use_dict)
CONTRACT_DECOMPRESS
;
#include "extracted_zalloc.c"
#include "src/lib/comp/nocomp/nocomp.c"

typedef struct { int err0; size_t data_size0, dc_size0, dc_loc0, fd_size; int use_dict; } IN_nc;
V_INPUT(IN_nc)

static zckCtx *mk_nc(IN_nc *in) {
    V_ASSUME(in->err0 >= 0 && in->err0 <= 2);
    zckCtx *zck = calloc(1, sizeof(*zck));
    V_ASSUME(zck != NULL);
    zck->error_state = in->err0; zck->mode = ZCK_MODE_READ; zck->comp.type = ZCK_COMP_NONE;
    V_ASSUME(in->dc_loc0 <= in->dc_size0 && in->dc_size0 <= 32 && in->data_size0 <= 32);
    if(in->dc_size0) { zck->comp.dc_data = malloc(in->dc_size0); V_ASSUME(zck->comp.dc_data != NULL); }
    zck->comp.dc_data_size = in->dc_size0; zck->comp.dc_data_loc = in->dc_loc0;
    if(in->data_size0) { zck->comp.data = malloc(in->data_size0); V_ASSUME(zck->comp.data != NULL); }
    zck->comp.data_size = in->data_size0;
    return zck;
}

void h_nocomp_end_dchunk(void) {
    IN_nc in = nondet_IN_nc();
    zckCtx *zck = mk_nc(&in);
    bool r = end_dchunk(zck, &zck->comp, in.use_dict != 0, in.fd_size);
    V_COVER(r); V_COVER(!r);
}

void h_nocomp_decompress(void) {
    IN_nc in = nondet_IN_nc();
    zckCtx *zck = mk_nc(&in);
    V_ASSUME(in.data_size0 > 0);
    bool r = decompress(zck, &zck->comp, in.use_dict != 0);
    V_COVER(r && in.dc_size0 > in.dc_loc0); V_COVER(!r);
}

#ifdef VERIF_NATIVE
#include "replay_in.h"
#endif
