/* Proof units for the uncompressed codec hooks, WRITER side (src/lib/comp/nocomp/nocomp.c: compress, end_cchunk):
 * the REAL hooks are enforced against CONTRACT_COMPRESS / CONTRACT_END_CCHUNK, the text the writer units assume
 * for the stand-ins verif_compress / verif_end_cchunk (C01: pass-through output equals input). */
#include "spec/verif_zck.h"
#include "spec/ghost.h"
#include "spec/ghost_writer.h"
GHOST_DEFS
GHOST_WRITER_DEFS
#include "contracts/io.h"
#include "contracts/hashfn.h"
#include "contracts/writer.h"

static ssize_t compress(zckCtx *zck, zckComp *comp, const char *src, const size_t src_size, char **dst, size_t *dst_size, bool use_dict)
CONTRACT_COMPRESS
;
static bool end_cchunk(zckCtx *zck, zckComp *comp, char **dst, size_t *dst_size, bool use_dict)
CONTRACT_END_CCHUNK
;
#include "extracted_zalloc.c"
#include "src/lib/comp/nocomp/nocomp.c"

typedef struct { zckCtx any; size_t n, k1, k2; char *dst0; size_t dst_size0; int use_dict; } IN_ncw;
V_INPUT(IN_ncw)

static zckCtx *mk_ncw(IN_ncw *in) {
    zckCtx *zck = malloc(sizeof(*zck));
    V_ASSUME(zck != NULL);
    *zck = in->any;
    V_ASSUME(zck->error_state >= 0 && zck->error_state <= 2);     /* the only values the library ever stores */
    zck->comp.type = ZCK_COMP_NONE;
    zck->comp.dc_data = NULL;
    g_k1 = in->k1; g_k2 = in->k2; g_track = 0;
    return zck;
}

void h_nocomp_compress(void) {
    IN_ncw in = nondet_IN_ncw();
    zckCtx *zck = mk_ncw(&in);
    V_ASSUME(in.n >= 1);
    char *src = malloc(in.n);
    V_ASSUME(src != NULL);
    char *dst = in.dst0; size_t dst_size = in.dst_size0;
    ssize_t r = compress(zck, &zck->comp, src, in.n, &dst, &dst_size, in.use_dict != 0);
    V_COVER(r > 0 && in.n == 37 && dst_size == 37);
    V_COVER(r < 0 && in.any.error_state > 0);
    V_COVER(r < 0 && in.any.error_state == 0);          /* allocation failure must be reported */
}

void h_nocomp_end_cchunk(void) {
    IN_ncw in = nondet_IN_ncw();
    zckCtx *zck = mk_ncw(&in);
    char *dst = in.dst0; size_t dst_size = in.dst_size0;
    bool r = end_cchunk(zck, &zck->comp, &dst, &dst_size, in.use_dict != 0);
    V_COVER(r && dst == NULL && dst_size == 0);
    V_COVER(!r);
}

#ifdef VERIF_NATIVE
#include "replay_in.h"
#endif
