/* Proof units for the loop-free functions of src/lib/dl/range.c (C10): range_insert_new,
 * range_remove, zck_get_range_count.  The list-shaped functions are in units/range_b.c (bounded). */
#include "spec/verif_zck.h"
#include "spec/ghost.h"
#include "spec/ghost_range.h"
GHOST_DEFS
GHOST_RANGE_DEFS
#include "contracts/range.h"
#include "extracted_zalloc.c"
#include "extracted_hdrlen.c"
#include "src/lib/dl/range.c"

typedef struct {
    zckCtx anyz; zckRangeItem anyp, anyn; zckRange anyr; zckChunk anyc, anyl;
    int longer, zck_null, have_prev, have_next, have_info, have_last, add_index;
    uint64_t start, end;
    int dsize; unsigned rx0;
} IN_ins;
V_INPUT(IN_ins)

void h_range_insert_new(void) {
    IN_ins in = nondet_IN_ins();
    zckCtx *zck = NULL;
    if(!in.zck_null) { zck = malloc(sizeof(*zck)); V_ASSUME(zck != NULL); *zck = in.anyz; V_ASSUME(zck->error_state >= 0 && zck->error_state <= 2); }
    zckRangeItem *prev = NULL, *next = NULL;
    if(in.have_prev) { prev = malloc(sizeof(*prev)); V_ASSUME(prev != NULL); *prev = in.anyp; }
    if(in.have_next) { next = malloc(sizeof(*next)); V_ASSUME(next != NULL); *next = in.anyn; }
    zckRange *info = NULL; zckChunk *idx = NULL;
    V_ASSUME(in.add_index == 0 || in.have_info);
    if(in.have_info) {
        info = malloc(sizeof(*info)); V_ASSUME(info != NULL); *info = in.anyr;
        info->index.last = NULL; info->index.first = NULL;
        if(in.have_last) { info->index.last = malloc(sizeof(zckChunk)); V_ASSUME(info->index.last != NULL); *info->index.last = in.anyl;
            info->index.first = info->index.last;
            if(in.longer) { info->index.first = malloc(sizeof(zckChunk)); V_ASSUME(info->index.first != NULL); *info->index.first = in.anyl; } }
        idx = malloc(sizeof(*idx)); V_ASSUME(idx != NULL); *idx = in.anyc;
        V_ASSUME(in.dsize >= 0 && in.dsize <= 64);
        idx->digest_size = in.dsize;
        idx->digest = malloc(in.dsize); V_ASSUME(idx->digest != NULL);
        idx->digest_uncompressed = malloc(in.dsize); V_ASSUME(idx->digest_uncompressed != NULL);
    }
    V_ASSUME(in.rx0 < 1000);
    g_rx_n = in.rx0;
    zckRangeItem *old_pn = prev ? prev->next : NULL, *old_np = next ? next->prev : NULL;
    zckRangeItem *r = range_insert_new(zck, prev, next, in.start, in.end, info, idx, in.add_index);
    /* a failed insertion must leave the neighbours as they were: the caller goes on to walk and
     * free the list (zck_get_missing_range -> zck_range_free) */
    V_ASSERT(r != NULL || prev == NULL || prev->next == old_pn, "C10.range_insert_new.failure_leaves_predecessor_link_untouched");
    V_ASSERT(r != NULL || next == NULL || next->prev == old_np, "C10.range_insert_new.failure_leaves_successor_link_untouched");
    V_COVER(r != NULL && prev != NULL && next != NULL && in.add_index);
    V_COVER(r != NULL && prev == NULL && next == NULL && !in.add_index);
    V_COVER(r != NULL && prev == NULL && next != NULL);
    V_COVER(r == NULL && zck != NULL && in.anyz.error_state == 0 && in.add_index);
    V_COVER(r == NULL && zck == NULL);
}

typedef struct { zckRangeItem any, anyn; int have_next; } IN_rm;
V_INPUT(IN_rm)

void h_range_remove(void) {
    IN_rm in = nondet_IN_rm();
    zckRangeItem *it = malloc(sizeof(*it)); V_ASSUME(it != NULL); *it = in.any;
    it->next = NULL;
    if(in.have_next) { it->next = malloc(sizeof(zckRangeItem)); V_ASSUME(it->next != NULL); *it->next = in.anyn; }
    zckRangeItem *n = it->next;
    zckRangeItem *r = range_remove(NULL, it);
    V_COVER(r != NULL); V_COVER(r == NULL);
}

typedef struct { zckRange any; int is_null; } IN_cnt;
V_INPUT(IN_cnt)

void h_zck_get_range_count(void) {
    IN_cnt in = nondet_IN_cnt();
    zckRange *r = NULL;
    if(!in.is_null) { r = malloc(sizeof(*r)); V_ASSUME(r != NULL); *r = in.any; }
    int c = zck_get_range_count(r);
    V_COVER(c == -1 && r == NULL); V_COVER(c == 3); V_COVER(c == 0 && r != NULL);
}

#ifdef VERIF_NATIVE
#include "replay_in.h"
#endif
