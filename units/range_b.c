/* Bounded units for the list-shaped functions of src/lib/dl/range.c (C10): the REAL
 * zck_get_missing_range / range_add / range_merge_combined / range_insert_new / range_remove /
 * zck_range_free run on a chunk table of at most VERIF_N entries with symbolic stored sizes
 * (including 0), symbolic validity flags in {-1,0,1}, symbolic header length and every limit in
 * [-1, VERIF_N+1].  Plain CBMC: every callee (index_new_chunk, finish_chunk, get_digest_string,
 * index_clean, zmalloc ...) is the real body; only snprintf (stubs/snprintf_model.h) and uthash's
 * HASH_CLEAR (stubs/uthash_stub.h) are stand-ins.
 * The oracle below is written from the property statement (C10), not from the code. */
#define VERIF_UTHASH_STUB 1
#include "spec/verif_zck.h"
#include "spec/ghost.h"
GHOST_DEFS
#include "stubs/snprintf_model.h"
#include "extracted_zalloc.c"
#include "extracted_digest_string.c"
#include "extracted_index_new_chunk.c"
#include "extracted_hdrlen.c"
#include "extracted_index_clean.c"
#include "src/lib/dl/range.c"

#ifndef VERIF_N
#define VERIF_N 2
#endif
#define SZ_MAX ((size_t)1 << 40)
#ifndef VERIF_DSIZE_MAX
#define VERIF_DSIZE_MAX 2
#endif

typedef struct {
    zckCtx anyz;
    zckChunk anyc[VERIF_N];
    int nc;                       /* number of chunks, 0..VERIF_N */
    size_t clen[VERIF_N];
    int valid[VERIF_N];
    int dsize;
    size_t lead_size, header_length;
    int max_ranges;
    size_t b;                     /* solver-chosen byte offset ("for every byte of the file") */
} IN_mr;
V_INPUT(IN_mr)

static zckCtx b_zck;
static zckChunk b_chunks[VERIF_N];
static char b_digest[VERIF_N][64], b_digest_u[VERIF_N][64];

static zckCtx *mk_target(IN_mr *in) {
    V_ASSUME(in->nc >= 0 && in->nc <= VERIF_N);
    V_ASSUME(in->dsize >= 1 && in->dsize <= VERIF_DSIZE_MAX);
    V_ASSUME(in->lead_size <= SZ_MAX && in->header_length <= SZ_MAX);
    zckCtx *zck = &b_zck;
    *zck = in->anyz;
    V_ASSUME(zck->error_state >= 0 && zck->error_state <= 2);
    zck->lead_size = in->lead_size; zck->header_length = in->header_length;
    zck->index.first = NULL; zck->index.last = NULL; zck->index.count = in->nc;
    size_t start = 0;
    for(int i = 0; i < VERIF_N; i++) {
        if(i < in->nc) {
            zckChunk *c = &b_chunks[i];
            *c = in->anyc[i];
            V_ASSUME(in->clen[i] <= SZ_MAX && in->valid[i] >= -1 && in->valid[i] <= 1);
            c->comp_length = in->clen[i]; c->valid = in->valid[i]; c->start = start; c->number = i; c->zck = zck;
            c->digest_size = in->dsize; c->digest = b_digest[i]; c->digest_uncompressed = b_digest_u[i];
            c->next = NULL;
            start += in->clen[i];
            if(i == 0) zck->index.first = c; else b_chunks[i - 1].next = c;
            zck->index.last = c;
        }
    }
    zck->index.length = start;
    return zck;
}

/* ---- oracle (from the property text) ---------------------------------------------------------- */
#define HDR(in) ((in)->lead_size + (in)->header_length)
/* is byte offset b inside the stored extent of chunk i ? */
#define IN_EXTENT(in, i, b) ((b) >= HDR(in) + b_chunks[i].start && (b) - (HDR(in) + b_chunks[i].start) < (in)->clen[i])

static void check_request(IN_mr *in, zckRange *r) {
    /* 1. shape of the range list */
    size_t rs[VERIF_N + 1], re[VERIF_N + 1];
    int len = 0; bool too_long = false;
    zckRangeItem *it = r->first;
    for(int j = 0; j < VERIF_N + 1; j++) {
        if(it != NULL) { rs[j] = it->start; re[j] = it->end; len = j + 1; it = it->next; }
    }
    V_ASSERT(it == NULL, "C10.zck_get_missing_range.no_more_ranges_than_chunks");
    if(it != NULL) return;
    for(int j = 0; j < VERIF_N + 1; j++) {
        if(j < len) {
            V_ASSERT(rs[j] <= re[j], "C10.zck_get_missing_range.every_range_has_start_le_end");
            if(j > 0) V_ASSERT(re[j - 1] < rs[j] && rs[j] - re[j - 1] >= 2, "C10.zck_get_missing_range.ranges_ascending_disjoint_non_adjacent");
        }
    }
    V_ASSERT(r->count == (unsigned)len, "C10.zck_get_missing_range.count_equals_number_of_ranges");
    V_ASSERT(zck_get_range_count(r) == len, "C10.zck_get_range_count.equals_number_of_ranges");
    int lim = in->max_ranges < 1 ? 1 : in->max_ranges;
    V_ASSERT(in->max_ranges < 0 || len <= lim, "C10.zck_get_missing_range.at_most_max_limit_1_ranges");

    /* the range index as a table (request order) */
    zckChunk *g_rx_src[VERIF_N + 1]; size_t g_rx_size[VERIF_N + 1]; unsigned g_rx_n = 0;
    zckChunk *e = r->index.first; size_t payload = 0;
    for(int j = 0; j < VERIF_N + 1; j++) {
        if(e != NULL) {
            g_rx_src[j] = e->src; g_rx_size[j] = e->comp_length; g_rx_n = j + 1;
            /* interface to the response writer (C04/C05): an entry's start is the position of its
             * chunk in the concatenated payload of the requested ranges, and it is not yet valid */
            V_ASSERT(e->start == payload, "C10,C04.zck_get_missing_range.range_index_offsets_are_payload_positions");
            V_ASSERT(e->valid == 0, "C10,C04.zck_get_missing_range.range_index_entries_start_unverified");
            payload += e->comp_length;
            e = e->next;
        }
    }
    V_ASSERT(e == NULL, "C10.zck_get_missing_range.range_index_no_longer_than_chunk_table");
    if(e != NULL) return;
    /* 2. covered chunks = the range index entries, a prefix of the missing chunks in
     *    file order, each with its stored size.  A missing chunk that stores no bytes has an empty
     *    extent: the statement does not say whether it is listed, so it may be listed or skipped. */
    unsigned k = 0; bool ended = false; int missing = 0, missing_nonempty = 0; bool covered[VERIF_N];
    for(int i = 0; i < VERIF_N; i++) {
        covered[i] = false;
        if(i < in->nc && in->valid[i] == 0) {
            missing++;
            if(in->clen[i] > 0) missing_nonempty++;
            if(k < g_rx_n && g_rx_src[k] == &b_chunks[i]) {
                V_ASSERT(!ended, "C10.zck_get_missing_range.covered_chunks_are_a_prefix_of_the_missing_ones");
                V_ASSERT(g_rx_size[k] == in->clen[i], "C10.zck_get_missing_range.range_index_carries_stored_sizes");
                covered[i] = true; k++;
            } else if(in->clen[i] > 0) {
                ended = true;
            }
        }
    }
    V_ASSERT(k == g_rx_n, "C10.zck_get_missing_range.range_index_lists_missing_chunks_in_file_order");
    V_ASSERT(r->index.count == g_rx_n, "C10.zck_get_missing_range.range_index_count");
    V_ASSERT(in->max_ranges >= 0 || !ended, "C10.zck_get_missing_range.unlimited_request_covers_every_missing_chunk");
    V_ASSERT(missing_nonempty == 0 || k >= 1, "C10.zck_get_missing_range.at_least_one_chunk_when_any_is_missing");
    V_ASSERT(missing_nonempty > 0 || len == 0, "C10.zck_get_missing_range.nothing_requested_when_nothing_is_missing");

    /* 3. union of the ranges == union of the covered chunks' extents, for the solver-chosen byte b;
     *    never the header, never a byte of a chunk that is not missing */
    bool in_range = false, in_cov = false, in_other = false;
    for(int j = 0; j < VERIF_N + 1; j++)
        if(j < len && rs[j] <= in->b && in->b <= re[j]) in_range = true;
    for(int i = 0; i < VERIF_N; i++) {
        if(i < in->nc && IN_EXTENT(in, i, in->b)) { if(covered[i]) in_cov = true; if(in->valid[i] != 0) in_other = true; }
    }
    V_ASSERT(!in_cov || in_range, "C10.zck_get_missing_range.every_byte_of_a_covered_chunk_is_requested");
    V_ASSERT(!in_range || in_cov, "C10.zck_get_missing_range.only_bytes_of_covered_chunks_are_requested");
    V_ASSERT(!in_range || in->b >= HDR(in), "C10.zck_get_missing_range.header_never_requested");
    V_ASSERT(!in_range || !in_other, "C10.zck_get_missing_range.valid_chunk_bytes_never_requested");
}

#ifndef VERIF_RANGE_B_NO_HARNESS   /* units/compose.c (C04) includes this file for mk_target / check_request only */
void h_zck_get_missing_range(void) {
    IN_mr in = nondet_IN_mr();
    zckCtx *zck = mk_target(&in);
    V_ASSUME(in.max_ranges >= -1 && in.max_ranges <= VERIF_N + 1);
#ifdef VERIF_MID_PRESENT
    /* quick-tier slice of the N = 3 table: the middle chunk is not missing, so that two separate
     * ranges (and the limit cutting between them) are inside the slice */
    V_ASSUME(in.nc == VERIF_N && in.valid[1] != 0 && in.clen[1] > 0);
#endif
    zckRange *r = zck_get_missing_range(zck, in.max_ranges);
#ifdef VERIF_NO_OOM
    V_ASSERT((r != NULL) == (in.anyz.error_state == 0), "C10.zck_get_missing_range.answers_iff_context_is_usable");
#endif
    bool got = r != NULL;
    if(r != NULL) {
        check_request(&in, r);
        V_COVER(r->count == (VERIF_N + 1) / 2 && in.max_ranges == -1);     /* as many separate ranges as the table allows */
#ifndef VERIF_MID_PRESENT
        V_COVER(r->count == 1 && r->index.count == VERIF_N);                 /* everything merged into one range */
#else
        V_COVER(r->count == 2 && in.max_ranges == 2);                        /* two separate ranges, exactly at the limit */
#endif
        V_COVER(r->count == 1 && in.max_ranges == 1 && in.nc == VERIF_N && in.valid[VERIF_N - 1] == 0 && r->index.count == 1);   /* limit cut the request short */
        V_COVER(r->count == 0 && in.nc == VERIF_N);
        V_COVER(in.max_ranges == 0);
        zck_range_free(&r);
        V_ASSERT(r == NULL, "C10.zck_range_free.clears_the_handle");
    }
#ifndef VERIF_NO_OOM
    V_COVER(!got && in.anyz.error_state == 0);
#endif
    V_COVER(!got && in.anyz.error_state > 0);
}

#ifdef VERIF_NATIVE
#include "replay_in.h"
#endif
#endif /* VERIF_RANGE_B_NO_HARNESS */
