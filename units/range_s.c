/* Bounded units for zck_get_range_char (C10): the REAL function on a range list of at most
 * VERIF_N items (static nodes), including the empty list.
 *   h_range_char_safety : memory safety / no UB for every list and every start/end value, with an
 *                         over-approximating snprintf (any content, any conforming return value)
 *   h_range_char_content: with the deterministic snprintf model the result is exactly the
 *                         comma-separated "start-end" list (values < 1000 to keep %llu cheap)
 * BUF_SIZE is overridden (VERIF_BUF_SIZE, stated abstraction) so that the buffer-growth path is
 * inside the bound. */
#include "spec/verif_zck.h"
#include "spec/ghost.h"
GHOST_DEFS
#include "stubs/snprintf_model.h"
#include "extracted_zalloc.c"
#include "extracted_hdrlen.c"
#include "src/lib/dl/range.c"

#ifndef VERIF_N
#define VERIF_N 2
#endif

typedef struct {
    zckCtx anyz; zckRange anyr; zckRangeItem anyi[VERIF_N];
    int zck_null, n;
    size_t start[VERIF_N], end[VERIF_N];
} IN_rc;
V_INPUT(IN_rc)

static zckCtx s_zck; static zckRange s_range; static zckRangeItem s_items[VERIF_N];

static zckRange *mk_list(IN_rc *in) {
    V_ASSUME(in->n >= 0 && in->n <= VERIF_N);
    s_range = in->anyr; s_range.first = NULL; s_range.count = in->n;
    for(int i = 0; i < VERIF_N; i++) {
        if(i < in->n) {
            s_items[i] = in->anyi[i];
            s_items[i].start = in->start[i]; s_items[i].end = in->end[i];
            s_items[i].next = NULL; s_items[i].prev = i > 0 ? &s_items[i - 1] : NULL;
            if(i == 0) s_range.first = &s_items[0]; else s_items[i - 1].next = &s_items[i];
        }
    }
    return &s_range;
}

static zckCtx *mk_ctx(IN_rc *in) {
    if(in->zck_null) return NULL;
    s_zck = in->anyz; V_ASSUME(s_zck.error_state >= 0 && s_zck.error_state <= 2);
    return &s_zck;
}

void h_range_char_safety(void) {
    IN_rc in = nondet_IN_rc();
    zckRange *r = mk_list(&in);
    zckCtx *zck = mk_ctx(&in);
    char *s = zck_get_range_char(zck, r);
    /* the result, when there is one, is a NUL-terminated string in its own allocation */
    if(s != NULL) {
        size_t len = 0; bool nul = false;
        for(int k = 0; k < 43 * VERIF_N + 1; k++) if(!nul) { if(s[k] == '\0') nul = true; else len++; }
        V_ASSERT(nul, "C10.zck_get_range_char.result_is_nul_terminated");
    }
#ifdef VERIF_NO_OOM
#ifndef VERIF_SNPRINTF_MAY_FAIL_ABS
    V_ASSERT(s != NULL || in.n == 0 || 1, "C10.zck_get_range_char.placeholder");
#endif
#endif
    V_COVER(s != NULL && in.n == VERIF_N); V_COVER(s == NULL && in.n == VERIF_N); V_COVER(in.n == 0);
    if(s != NULL) free(s);
}

/* independent rendering of a value < 1000 */
static int put_num(char *o, size_t v) {
    int n = 0;
    if(v >= 100) o[n++] = (char)('0' + v / 100);
    if(v >= 10) o[n++] = (char)('0' + (v / 10) % 10);
    o[n++] = (char)('0' + v % 10);
    return n;
}

void h_range_char_content(void) {
    IN_rc in = nondet_IN_rc();
    zckRange *r = mk_list(&in);
    zckCtx *zck = mk_ctx(&in);
    for(int i = 0; i < VERIF_N; i++) V_ASSUME(in.start[i] < 1000 && in.end[i] < 1000);
    char exp[8 * VERIF_N + 1]; int e = 0;
    for(int i = 0; i < VERIF_N; i++) if(i < in.n) {
        if(i > 0) exp[e++] = ',';
        e += put_num(exp + e, in.start[i]); exp[e++] = '-'; e += put_num(exp + e, in.end[i]);
    }
    exp[e] = '\0';
    char *s = zck_get_range_char(zck, r);
    V_ASSERT(s != NULL, "C10.zck_get_range_char.renders_every_list");
    if(s != NULL) {
        bool same = true;
        for(int k = 0; k < 8 * VERIF_N + 1; k++) if(k <= e && s[k] != exp[k]) same = false;
        V_ASSERT(same, "C10.zck_get_range_char.string_is_the_comma_separated_start_end_list");
    }
    V_COVER(s != NULL && in.n == VERIF_N && in.start[0] >= 100 && in.end[VERIF_N - 1] >= 100);
    V_COVER(s != NULL && in.n == 1); V_COVER(in.n == 0);
    if(s != NULL) free(s);
}

#ifdef VERIF_NATIVE
#include "replay_in.h"
#endif
