/* Proof units for the validity scan of src/lib/hash/hash.c (C09, C12): validate_checksums, zck_validate_data_checksum and
 * the public wrappers.  Chunk list: ghost-named nodes, at most VERIF_SCAN_NODES entries (default 2). */
#include "spec/verif_zck.h"
#include "spec/ghost.h"
GHOST_DEFS
#include "contracts/io.h"
#include "contracts/hash.h"
#include "contracts/hashfn.h"
#include "contracts/scan.h"
#include "extracted_zalloc.c"
#include "src/lib/hash/hash.c"

#ifndef VERIF_SCAN_NODES
#define VERIF_SCAN_NODES 2
#endif
/* position of the cursor counted from the end of the (at most three entry) list; branch-free: decreases clauses must be side-effect free */
#define SC_RANK(p) ((size_t)((p) != NULL) + (size_t)(((p) != NULL) & ((p) != g_n3)) + (size_t)(((p) != NULL) & ((p) != g_n3) & ((p) != g_n2)))

/* cover goals ask for a chunk of more than one block (unwound units) resp. more than two blocks (inductive units) */
#ifdef VERIF_SCAN_MAXLEN
#define SC_BIG BUF_SIZE
#else
#define SC_BIG (2 * BUF_SIZE + 1)
#endif
typedef struct {
    zckCtx any; int err0, ctype, htype, n_nodes; zckChunk anyc[3];
    int cctx_live, cchunk_typed, cfull_live, cfull_typed, watch_full;
    size_t hu_total0, hu_k, k1; unsigned hu_seen0, hu_final0, hu_inits0;
    g_off_t pos0[G_NFD]; size_t rd0[G_NFD]; int failed0; int log_type;
} IN_sc;
V_INPUT(IN_sc)

static zckChunk *sc_nodes[3];
static zckCtx *mk_scan(IN_sc *in) {
    V_ASSUME(in->err0 >= 0 && in->err0 <= 2 && SPEC_HASH_VALID(in->ctype) && SPEC_HASH_VALID(in->htype));
    V_ASSUME(in->hu_final0 < 1000 && in->hu_inits0 < 1000 && in->hu_seen0 < 1000 && (in->failed0 == 0 || in->failed0 == 1));
    V_ASSUME(in->n_nodes >= 1 && in->n_nodes <= VERIF_SCAN_NODES);
    /* every field the precondition does not mention is arbitrary */
    zckCtx *zck = malloc(sizeof(*zck));
    V_ASSUME(zck != NULL);
    *zck = in->any; zck->error_state = in->err0;
#ifdef VERIF_SC_HUS
    zck->has_uncompressed_source = VERIF_SC_HUS;   /* case split (units json "variants"): with / without the uncompressed-source flag */
#endif
#ifdef VERIF_SC_WATCH
    in->watch_full = VERIF_SC_WATCH;                /* case split: the ghost hash model watches the data hash (1) / the chunk hash (0) */
#endif
    zck->fd = 3;   /* fixed descriptor number: constant index into the per-descriptor ghost arrays (solver cost); the scan only passes it on */
    zck->chunk_hash_type.type = in->ctype; zck->chunk_hash_type.digest_size = SPEC_DIGEST_SIZE(in->ctype);
    zck->hash_type.type = in->htype; zck->hash_type.digest_size = SPEC_DIGEST_SIZE(in->htype);
    zck->full_hash_digest = malloc(zck->hash_type.digest_size);
    V_ASSUME(zck->full_hash_digest != NULL);
    size_t start = 0; zckChunk *prev = NULL; zck->index.first = NULL;
    for(int i = 0; i < 3; i++) {
        sc_nodes[i] = NULL;
        if(i < in->n_nodes) {
            zckChunk *c = malloc(sizeof(*c));
            V_ASSUME(c != NULL);
            *c = in->anyc[i];
            c->zck = zck; c->digest_size = SPEC_DIGEST_SIZE(in->ctype); c->next = NULL;
            c->digest = malloc(c->digest_size);
            V_ASSUME(c->digest != NULL);
#ifdef VERIF_SCAN_MAXLEN
            V_ASSUME(c->comp_length <= VERIF_SCAN_MAXLEN);   /* fully unwound units: at most two full blocks and a partial one per chunk */
#endif
            c->start = start; start += c->comp_length;
            if(prev) prev->next = c; else zck->index.first = c;
            prev = c; sc_nodes[i] = c; g_sc_valid0[i] = c->valid;
        }
    }
    g_n1 = sc_nodes[0]; g_n2 = sc_nodes[1]; g_n3 = sc_nodes[2];
    V_ASSUME(g_n1->length != 0 || g_n1->comp_length == 0);   /* SC_PRE: a dictionary entry of uncompressed size 0 stores no bytes */
    g_scan_total = start;
    zck->check_chunk_hash.ctx = NULL; zck->check_chunk_hash.type = NULL; zck->check_full_hash.ctx = NULL; zck->check_full_hash.type = NULL;
    if(in->cctx_live) { zck->check_chunk_hash.ctx = malloc(1); V_ASSUME(zck->check_chunk_hash.ctx != NULL); }
    if(in->cchunk_typed) zck->check_chunk_hash.type = &zck->chunk_hash_type;
    if(in->cfull_live) { zck->check_full_hash.ctx = malloc(1); V_ASSUME(zck->check_full_hash.ctx != NULL); }
    if(in->cfull_typed) zck->check_full_hash.type = &zck->hash_type;
    g_hu_hash = in->watch_full ? &zck->check_full_hash : &zck->check_chunk_hash;
    g_hu_total = in->hu_total0; g_hu_k = in->hu_k; g_hu_seen = in->hu_seen0; g_hu_final = in->hu_final0; g_hu_inits = in->hu_inits0; g_k1 = in->k1;
    for(int i = 0; i < G_NFD; i++) { g_fpos[i] = in->pos0[i]; g_rd_bytes[i] = in->rd0[i]; }
    g_io_failed = in->failed0;
    return zck;
}
/* cover goals; the ones that need a particular flag / watched hash exist only in the variants where they are reachable */
#if !defined(VERIF_SC_HUS) || VERIF_SC_HUS == 0
#define SC_COVERS_PLAIN(r, zck, in) \
    V_COVER(r == 1 && !zck->header_only && !zck->has_uncompressed_source && in.n_nodes == 2 && g_n1->length > 0 && g_n2->comp_length > SC_BIG); \
    V_COVER(r == -1 && !zck->header_only && !zck->has_uncompressed_source && in.n_nodes == 2 && g_n1->valid == -1 && g_n2->valid == -1 && g_sc_valid0[0] == 1 && g_sc_valid0[1] == 1 && g_rd_bytes[G_IX(zck->fd)] - in.rd0[G_IX(zck->fd)] == g_scan_total)
#else
#define SC_COVERS_PLAIN(r, zck, in) V_COVER(r == 1 && zck->has_uncompressed_source && !zck->header_only && in.n_nodes == 2)
#endif
#define SC_COVERS(r, zck, in) \
    SC_COVERS_PLAIN(r, zck, in); \
    V_COVER(r == 1 && !zck->header_only && g_n1->length == 0 && in.n_nodes == 2); \
    V_COVER(r == -1 && in.n_nodes == 2 && g_n1->valid == 1 && g_n2->valid == -1); \
    V_COVER(r == 1 && zck->header_only && in.n_nodes == 2); \
    V_COVER(r == 0 && in.err0 == 0 && zck->mode == ZCK_MODE_READ && zck->data_offset != 0 && g_rd_bytes[G_IX(zck->fd)] > in.rd0[G_IX(zck->fd)])

void h_validate_checksums(void) {
    IN_sc in = nondet_IN_sc();
    zckCtx *zck = mk_scan(&in);
    int r = validate_checksums(zck, (zck_log_type)in.log_type);
    SC_COVERS(r, zck, in);
}

void h_zck_find_valid_chunks(void) {
    IN_sc in = nondet_IN_sc();
    zckCtx *zck = mk_scan(&in);
    int r = zck_find_valid_chunks(zck);
    V_COVER(r == 1); V_COVER(r == -1); V_COVER(r == 0 && in.err0 == 0 && zck->mode == ZCK_MODE_READ); V_COVER(r == 0 && in.err0 > 0);
}

void h_zck_validate_checksums(void) {
    IN_sc in = nondet_IN_sc();
    zckCtx *zck = mk_scan(&in);
    int r = zck_validate_checksums(zck);
    V_COVER(r == 1); V_COVER(r == -1); V_COVER(r == 0 && in.err0 == 0 && zck->mode == ZCK_MODE_READ); V_COVER(r == 0 && in.err0 > 0);
}

void h_zck_validate_data_checksum(void) {
    IN_sc in = nondet_IN_sc();
    zckCtx *zck = mk_scan(&in);
    int r = zck_validate_data_checksum(zck);
#if !defined(VERIF_SC_HUS) || VERIF_SC_HUS == 0
    V_COVER(r == 1 && !zck->has_uncompressed_source && in.n_nodes == 2 && g_n1->comp_length > 0 && g_n2->comp_length > SC_BIG);
    V_COVER(r == -1 && !zck->has_uncompressed_source);
    V_COVER(r == 0 && in.err0 == 0 && zck->mode == ZCK_MODE_READ && !zck->has_uncompressed_source && g_rd_bytes[G_IX(zck->fd)] > in.rd0[G_IX(zck->fd)]);
#else
    V_COVER(r == 1 && zck->has_uncompressed_source); V_COVER(r == -1 && zck->has_uncompressed_source);
#endif
}

/* ---- control-only units (-DVERIF_CTL): arbitrary context, no list shape ---------------------------------------------
 * Two fully nondeterministic chunk records; each `next` is NULL, the record itself or the other one (cycles included),
 * index.first is NULL or the first record.  Every iteration of a walk over any list is an instance of an iteration here.
 * What the harness fixes: the descriptor number (3), the index invariant of an entry (entry->zck is the context, digest buffer
 * of the chunk checksum's size: precondition of validate_chunk), the type invariant 0 <= error_state <= 2. */
typedef struct {
    zckCtx any; zckChunk c[2]; int first_null, nx[2], ctype, htype;
    int cctx_live, cchunk_typed, cfull_live, cfull_typed, watch_full;
    size_t hu_total0, hu_k, k1; unsigned hu_seen0, hu_final0, hu_inits0;
    g_off_t pos0[G_NFD]; size_t rd0[G_NFD]; int failed0; int log_type;
} IN_scc;
V_INPUT(IN_scc)

static zckCtx *mk_scan_ctl(IN_scc *in) {
    V_ASSUME(SPEC_HASH_VALID(in->ctype) && SPEC_HASH_VALID(in->htype));
    V_ASSUME(in->hu_final0 < 1000 && in->hu_inits0 < 1000 && in->hu_seen0 < 1000 && (in->failed0 == 0 || in->failed0 == 1));
    zckCtx *zck = malloc(sizeof(*zck));
    V_ASSUME(zck != NULL);
    *zck = in->any;
    V_ASSUME(zck->error_state >= 0 && zck->error_state <= 2);
    zck->fd = 3;
    zck->chunk_hash_type.type = in->ctype; zck->chunk_hash_type.digest_size = SPEC_DIGEST_SIZE(in->ctype);
    zck->hash_type.type = in->htype; zck->hash_type.digest_size = SPEC_DIGEST_SIZE(in->htype);
    zck->full_hash_digest = malloc(zck->hash_type.digest_size);
    V_ASSUME(zck->full_hash_digest != NULL);
    zckChunk *r[2];
    for(int i = 0; i < 2; i++) {
        r[i] = malloc(sizeof(zckChunk));
        V_ASSUME(r[i] != NULL);
        *r[i] = in->c[i];
        r[i]->zck = zck; r[i]->digest_size = SPEC_DIGEST_SIZE(in->ctype);
        r[i]->digest = malloc(r[i]->digest_size);
        V_ASSUME(r[i]->digest != NULL);
        g_sc_valid0[i] = r[i]->valid;
    }
    for(int i = 0; i < 2; i++) r[i]->next = in->nx[i] == 0 ? NULL : in->nx[i] == 1 ? r[0] : r[1];   /* not even acyclicity is assumed */
    zck->index.first = in->first_null ? NULL : r[0];
    g_n1 = r[0]; g_n2 = r[1]; g_n3 = NULL; g_sc_valid0[2] = 0; g_scan_total = 0;
    zck->check_chunk_hash.ctx = NULL; zck->check_chunk_hash.type = NULL; zck->check_full_hash.ctx = NULL; zck->check_full_hash.type = NULL;
    if(in->cctx_live) { zck->check_chunk_hash.ctx = malloc(1); V_ASSUME(zck->check_chunk_hash.ctx != NULL); }
    if(in->cchunk_typed) zck->check_chunk_hash.type = &zck->chunk_hash_type;
    if(in->cfull_live) { zck->check_full_hash.ctx = malloc(1); V_ASSUME(zck->check_full_hash.ctx != NULL); }
    if(in->cfull_typed) zck->check_full_hash.type = &zck->hash_type;
    g_hu_hash = in->watch_full ? &zck->check_full_hash : &zck->check_chunk_hash;
    g_hu_total = in->hu_total0; g_hu_k = in->hu_k; g_hu_seen = in->hu_seen0; g_hu_final = in->hu_final0; g_hu_inits = in->hu_inits0; g_k1 = in->k1;
    for(int i = 0; i < G_NFD; i++) { g_fpos[i] = in->pos0[i]; g_rd_bytes[i] = in->rd0[i]; }
    g_io_failed = in->failed0;
    return zck;
}

void h_validate_checksums_ctl(void) {
    IN_scc in = nondet_IN_scc();
    zckCtx *zck = mk_scan_ctl(&in);
    int err0 = zck->error_state;
    int r = validate_checksums(zck, (zck_log_type)in.log_type);
    V_ASSERT(r == 0 || (err0 == 0 && zck->error_state == 0), "C12,C09.validate_checksums.no_verdict_once_an_error_arose_seen_by_the_caller");
    /* a two-entry list, both chunks judged valid, the second one longer than two blocks */
    V_COVER(r == 1 && !zck->header_only && !zck->has_uncompressed_source && in.watch_full && in.nx[0] == 2 && in.nx[1] == 0 && g_n1->length > 0 && g_n1->comp_length > 0 && g_n2->comp_length > 2 * BUF_SIZE + 1 && g_n1->valid == 1 && g_n2->valid == 1 && g_sc_valid0[0] == -1);
    /* all chunks match, data checksum does not */
    V_COVER(r == -1 && !zck->header_only && !zck->has_uncompressed_source && in.watch_full && g_hu_final == in.hu_final0 + 1 && in.nx[0] == 0 && g_n1->length > 0 && g_n1->valid == -1 && g_sc_valid0[0] == 1);
    /* a chunk that is cut short */
    V_COVER(r == -1 && in.failed0 == 0 && g_io_failed == 1 && in.nx[0] == 0 && g_n1->valid == -1 && g_sc_valid0[0] == 1);
    V_COVER(r == 1 && zck->header_only && in.nx[0] == 2 && g_n1->length > 0);
    V_COVER(r == 1 && !zck->header_only && g_n1->length == 0 && in.nx[0] == 2 && in.nx[1] == 0);
    V_COVER(r == 1 && zck->has_uncompressed_source && !zck->header_only && in.nx[0] == 2 && in.nx[1] == 0);
    V_COVER(r == 1 && in.first_null);
    V_COVER(r == 0 && err0 == 0 && zck->mode == ZCK_MODE_READ && zck->data_offset != 0 && g_rd_bytes[G_IX(zck->fd)] > in.rd0[G_IX(zck->fd)]);
}

void h_zck_validate_data_checksum_ctl(void) {
    IN_scc in = nondet_IN_scc();
    zckCtx *zck = mk_scan_ctl(&in);
    int err0 = zck->error_state;
    int r = zck_validate_data_checksum(zck);
    V_ASSERT(r == 0 || (err0 == 0 && zck->error_state == 0), "C12,C09.zck_validate_data_checksum.no_verdict_once_an_error_arose_seen_by_the_caller");
    V_COVER(r == 1 && !zck->has_uncompressed_source && in.watch_full && in.nx[0] == 2 && in.nx[1] == 0 && g_n1->comp_length > 0 && g_n2->comp_length > 2 * BUF_SIZE + 1);
    V_COVER(r == -1 && !zck->has_uncompressed_source && in.nx[0] == 0 && g_n1->comp_length > 0);
    V_COVER(r == 0 && err0 == 0 && zck->mode == ZCK_MODE_READ && !zck->has_uncompressed_source && g_rd_bytes[G_IX(zck->fd)] > in.rd0[G_IX(zck->fd)]);
    V_COVER(r == 1 && zck->has_uncompressed_source); V_COVER(r == -1 && zck->has_uncompressed_source);
    V_COVER(r == 1 && !zck->has_uncompressed_source && in.first_null);
}

#ifdef VERIF_NATIVE
#include "replay_in.h"
#endif
