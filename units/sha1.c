/* C18 proof units for the buffering layer of src/lib/hash/bundled/sha1/sha1.c (SHA1_Transform by its caller-view
 * contract; SHA1_Final uses SHA1_Update through the contract that SHA1_Update's own unit enforces). */
#include "spec/verif_prelude.h"
#include "spec/ghost.h"
#include "spec/ghost_sha.h"
GHOST_DEFS
GHOST_SHA_DEFS
#include "contracts/sha.h"
#include "stubs/libc_memcpy_loop.h"
#include "src/lib/hash/bundled/sha1/sha1.c"

typedef struct { g_u64 tb_total, tby_k; unsigned tby_seen; unsigned char tby_val; size_t k1; g_u64 last_h[5]; } IN_gh1;
static void ghost_sha_setup(const IN_gh1 *g) {
    V_ASSUME(g->tb_total < (1ull << 50) && g->tby_seen < 1000);
    g_tb_total = g->tb_total; g_tby_k = g->tby_k; g_tby_seen = g->tby_seen; g_tby_val = g->tby_val; g_k1 = g->k1;
    g_last_h[0] = g->last_h[0]; g_last_h[1] = g->last_h[1]; g_last_h[2] = g->last_h[2]; g_last_h[3] = g->last_h[3]; g_last_h[4] = g->last_h[4];
}
#if defined(VERIF_LEN_FITS) && defined(VERIF_CASE_NOBLOCK)      /* no block completes */
#define LEN_CASE(ol, len) V_ASSUME((g_u64)(ol) + (g_u64)(len) < VERIF_BS)
#elif defined(VERIF_LEN_FITS) && defined(VERIF_CASE_BLOCKS)     /* at least one block completes */
#define LEN_CASE(ol, len) V_ASSUME((len) <= SHA_MAX_SINGLE_UPDATE && (g_u64)(ol) + (g_u64)(len) >= VERIF_BS)
#elif defined(VERIF_LEN_FITS)
#define LEN_CASE(ol, len) V_ASSUME((g_u64)(ol) + (g_u64)(len) <= 0xffffffffull)
#elif defined(VERIF_LEN_WRAPS)
#define LEN_CASE(ol, len) V_ASSUME((g_u64)(ol) + (g_u64)(len) > 0xffffffffull)
#else
#define LEN_CASE(ol, len) ((void)0)
#endif

typedef struct { SHA_CTX c; unsigned len; IN_gh1 g; } IN_u1;
V_INPUT(IN_u1)
void h_sha1_update(void) {
    IN_u1 in = nondet_IN_u1();
    V_ASSUME((in.c.count[0] & 7) == 0);
    LEN_CASE((in.c.count[0] >> 3) & 63, in.len);
    SHA_CTX *c = malloc(sizeof(*c)); V_ASSUME(c != NULL); *c = in.c;
    sha1_byte *m = malloc(in.len); V_ASSUME(m != NULL);
    ghost_sha_setup(&in.g);
    SHA1_Update(c, m, in.len);
#ifdef VERIF_LEN_WRAPS
    V_COVER(((in.c.count[0] >> 3) & 63) == 1 && in.len == 0xffffffffu); V_COVER(((in.c.count[0] >> 3) & 63) == 63);
#elif defined(VERIF_CASE_NOBLOCK)
    V_COVER(g_tb_total == in.g.tb_total && in.len > 0); V_COVER(in.len == 0);   /* no carry into count[1] is possible without completing a block */
#else
    V_COVER(g_tb_total == in.g.tb_total + 1 && ((in.c.count[0] >> 3) & 63) > 0);
    V_COVER(g_tb_total == in.g.tb_total + 3 && ((c->count[0] >> 3) & 63) == 5); V_COVER(g_tby_seen == in.g.tby_seen + 1 && in.len > 200);
    V_COVER(c->count[1] == in.c.count[1] + 1);
#endif
}

typedef struct { SHA_CTX c; IN_gh1 g; } IN_f1;
V_INPUT(IN_f1)
void h_sha1_final(void) {
    IN_f1 in = nondet_IN_f1();
    V_ASSUME((in.c.count[0] & 7) == 0);
    SHA_CTX *c = malloc(sizeof(*c)); V_ASSUME(c != NULL); *c = in.c;
    sha1_byte *d = malloc(SHA1_DIGEST_LENGTH); V_ASSUME(d != NULL);
    ghost_sha_setup(&in.g);
    SHA1_Final(d, c);
    V_COVER(g_tb_total == in.g.tb_total + 1 && ((in.c.count[0] >> 3) & 63) == 55); V_COVER(g_tb_total == in.g.tb_total + 2 && ((in.c.count[0] >> 3) & 63) == 56);
    V_COVER(g_tby_seen == in.g.tby_seen + 1 && g_tby_val == 0x80); V_COVER(in.c.count[1] > 0);
}

#ifdef VERIF_NATIVE
#include "replay_in.h"
#endif
