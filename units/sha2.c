/* C18 proof units for the buffering layer of src/lib/hash/bundled/sha2/sha2.c (compression functions by
 * their caller-view contracts). */
#include "spec/verif_prelude.h"
#include "spec/ghost.h"
#include "spec/ghost_sha.h"
GHOST_DEFS
GHOST_SHA_DEFS
#include "contracts/sha.h"
#include "stubs/libc_memcpy_loop.h"
#include "src/lib/hash/bundled/sha2/sha2.c"

typedef struct { g_u64 tb_total, tby_k; unsigned tby_seen; unsigned char tby_val; size_t k1; } IN_gh;
static void ghost_sha_setup(const IN_gh *g) {
    V_ASSUME(g->tb_total < (1ull << 50) && g->tby_seen < 1000);
    g_tb_total = g->tb_total; g_tby_k = g->tby_k; g_tby_seen = g->tby_seen; g_tby_val = g->tby_val; g_k1 = g->k1;
}
/* case split of the update units over "buffered + new length fits 32 bits" (variants in the json): together the
 * two variants cover every len; the split only separates the attribution of the >= 4 GiB single-update wrap */
#if defined(VERIF_LEN_FITS) && defined(VERIF_CASE_NOBLOCK)      /* no block completes */
#define LEN_CASE(ol, len) V_ASSUME((g_u64)(ol) + (g_u64)(len) < VERIF_BS)
#elif defined(VERIF_LEN_FITS) && defined(VERIF_CASE_BLOCKS)     /* at least one block completes */
#define LEN_CASE(ol, len) V_ASSUME((len) <= SHA_MAX_SINGLE_UPDATE && (g_u64)(ol) + (g_u64)(len) >= VERIF_BS)
#elif defined(VERIF_LEN_FITS)
#define LEN_CASE(ol, len) V_ASSUME((g_u64)(ol) + (g_u64)(len) <= 0xffffffffull)
#elif defined(VERIF_LEN_WRAPS)
#define LEN_CASE(ol, len) V_ASSUME((g_u64)(ol) + (g_u64)(len) > 0xffffffffull)
#else
#define LEN_CASE(ol, len) ((void)0)
#endif

typedef struct { sha256_ctx c; unsigned len; IN_gh g; } IN_u256;
V_INPUT(IN_u256)
void h_sha256_update(void) {
    IN_u256 in = nondet_IN_u256();
    V_ASSUME(in.c.len < 64 && in.c.tot_len % 64 == 0);
    LEN_CASE(in.c.len, in.len);
    sha256_ctx *c = malloc(sizeof(*c)); V_ASSUME(c != NULL); *c = in.c;
    unsigned char *m = malloc(in.len); V_ASSUME(m != NULL);
    ghost_sha_setup(&in.g);
    sha256_update(c, m, in.len);
#ifdef VERIF_LEN_WRAPS
    V_COVER(in.c.len == 1 && in.len == 0xffffffffu); V_COVER(in.c.len == 63);
#elif defined(VERIF_CASE_NOBLOCK)
    V_COVER(g_tb_total == in.g.tb_total && in.c.len > 0 && in.len > 0); V_COVER(in.len == 0); V_COVER(c->len == 5 && in.c.len == 2);
#else
    V_COVER(g_tb_total == in.g.tb_total + 1 && in.c.len > 0); V_COVER(g_tb_total == in.g.tb_total + 3 && c->len == 5);
    V_COVER(g_tby_seen == in.g.tby_seen + 1 && in.len > 200);
#endif
}

/* case split of the final units over the message length (variants in the json): < 512 MiB / >= 512 MiB; together
 * they cover every context; the split only separates the attribution of the 32-bit bit-length field */
#if defined(VERIF_LT_512M)
#define TOTAL_CASE(c) V_ASSUME((g_u64)(c).tot_len + (c).len < 0x20000000ull)
#elif defined(VERIF_GE_512M)
#define TOTAL_CASE(c) V_ASSUME((g_u64)(c).tot_len + (c).len >= 0x20000000ull)
#else
#define TOTAL_CASE(c) ((void)0)
#endif
typedef struct { sha256_ctx c; IN_gh g; } IN_f256;
V_INPUT(IN_f256)
void h_sha256_final(void) {
    IN_f256 in = nondet_IN_f256();
    V_ASSUME(in.c.len < 64 && in.c.tot_len % 64 == 0);
    TOTAL_CASE(in.c); V_ASSUME((g_u64)in.c.tot_len + in.c.len < SHA_MAX_MESSAGE_BYTES);
    sha256_ctx *c = malloc(sizeof(*c)); V_ASSUME(c != NULL); *c = in.c;
    unsigned char *d = malloc(SHA256_DIGEST_SIZE); V_ASSUME(d != NULL);
    ghost_sha_setup(&in.g);
    sha256_final(c, d);
    V_COVER(g_tb_total == in.g.tb_total + 1 && in.c.len == 55); V_COVER(g_tb_total == in.g.tb_total + 2 && in.c.len == 56);
    V_COVER(g_tby_seen == in.g.tby_seen + 1 && g_tby_val == 0x80); V_COVER(in.c.tot_len >= 0x10000u);
}

typedef struct { sha512_ctx c; unsigned len; IN_gh g; } IN_u512;
V_INPUT(IN_u512)
void h_sha512_update(void) {
    IN_u512 in = nondet_IN_u512();
    V_ASSUME(in.c.len < 128 && in.c.tot_len % 128 == 0);
    LEN_CASE(in.c.len, in.len);
    sha512_ctx *c = malloc(sizeof(*c)); V_ASSUME(c != NULL); *c = in.c;
    unsigned char *m = malloc(in.len); V_ASSUME(m != NULL);
    ghost_sha_setup(&in.g);
    sha512_update(c, m, in.len);
#ifdef VERIF_LEN_WRAPS
    V_COVER(in.c.len == 1 && in.len == 0xffffffffu); V_COVER(in.c.len == 63);
#elif defined(VERIF_CASE_NOBLOCK)
    V_COVER(g_tb_total == in.g.tb_total && in.c.len > 0 && in.len > 0); V_COVER(in.len == 0); V_COVER(c->len == 5 && in.c.len == 2);
#else
    V_COVER(g_tb_total == in.g.tb_total + 1 && in.c.len > 0); V_COVER(g_tb_total == in.g.tb_total + 3 && c->len == 5);
    V_COVER(g_tby_seen == in.g.tby_seen + 1 && in.len > 200);
#endif
}

typedef struct { sha512_ctx c; IN_gh g; } IN_f512;
V_INPUT(IN_f512)
void h_sha512_final(void) {
    IN_f512 in = nondet_IN_f512();
    V_ASSUME(in.c.len < 128 && in.c.tot_len % 128 == 0);
    TOTAL_CASE(in.c); V_ASSUME((g_u64)in.c.tot_len + in.c.len < SHA_MAX_MESSAGE_BYTES);
    sha512_ctx *c = malloc(sizeof(*c)); V_ASSUME(c != NULL); *c = in.c;
    unsigned char *d = malloc(SHA512_DIGEST_SIZE); V_ASSUME(d != NULL);
    ghost_sha_setup(&in.g);
    sha512_final(c, d);
    V_COVER(g_tb_total == in.g.tb_total + 1 && in.c.len == 111); V_COVER(g_tb_total == in.g.tb_total + 2 && in.c.len == 112);
    V_COVER(g_tby_seen == in.g.tby_seen + 1 && g_tby_val == 0x80); V_COVER(in.c.tot_len >= 0x10000u);
}

#ifdef VERIF_NATIVE
#include "replay_in.h"
#endif
