/* C18 proof units: the compression functions of the bundled SHA code equal the FIPS 180-4 reference
 * (spec/spec_sha.h) for EVERY chaining value and EVERY block.  All loops have constant trip counts
 * (16/48/64/80 rounds; SHA-1 is unrolled in the source), so complete unwinding (--unwinding-assertions)
 * is a full-domain equivalence, not an input bound.  These are hard SAT instances (thorough tier, kissat). */
#include "contracts/sha_block.h"
#include "src/lib/hash/bundled/sha1/sha1.c"
#include "src/lib/hash/bundled/sha2/sha2.c"

typedef struct { SHA_CTX c; unsigned char blk[64]; } IN_t1;
typedef struct { sha256_ctx c; unsigned char blk[64]; } IN_t256;
typedef struct { sha512_ctx c; unsigned char blk[128]; } IN_t512;
V_INPUT(IN_t1) V_INPUT(IN_t256) V_INPUT(IN_t512)

void h_sha1_transform(void) {
    IN_t1 in = nondet_IN_t1();
    SHA_CTX *c = malloc(sizeof(*c)); V_ASSUME(c != NULL); *c = in.c;
    unsigned char *b = malloc(64); V_ASSUME(b != NULL); memcpy(b, in.blk, 64);
    SHA1_Transform(c->state, (const sha1_byte *)b);
    V_ASSERT(c->count[0] == in.c.count[0] && c->count[1] == in.c.count[1], "C18.SHA1_Transform.count_untouched");
    V_COVER(c->state[0] != in.c.state[0]); V_COVER(in.blk[63] == 0x80 && in.c.state[4] == 0xc3d2e1f0u);
}
void h_sha256_transf(void) {
    IN_t256 in = nondet_IN_t256();
    sha256_ctx *c = malloc(sizeof(*c)); V_ASSUME(c != NULL); *c = in.c;
    unsigned char *b = malloc(64); V_ASSUME(b != NULL); memcpy(b, in.blk, 64);
    sha256_transf(c, b, 1);
    V_ASSERT(c->len == in.c.len && c->tot_len == in.c.tot_len, "C18.sha256_transf.counters_untouched");
    V_COVER(c->h[0] != in.c.h[0]); V_COVER(in.blk[63] == 0x80 && in.c.h[7] == 0x5be0cd19u);
}
void h_sha512_transf(void) {
    IN_t512 in = nondet_IN_t512();
    sha512_ctx *c = malloc(sizeof(*c)); V_ASSUME(c != NULL); *c = in.c;
    unsigned char *b = malloc(128); V_ASSUME(b != NULL); memcpy(b, in.blk, 128);
    sha512_transf(c, b, 1);
    V_ASSERT(c->len == in.c.len && c->tot_len == in.c.tot_len, "C18.sha512_transf.counters_untouched");
    V_COVER(c->h[0] != in.c.h[0]); V_COVER(in.blk[127] == 0x80 && in.c.h[7] == 0x5be0cd19137e2179ull);
}

/* one-round lemma (see spec/spec_sha.h): for ALL word values the re-ordered sum and the alternative Boolean forms
 * equal the FIPS 180-4 text (loop-free, full domain) */
typedef struct { uint32_t a, b, c, d, e, K, W; } IN_rl;
V_INPUT(IN_rl)
void h_sha1_round_lemma(void) {
    IN_rl in = nondet_IN_rl();
    V_ASSERT(SPEC_CH_ALT(in.b, in.c, in.d) == SPEC_CH(in.b, in.c, in.d), "C18.sha1_round_lemma.ch_alternative_form");
    V_ASSERT(SPEC_MAJ_ALT(in.b, in.c, in.d) == SPEC_MAJ(in.b, in.c, in.d), "C18.sha1_round_lemma.maj_alternative_form");
    uint32_t f = in.d;   /* any value of f_t */
    V_ASSERT(SPEC_SHA1_T_ORD(in.a, f, in.e, in.K, in.W) == SPEC_SHA1_T_FIPS(in.a, f, in.e, in.K, in.W), "C18.sha1_round_lemma.sum_order");
    V_COVER(in.a == 1 && in.K == 0x5a827999u);
}

/* multi-block calls: sha*_transf(ctx, m, 2) == two successive single-block calls on consecutive blocks
 * (real function against itself; bounded: 2 blocks).  Links the single-block equivalence to the calls that
 * update() makes with block_nb > 1. */
typedef struct { sha256_ctx c; unsigned char blk[128]; } IN_m256;
typedef struct { sha512_ctx c; unsigned char blk[256]; } IN_m512;
V_INPUT(IN_m256) V_INPUT(IN_m512)
void h_sha256_transf_multi(void) {
    IN_m256 in = nondet_IN_m256();
    sha256_ctx c1 = in.c, c2 = in.c;
    unsigned char *b = malloc(128); V_ASSUME(b != NULL); memcpy(b, in.blk, 128);
    sha256_transf(&c1, b, 2);
    sha256_transf(&c2, b, 1); sha256_transf(&c2, b + 64, 1);
    for(int i = 0; i < 8; i++) V_ASSERT(c1.h[i] == c2.h[i], "C18.sha256_transf.two_blocks_equal_two_single_block_calls");
    V_COVER(c1.h[0] != in.c.h[0]);
}
void h_sha512_transf_multi(void) {
    IN_m512 in = nondet_IN_m512();
    sha512_ctx c1 = in.c, c2 = in.c;
    unsigned char *b = malloc(256); V_ASSUME(b != NULL); memcpy(b, in.blk, 256);
    sha512_transf(&c1, b, 2);
    sha512_transf(&c2, b, 1); sha512_transf(&c2, b + 128, 1);
    for(int i = 0; i < 8; i++) V_ASSERT(c1.h[i] == c2.h[i], "C18.sha512_transf.two_blocks_equal_two_single_block_calls");
    V_COVER(c1.h[0] != in.c.h[0]);
}

#ifdef VERIF_NATIVE
#include "replay_in.h"
#endif
