/* C18 bounded lemma (mode bounded): for EVERY message of at most LEMMA_MAX bytes (2 blocks + 9 bytes: every
 * padding boundary 55/56/63/64/119/120/127/128 resp. 111/112/127/128/239/240/255/256 is inside) and EVERY 2-way
 * split into update calls, the REAL init/update/update/final of the bundled code hand to the compression function
 * exactly the blocks of the FIPS 180-4 padded message (5.1), in order, chained from the initial hash value (5.3),
 * and return the big-endian serialisation of the last chaining value (6.x).  The compression function itself is
 * an uninterpreted function here (log contract, contracts/sha_block_log.h): same (chaining value, block) in =>
 * same value out, so "bundled digest == reference digest" follows for the real compression function (which the
 * thorough units prove equal to FIPS).  Nothing about the compression circuit has to be solved. */
#include "spec/verif_prelude.h"
#include "spec/ghost.h"
#include "spec/ghost_sha.h"
GHOST_DEFS
GHOST_SHA_DEFS
#define VERIF_SHA_LOG_VIEW
#include "contracts/sha_block.h"
GHOST_LOG_DEFS
#include "stubs/libc_memcpy_loop.h"
#include "src/lib/hash/bundled/sha1/sha1.c"
#include "src/lib/hash/bundled/sha2/sha2.c"

#ifndef LEMMA_BLOCKS
#define LEMMA_BLOCKS 2      /* messages of up to LEMMA_BLOCKS blocks + 9 bytes */
#endif
typedef struct { unsigned len, split; size_t k2; g_u64 lw; } IN_lm;
V_INPUT(IN_lm)

/* g_lw: solver-chosen block index ("for every block of the padded message") */
#define LEMMA_CHECK(NAME, BS, LF, NH, IV, DLEN, WBYTES, HOUT_T) \
    g_u64 total = (g_u64)SPEC_PAD_TOTAL(in.len, BS, LF); unsigned N = (unsigned)(total / BS); \
    V_ASSERT(g_log_n == N, "C18.lemma_" NAME ".number_of_blocks_is_padded_length"); \
    if(g_lw < N) { \
        V_ASSERT(g_lw_seen == 1, "C18.lemma_" NAME ".every_block_handed_over_once"); \
        for(unsigned w = 0; w < NH; w++) \
            V_ASSERT(g_lw_hin[w] == (g_lw == 0 ? (g_u64)IV(w) : g_lw_prev[w]), "C18.lemma_" NAME ".chained_from_initial_hash_value"); \
        V_ASSERT(g_lw_byte == SPEC_PAD_BYTE_T(m, in.len, total, LF, g_lw * BS + (g_k2 & (BS - 1))), "C18.lemma_" NAME ".blocks_are_the_fips_padded_message"); \
    } \
    if(g_lw + 1 == N) for(unsigned j = 0; j < DLEN; j++) \
        V_ASSERT((unsigned char)d[j] == (unsigned char)(g_lw_hout[j / WBYTES] >> (8 * (WBYTES - 1 - (j % WBYTES)))), "C18.lemma_" NAME ".digest_is_last_chaining_value_big_endian");

void h_lemma_sha256(void) {
    IN_lm in = nondet_IN_lm();
    V_ASSUME(in.len <= LEMMA_BLOCKS * 64 + 9 && in.split <= in.len);
    unsigned char *m = malloc(LEMMA_BLOCKS * 64 + 9); V_ASSUME(m != NULL);   /* fixed-size object: over-reads are the update units' obligation */
    sha256_ctx *c = malloc(sizeof(*c)); V_ASSUME(c != NULL);
    unsigned char *d = malloc(SHA256_DIGEST_SIZE); V_ASSUME(d != NULL);
    g_log_n = 0; g_k2 = in.k2; g_lw = in.lw; g_lw_seen = 0;
    sha256_init(c); sha256_update(c, m, in.split); sha256_update(c, m + in.split, in.len - in.split); sha256_final(c, d);
    LEMMA_CHECK("sha256", 64, 8, 8, SPEC_SHA256_IV, 32, 4, uint32_t)
    V_COVER(in.len == 55 && N == 1); V_COVER(in.len == 56 && N == 2); V_COVER(in.len == LEMMA_BLOCKS * 64 + 9 && N == LEMMA_BLOCKS + 1 && in.split == 60); V_COVER(in.len == 0);
}
void h_lemma_sha512(void) {
    IN_lm in = nondet_IN_lm();
    V_ASSUME(in.len <= LEMMA_BLOCKS * 128 + 9 && in.split <= in.len);
    unsigned char *m = malloc(LEMMA_BLOCKS * 128 + 9); V_ASSUME(m != NULL);
    sha512_ctx *c = malloc(sizeof(*c)); V_ASSUME(c != NULL);
    unsigned char *d = malloc(SHA512_DIGEST_SIZE); V_ASSUME(d != NULL);
    g_log_n = 0; g_k2 = in.k2; g_lw = in.lw; g_lw_seen = 0;
    sha512_init(c); sha512_update(c, m, in.split); sha512_update(c, m + in.split, in.len - in.split); sha512_final(c, d);
    LEMMA_CHECK("sha512", 128, 16, 8, SPEC_SHA512_IV, 64, 8, uint64_t)
    V_COVER(in.len == 111 && N == 1); V_COVER(in.len == 112 && N == 2); V_COVER(in.len == LEMMA_BLOCKS * 128 + 9 && N == LEMMA_BLOCKS + 1 && in.split == 120); V_COVER(in.len == 0);
}
void h_lemma_sha1(void) {
    IN_lm in = nondet_IN_lm();
    V_ASSUME(in.len <= LEMMA_BLOCKS * 64 + 9 && in.split <= in.len);
    sha1_byte *m = malloc(LEMMA_BLOCKS * 64 + 9); V_ASSUME(m != NULL);
    SHA_CTX *c = malloc(sizeof(*c)); V_ASSUME(c != NULL);
    sha1_byte *d = malloc(SHA1_DIGEST_LENGTH); V_ASSUME(d != NULL);
    g_log_n = 0; g_k2 = in.k2; g_lw = in.lw; g_lw_seen = 0;
    SHA1_Init(c); SHA1_Update(c, m, in.split); SHA1_Update(c, m + in.split, in.len - in.split); SHA1_Final(d, c);
    LEMMA_CHECK("sha1", 64, 8, 5, SPEC_SHA1_IV, 20, 4, uint32_t)
    V_COVER(in.len == 55 && N == 1); V_COVER(in.len == 56 && N == 2); V_COVER(in.len == LEMMA_BLOCKS * 64 + 9 && N == LEMMA_BLOCKS + 1 && in.split == 60); V_COVER(in.len == 0);
}
#ifdef VERIF_NATIVE
#include "replay_in.h"
#endif
