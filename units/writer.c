/* Proof units for src/lib/comp/comp.c, writer side (C01 conservation + termination, C16 chunking
 * lemmas, C12 failure reporting): zck_write, zck_end_chunk, comp_write, comp_init (write mode). */
#include "spec/verif_zck.h"
#include "spec/ghost.h"
#include "spec/ghost_writer.h"
GHOST_DEFS
GHOST_WRITER_DEFS
#include "contracts/io.h"
#include "contracts/hashfn.h"
#include "contracts/writer.h"
#include "extracted_zalloc.c"
#include "src/lib/comp/comp.c"

/* ---- an arbitrary well-formed writer context --------------------------------------------------
 * Every scalar comes from the nondeterministic struct value `any`; pointers the precondition talks
 * about are NULL or harness-built objects of exactly the advertised size. */
typedef struct {
    zckCtx any; zckChunk wi, last;
    size_t n;                         /* size of the source buffer handed to the call */
    int comp_type, ctype, htype;
    int wi_live, last_live, win_live, dc_live, dict_live, wh_live, whu_live, fh_live, wh_typed, whu_typed, fh_typed;
    int watch;                        /* which hash object the ghost model watches: 0 none, 1 full, 2 chunk, 3 chunk-uncompressed */
    size_t hu_total0, hu_k, k1, k2; unsigned hu_seen0, hu_final0, hu_inits0;
    g_off_t pos0[G_NFD]; size_t wr0[G_NFD]; int failed0;
} IN_w;
V_INPUT(IN_w)

static zckCtx *mk_writer(IN_w *in) {
    V_ASSUME(in->comp_type == ZCK_COMP_NONE || in->comp_type == ZCK_COMP_ZSTD);
    V_ASSUME(SPEC_HASH_VALID(in->ctype) && SPEC_HASH_VALID(in->htype));
    V_ASSUME(in->hu_final0 < 1000 && in->hu_inits0 < 1000 && in->hu_seen0 < 1000);
    zckCtx *zck = malloc(sizeof(*zck));
    V_ASSUME(zck != NULL);
    *zck = in->any;
    zck->comp.compress = verif_compress; zck->comp.end_cchunk = verif_end_cchunk; zck->comp.init = verif_winit;
    zck->comp.type = in->comp_type;
    zck->chunk_hash_type.type = in->ctype; zck->chunk_hash_type.digest_size = SPEC_DIGEST_SIZE(in->ctype);
    zck->hash_type.type = in->htype; zck->hash_type.digest_size = SPEC_DIGEST_SIZE(in->htype);
    zck->index.digest_size = SPEC_DIGEST_SIZE(in->ctype);
    /* chunk buffer */
    zck->comp.dc_data = NULL;
    if(in->comp_type == ZCK_COMP_ZSTD && in->dc_live) { zck->comp.dc_data = malloc(zck->comp.dc_data_size); V_ASSUME(zck->comp.dc_data != NULL); }
    /* entry under construction and last finished entry */
    zck->work_index_item = NULL;
    if(in->wi_live) { zckChunk *c = malloc(sizeof(*c)); V_ASSUME(c != NULL); *c = in->wi; c->digest = NULL; c->digest_uncompressed = NULL; c->next = NULL; zck->work_index_item = c; }
    zck->index.first = NULL; zck->index.last = NULL;
    if(in->last_live) { zckChunk *c = malloc(sizeof(*c)); V_ASSUME(c != NULL); *c = in->last; c->digest = NULL; c->digest_uncompressed = NULL; c->next = NULL; zck->index.first = c; zck->index.last = c; }
    /* rolling hash window */
    zck->buzhash.window = NULL;
    if(in->win_live) { V_ASSUME(zck->buzhash.window_size >= 1 && zck->buzhash.window_size <= 64); zck->buzhash.window = malloc(zck->buzhash.window_size); V_ASSUME(zck->buzhash.window != NULL); }
    /* dictionary */
    zck->comp.dict = NULL;
    if(in->dict_live) { V_ASSUME(zck->comp.dict_size >= 1 && zck->comp.dict_size <= 16); zck->comp.dict = malloc(zck->comp.dict_size); V_ASSUME(zck->comp.dict != NULL); } else zck->comp.dict_size = 0;
    /* hashes */
    zck->work_index_hash.ctx = NULL; zck->work_index_hash_uncomp.ctx = NULL; zck->full_hash.ctx = NULL;
    if(in->wh_live) { zck->work_index_hash.ctx = malloc(1); V_ASSUME(zck->work_index_hash.ctx != NULL); }
    if(in->whu_live) { zck->work_index_hash_uncomp.ctx = malloc(1); V_ASSUME(zck->work_index_hash_uncomp.ctx != NULL); }
    if(in->fh_live) { zck->full_hash.ctx = malloc(1); V_ASSUME(zck->full_hash.ctx != NULL); }
    zck->work_index_hash.type = in->wh_typed ? &zck->chunk_hash_type : NULL;
    zck->work_index_hash_uncomp.type = in->whu_typed ? &zck->chunk_hash_type : NULL;
    zck->full_hash.type = in->fh_typed ? &zck->hash_type : NULL;
    /* ghost models */
    for(int i = 0; i < G_NFD; i++) { g_fpos[i] = in->pos0[i]; g_wr_bytes[i] = in->wr0[i]; }
    g_io_failed = in->failed0 != 0;
    g_hu_hash = in->watch == 1 ? &zck->full_hash : in->watch == 2 ? &zck->work_index_hash : in->watch == 3 ? &zck->work_index_hash_uncomp : NULL;
    g_hu_total = in->hu_total0; g_hu_k = in->hu_k; g_hu_seen = in->hu_seen0; g_hu_final = in->hu_final0; g_hu_inits = in->hu_inits0;
    g_k1 = in->k1; g_k2 = in->k2;
    return zck;
}

/* ---- zck_write: conservation (g_next_off), termination (decreases on both loops), C16 bounds -------- */
void h_zck_write(void) {
    IN_w in = nondet_IN_w();
    zckCtx *zck = mk_writer(&in);
#ifdef VERIF_ZW_MANUAL
    V_ASSUME(zck->manual_chunk != 0);
#endif
#ifdef VERIF_ZW_AUTO
    V_ASSUME(zck->manual_chunk == 0);
#endif
    char *src = malloc(in.n);
    V_ASSUME(src != NULL);
    g_src_base = src; g_next_off = 0; g_track = 1; g_from_write = 1; g_bz_have = 0; g_same = 0;
    size_t dc0 = zck->comp.dc_data_size; int started0 = zck->comp.started, manual = zck->manual_chunk;
    size_t cnt0 = zck->index.count;
    ssize_t r = zck_write(zck, src, in.n);
    V_ASSERT(r == -1 || (size_t)r == in.n, "C01,C12.zck_write.all_or_error");
    V_ASSERT(r < 0 || g_next_off == in.n, "C01.zck_write.every_source_byte_handed_on_exactly_once_in_order");
#ifdef VERIF_ZW_MANUAL
    V_COVER(r > 0 && zck->index.count > cnt0 + 1 && started0);          /* manual: forced two chunks at the maximum size */
    V_COVER(r > 0 && !started0);                                        /* initialised on first write */
#else
    V_COVER(r > 0 && zck->index.count > cnt0 && started0 && zck->comp.dc_data_size > 0);   /* automatic: ended a chunk and kept writing */
    V_COVER(r > 0 && !started0);                                        /* initialised on first write */
    V_COVER(r > 0 && started0 && zck->comp.dc_data_size == dc0 + in.n && in.n > 2);  /* no boundary inside the call */
#endif
    V_COVER(r == -1 && in.any.error_state == 0 && in.any.mode == ZCK_MODE_WRITE);
    V_COVER(r == 0);
}


/* ---- comp_write: hands exactly (src, src_size) to the compress hook, indexes exactly what it writes, reports
 * src_size only if every step succeeded (C01, C12).  Full view of the contract (node contents, ghost I/O and
 * hash-coverage models); compress hook, write_data, index_add_to_chunk, hash_update by contract. ------------- */
void h_comp_write(void) {
    IN_w in = nondet_IN_w();
    zckCtx *zck = mk_writer(&in);
    char *src = malloc(in.n);
    V_ASSUME(src != NULL);
    g_src_base = src; g_next_off = 0; g_track = 1; g_from_write = 0;
    int nw = zck->no_write;
    ssize_t r = comp_write(zck, src, in.n);
    V_COVER(r > 0 && zck->comp.type == ZCK_COMP_NONE && nw == 0 && in.wi_live);
    V_COVER(r > 0 && zck->comp.type == ZCK_COMP_ZSTD && !in.wi_live);
    V_COVER(r > 0 && nw != 0 && zck->has_uncompressed_source != 0);
    V_COVER(r == -1 && in.any.error_state == 0 && in.any.mode == ZCK_MODE_WRITE && zck->error_state == 2);
    V_COVER(r == 0);
}

/* ---- comp_end_chunk(zck, force) and its API wrapper zck_end_chunk (C01: finished or refused with nothing
 * changed, forced end never refused; C12: failed write reported; C16: rolling hash discarded) ---------------- */
void h_comp_end_chunk(void) {
    IN_w in = nondet_IN_w();
    zckCtx *zck = mk_writer(&in);
    g_src_base = NULL; g_next_off = 0; g_track = 1; g_from_write = 0;
    g_bz_have = in.fh_live; g_same = (unsigned)in.watch;          /* arbitrary rolling-hash ghost state */
    bool force = in.last_live ? true : false;
#ifdef VERIF_EC_FORCE
    force = in.k1 & 1;
#endif
    size_t dc0 = zck->comp.dc_data_size, cnt0 = zck->index.count; int started0 = zck->comp.started, min0 = zck->chunk_min_size;
#ifdef VERIF_EC_WRAPPER
    ssize_t r = zck_end_chunk(zck);
    force = false;
#else
    ssize_t r = comp_end_chunk(zck, in.k1 & 1);
    force = in.k1 & 1;
#endif
    V_COVER(r > 0 && started0 && zck->index.count == cnt0 + 1 && zck->comp.type == ZCK_COMP_ZSTD);       /* finished */
    V_COVER(r > 0 && started0 && zck->index.count == cnt0 + 1 && zck->comp.type == ZCK_COMP_NONE);
    V_COVER(r == 0 && started0);
    V_COVER(r == -1 && in.any.error_state == 0 && in.any.mode == ZCK_MODE_WRITE && started0 && dc0 > 0);
#ifndef VERIF_EC_WRAPPER
    V_COVER(r > 0 && force && started0 && dc0 < (size_t)min0 && zck->index.count == cnt0 + 1);        /* forced short last chunk */
#endif
    V_COVER(r > 0 && !force && started0 && zck->index.count == cnt0 && dc0 > 0);                      /* refused */
#ifndef VERIF_EC_STARTED
    V_COVER(r == 0 && !started0);
#endif
}

/* ---- comp_init, write mode: effective chunk bounds (C16), termination precondition and dictionary entry (C01) ---- */
void h_comp_init_w(void) {
    IN_w in = nondet_IN_w();
    zckCtx *zck = mk_writer(&in);
    V_ASSUME(zck->error_state >= 0 && zck->error_state <= 2);
    g_track = 0; g_src_base = NULL; g_next_off = 0;
    int min0 = zck->chunk_min_size, max0 = zck->chunk_max_size, tfd = zck->temp_fd, nw = zck->no_write;
    size_t cnt0 = zck->index.count;
    bool r = comp_init(zck);
    V_COVER(r && zck->manual_chunk == 0 && in.dict_live && nw == 0 && tfd > 0);
    V_COVER(r && zck->manual_chunk != 0 && !in.dict_live);
    V_COVER(r && zck->manual_chunk == 0 && min0 == 0 && max0 == 0);
    V_COVER(r && zck->manual_chunk == 0 && min0 == 100 && max0 == 100000);
    V_COVER(!r && in.any.error_state == 0 && in.any.comp.started == 0);
}


/* ---- comp_init, write mode, plain CBMC lemma unit (real body executed; no dictionary): the effective
 * chunk bounds and the dictionary entry.  The contract unit comp_init_write states the same clauses but does
 * not finish in the quick budget (undecided), so the two clauses the writer's termination and the
 * reader's "at least one entry" rest on are also checked here with over-approximating stand-in bodies:
 * init hook = any verdict; index_finish_chunk = any verdict, one more entry on success. ------------- */
#ifdef VERIF_PLAIN_STUBS
bool nondet_bool(void);
static bool plain_init(zckCtx *zck, zckComp *comp) { return nondet_bool(); }
bool index_finish_chunk(zckCtx *zck) { if(nondet_bool()) return false; zck->index.count += 1; return true; }
typedef struct { zckCtx any; } IN_ci;
V_INPUT(IN_ci)
void h_comp_init_bounds(void) {
    IN_ci in = nondet_IN_ci();
    zckCtx *zck = malloc(sizeof(*zck));
    V_ASSUME(zck != NULL);
    *zck = in.any;
    zck->comp.init = plain_init; zck->comp.dict = NULL; zck->comp.dict_size = 0; zck->mode = ZCK_MODE_WRITE;
    V_ASSUME(zck->error_state >= 0 && zck->error_state <= 2);
    V_ASSUME(OPT_WF(zck));                       /* what comp_ioption's checks maintain */
    int min0 = zck->chunk_min_size, max0 = zck->chunk_max_size, tfd = zck->temp_fd, nw = zck->no_write;
    size_t cnt0 = zck->index.count;
    bool r = comp_init(zck);
    if(r) {
        V_ASSERT(zck->chunk_min_size >= 1 && zck->chunk_min_size <= zck->chunk_max_size, "C01,C16.comp_init.min_le_max");
        V_ASSERT((min0 == 0 || zck->chunk_min_size == min0) && (max0 == 0 || zck->chunk_max_size == max0), "C16.comp_init.configured_sizes_kept");
        if(zck->manual_chunk == 0) {
            V_ASSERT(zck->buzhash_width == SPEC_BZ_WIDTH && zck->buzhash_bitmask == SPEC_BZ_MASK, "C16.comp_init.window_and_mask_pinned");
            V_ASSERT(zck->chunk_auto_min == SPEC_AUTO_MIN(zck->chunk_min_size, zck->chunk_max_size) && zck->chunk_auto_max == SPEC_AUTO_MAX(zck->chunk_min_size, zck->chunk_max_size), "C16.comp_init.effective_bounds_are_quarter_and_fourfold_average_clamped");
            V_ASSERT(zck->chunk_auto_min <= zck->chunk_auto_max, "C01,C16.comp_init.effective_min_not_above_effective_max");
        }
        V_ASSERT(zck->index.count == cnt0 + 1, "C01.comp_init.dictionary_entry_exists_whatever_the_descriptor_numbers");
        V_ASSERT(zck->comp.started != 0, "C03.comp_init.started");
    }
    V_COVER(r && zck->manual_chunk == 0 && min0 == 0 && max0 == 0);
    V_COVER(r && zck->manual_chunk == 0 && min0 == 100 && max0 == 100000 && tfd == 5);
    V_COVER(r && zck->manual_chunk != 0); V_COVER(!r && in.any.error_state == 0 && in.any.comp.started == 0);
}
#endif

#ifdef VERIF_NATIVE
#include "replay_in.h"
#endif
