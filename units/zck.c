/* Proof units for src/lib/zck.c */
#include "spec/verif_zck.h"
#include "spec/ghost.h"
GHOST_DEFS
#include "contracts/compint.h"
#include "contracts/hash.h"
#include "contracts/hashfn.h"
#include "contracts/zck.h"
#include "src/lib/zck.c"

/* ---- hex_to_int: all 256 char values ---- */
typedef struct { char c; } IN_hex;
V_INPUT(IN_hex)
void h_hex_to_int(void) {
    IN_hex in = nondet_IN_hex();
    int r = hex_to_int(in.c);
    V_ASSERT(r == SPEC_HEX(in.c), "C07.hex_to_int.equals_spec");
    V_COVER(r == 15 && in.c == 'f'); V_COVER(r == 10 && in.c == 'A'); V_COVER(r == -1 && in.c == '?'); V_COVER(r == 9);
}

/* ---- ascii_checksum_to_bin: every string of every even/odd length up to 128 ---- */
#define CK_MAX (2 * SPEC_MAX_DIGEST)
typedef struct { char s[CK_MAX]; int len; size_t k1, k2; } IN_ck;
V_INPUT(IN_ck)
void h_ascii_checksum_to_bin(void) {
    IN_ck in = nondet_IN_ck();
    V_ASSUME(in.len >= 0 && in.len <= CK_MAX);
    g_k1 = in.k1; g_k2 = in.k2;
    /* the string is placed at the END of an exact-size object (no NUL terminator): any read
     * past s[len-1] leaves the object (CBMC bounds check / ASan = guard page) */
    char *buf = malloc(CK_MAX);
    V_ASSUME(buf != NULL);
    memcpy(buf, in.s, CK_MAX);
    char *s = buf + (CK_MAX - in.len);
    zckCtx *zck = calloc(1, sizeof(*zck));
    V_ASSUME(zck != NULL);
    char *r = ascii_checksum_to_bin(zck, s, in.len);
    /* "for every k" through the solver-chosen indices g_k1 / g_k2 (no harness loop: with
     * --apply-loop-contracts every loop would need its own contract) */
    if(r != NULL && g_k1 < (size_t)in.len)
        V_ASSERT(SPEC_HEX(s[g_k1]) >= 0, "C07.ascii_checksum.accepted_only_if_all_hex");
    if(r != NULL && g_k2 < (size_t)(in.len / 2))
        V_ASSERT((unsigned char)r[g_k2] == 16 * SPEC_HEX(s[2 * g_k2]) + SPEC_HEX(s[2 * g_k2 + 1]), "C07.ascii_checksum.byte_value");
    V_COVER(r != NULL && in.len == CK_MAX);
    V_COVER(r == NULL && in.len == 40);
    V_COVER(r != NULL && in.len == 32 && s[0] == 'A' && s[1] == 'f');
}

/* Lemma unit (plain CBMC, real bodies incl. hex_to_int, loops unwound completely for every
 * length up to 2*64): accepted <=> all characters hex (allocation assumed to succeed), every
 * byte has the spec value. */
void h_ascii_checksum_iff(void) {
    IN_ck in = nondet_IN_ck();
    V_ASSUME(in.len >= 0 && in.len <= CK_MAX);
    char *buf = malloc(CK_MAX);
    V_ASSUME(buf != NULL);
    memcpy(buf, in.s, CK_MAX);
    char *s = buf + (CK_MAX - in.len);
    zckCtx *zck = calloc(1, sizeof(*zck));
    V_ASSUME(zck != NULL);
    char *r = ascii_checksum_to_bin(zck, s, in.len);
    bool allhex = true;
    for(int i = 0; i < in.len; i++)
        if(SPEC_HEX(s[i]) < 0) allhex = false;
    V_ASSERT((r != NULL) == allhex, "C07.ascii_checksum.accepted_iff_all_hex");
    if(r != NULL)
        for(int k = 0; k < in.len / 2; k++)
            V_ASSERT((unsigned char)r[k] == 16 * SPEC_HEX(s[2 * k]) + SPEC_HEX(s[2 * k + 1]), "C07.ascii_checksum.every_byte_value");
    V_COVER(r != NULL && in.len == CK_MAX);
    V_COVER(r == NULL && in.len == 40 && !allhex);
    V_COVER(r != NULL && in.len == 32 && s[0] == 'A' && s[1] == 'f');
}

/* ---- zck_set_soption(ZCK_VAL_HEADER_DIGEST) ---- */
typedef struct { char s[CK_MAX + 2]; size_t len; size_t k1, k2; int mode, err0, prep_hash_type; int have_old_digest; } IN_so;
V_INPUT(IN_so)
void h_set_soption_digest(void) {
    IN_so in = nondet_IN_so();
    V_ASSUME(in.len <= CK_MAX + 2);
    V_ASSUME(in.err0 >= 0 && in.err0 <= 2);
    g_k1 = in.k1; g_k2 = in.k2;
    char *buf = malloc(CK_MAX + 2);
    V_ASSUME(buf != NULL);
    memcpy(buf, in.s, CK_MAX + 2);
    char *s = buf + (CK_MAX + 2 - in.len);      /* exact-size view, no NUL terminator */
    zckCtx *zck = calloc(1, sizeof(*zck));
    V_ASSUME(zck != NULL);
    zck->mode = in.mode; zck->error_state = in.err0; zck->prep_hash_type = in.prep_hash_type;
    zck->prep_hdr_size = -1;
    bool r = zck_set_soption(zck, ZCK_VAL_HEADER_DIGEST, s, in.len);
    V_ASSERT(!r || (in.err0 == 0 && in.mode == ZCK_MODE_READ), "C07.set_digest.needs_clean_read_ctx");
    V_ASSERT(!r || (SPEC_HASH_VALID(in.prep_hash_type) && in.len == 2 * (size_t)SPEC_DIGEST_SIZE(in.prep_hash_type)), "C07.set_digest.exact_length_for_pinned_type");
    V_ASSERT(!r || zck->prep_digest != NULL, "C07.set_digest.stored");
    if(r && g_k1 < in.len) V_ASSERT(SPEC_HEX(s[g_k1]) >= 0, "C07.set_digest.accepted_only_if_all_hex");
    if(r && g_k2 < in.len / 2)
        V_ASSERT((unsigned char)zck->prep_digest[g_k2] == 16 * SPEC_HEX(s[2 * g_k2]) + SPEC_HEX(s[2 * g_k2 + 1]), "C07.set_digest.compared_by_value");
    V_COVER(r && in.len == 128); V_COVER(r && in.len == 32); V_COVER(!r && in.len == 41 && in.prep_hash_type == 0 && in.err0 == 0 && in.mode == 0);
}

/* ---- zck_set_ioption(ZCK_VAL_HEADER_HASH_TYPE / ZCK_VAL_HEADER_LENGTH) ---- */
typedef struct { int option_is_len; ssize_t value; int mode, err0, prep_hash_type0; ssize_t prep_hdr_size0; int have_digest; } IN_io2;
V_INPUT(IN_io2)
void h_set_ioption_pins(void) {
    IN_io2 in = nondet_IN_io2();
    V_ASSUME(in.err0 >= 0 && in.err0 <= 2);
    zckCtx *zck = calloc(1, sizeof(*zck));
    V_ASSUME(zck != NULL);
    zck->mode = in.mode; zck->error_state = in.err0; zck->prep_hash_type = in.prep_hash_type0;
    zck->prep_hdr_size = in.prep_hdr_size0;
    if(in.have_digest) { zck->prep_digest = malloc(16); V_ASSUME(zck->prep_digest != NULL); }
    zck_ioption opt = in.option_is_len ? ZCK_VAL_HEADER_LENGTH : ZCK_VAL_HEADER_HASH_TYPE;
    bool r = zck_set_ioption(zck, opt, in.value);
    bool ok = in.err0 == 0 && in.mode == ZCK_MODE_READ && in.value >= 0 &&
              (in.option_is_len || (!in.have_digest && in.value <= INT_MAX));
    V_ASSERT(r == ok, "C07.set_ioption.accept_iff");
    V_ASSERT(!r || in.option_is_len || (ssize_t)zck->prep_hash_type == in.value, "C07.set_ioption.hash_type_pinned_exactly");
    V_ASSERT(!r || !in.option_is_len || zck->prep_hdr_size == in.value, "C07.set_ioption.length_pinned_exactly");
    V_ASSERT(r || (zck->prep_hash_type == in.prep_hash_type0 && zck->prep_hdr_size == in.prep_hdr_size0), "C07.set_ioption.failure_changes_no_pin");
    V_COVER(r && in.option_is_len); V_COVER(r && !in.option_is_len); V_COVER(!r && in.have_digest && in.err0 == 0 && in.mode == 0 && in.value >= 0);
}

/* ---- zck_close, read mode (C02) ---- */
typedef struct { int err0, htype, uncomp_src, live, typed; size_t hu_total0, k1; unsigned hu_seen0, hu_final0; zckCtx any; } IN_cl;
V_INPUT(IN_cl)
void h_zck_close_read(void) {
    IN_cl in = nondet_IN_cl();
    V_ASSUME(in.err0 >= 0 && in.err0 <= 2 && SPEC_HASH_VALID(in.htype));
    /* every field the precondition does not mention is arbitrary (the decoder may be in any state) */
    zckCtx *zck = malloc(sizeof(*zck));
    V_ASSUME(zck != NULL);
    *zck = in.any;
    zck->check_full_hash.ctx = NULL; zck->check_full_hash.type = NULL;
    zck->mode = ZCK_MODE_READ; zck->error_state = in.err0; zck->has_uncompressed_source = in.uncomp_src;
    zck->hash_type.type = in.htype; zck->hash_type.digest_size = SPEC_DIGEST_SIZE(in.htype);
    zck->full_hash_digest = malloc(zck->hash_type.digest_size);
    V_ASSUME(zck->full_hash_digest != NULL);
    if(in.live) { zck->check_full_hash.ctx = malloc(1); V_ASSUME(zck->check_full_hash.ctx != NULL); }
    if(in.typed) zck->check_full_hash.type = &zck->hash_type;
    g_hu_hash = &zck->check_full_hash; g_hu_total = in.hu_total0; g_hu_seen = in.hu_seen0; g_hu_final = in.hu_final0; g_k1 = in.k1;
    bool r = zck_close(zck);
    V_COVER(r && !in.uncomp_src); V_COVER(!r && in.err0 == 0); V_COVER(r && in.uncomp_src);
}

#ifdef VERIF_NATIVE
#include "replay_in.h"
#endif
