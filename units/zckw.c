/* Proof units for the write-mode side of src/lib/zck.c (zck_close) and write_header (src/lib/header.c).
 * C01: nothing is pending when the header is built; C12: every step's failure is reported. */
#include "spec/verif_zck.h"
#include "spec/ghost.h"
#include "spec/ghost_writer.h"
#include "spec/ghost_close.h"
GHOST_DEFS
GHOST_WRITER_DEFS
GHOST_CLOSE_DEFS
#include "contracts/io.h"
#include "contracts/hashfn.h"
#include "contracts/zckw.h"
#ifdef VERIF_UNIT_WRITE_HEADER
#include "extracted_write_header.c"
#else
#include "src/lib/zck.c"
#endif

typedef struct {
    zckCtx any; zckChunk wi, last;
    int comp_type, ctype, htype;
    int wi_live, last_live, win_live, dc_live, dict_live, hdr_live;
    g_off_t pos0[G_NFD]; size_t wr0[G_NFD], rd0[G_NFD]; int failed0;
} IN_zc;
V_INPUT(IN_zc)

static zckCtx *mk_ctx(IN_zc *in) {
    V_ASSUME(in->comp_type == ZCK_COMP_NONE || in->comp_type == ZCK_COMP_ZSTD);
    V_ASSUME(SPEC_HASH_VALID(in->ctype) && SPEC_HASH_VALID(in->htype));
    zckCtx *zck = malloc(sizeof(*zck));
    V_ASSUME(zck != NULL);
    *zck = in->any;
    zck->comp.compress = verif_compress; zck->comp.end_cchunk = verif_end_cchunk; zck->comp.init = verif_winit;
    zck->comp.type = in->comp_type;
    zck->chunk_hash_type.type = in->ctype; zck->chunk_hash_type.digest_size = SPEC_DIGEST_SIZE(in->ctype);
    zck->hash_type.type = in->htype; zck->hash_type.digest_size = SPEC_DIGEST_SIZE(in->htype);
    zck->index.digest_size = SPEC_DIGEST_SIZE(in->ctype);
    zck->comp.dc_data = NULL;
    if(in->comp_type == ZCK_COMP_ZSTD && in->dc_live) { zck->comp.dc_data = malloc(zck->comp.dc_data_size); V_ASSUME(zck->comp.dc_data != NULL); }
    zck->work_index_item = NULL;
    if(in->wi_live) { zckChunk *c = malloc(sizeof(*c)); V_ASSUME(c != NULL); *c = in->wi; c->digest = NULL; c->digest_uncompressed = NULL; c->next = NULL; zck->work_index_item = c; }
    zck->index.first = NULL; zck->index.last = NULL;
    if(in->last_live) { zckChunk *c = malloc(sizeof(*c)); V_ASSUME(c != NULL); *c = in->last; c->digest = NULL; c->digest_uncompressed = NULL; c->next = NULL; zck->index.first = c; zck->index.last = c; }
    zck->buzhash.window = NULL;
    if(in->win_live) { V_ASSUME(zck->buzhash.window_size >= 1 && zck->buzhash.window_size <= 64); zck->buzhash.window = malloc(zck->buzhash.window_size); V_ASSUME(zck->buzhash.window != NULL); }
    zck->comp.dict = NULL;
    if(in->dict_live) { V_ASSUME(zck->comp.dict_size >= 1 && zck->comp.dict_size <= 16); zck->comp.dict = malloc(zck->comp.dict_size); V_ASSUME(zck->comp.dict != NULL); } else zck->comp.dict_size = 0;
    zck->work_index_hash.ctx = NULL; zck->work_index_hash_uncomp.ctx = NULL; zck->full_hash.ctx = NULL;
    zck->work_index_hash.type = NULL; zck->work_index_hash_uncomp.type = NULL; zck->full_hash.type = NULL;
    zck->header = NULL;
    zck->header_digest = NULL;
    if(in->dict_live) { zck->header_digest = malloc(1); V_ASSUME(zck->header_digest != NULL); }
    if(in->hdr_live) { V_ASSUME(zck->header_size <= 64); zck->header = malloc(zck->header_size); V_ASSUME(zck->header != NULL); }
    for(int i = 0; i < G_NFD; i++) { g_fpos[i] = in->pos0[i]; g_wr_bytes[i] = in->wr0[i]; g_rd_bytes[i] = in->rd0[i]; }
    g_io_failed = in->failed0 != 0; g_hu_hash = NULL;
    g_track = 0; g_src_base = NULL; g_next_off = 0; g_from_write = 0; g_bz_have = 0; g_same = 0;
    g_res_ec = 0; g_res_hc = 0; g_res_wh = 0; g_res_cft = 0;
    return zck;
}

#ifndef VERIF_UNIT_WRITE_HEADER
void h_zck_close_write(void) {
    IN_zc in = nondet_IN_zc();
    zckCtx *zck = mk_ctx(&in);
    size_t dc0 = zck->comp.dc_data_size; int started0 = zck->comp.started;
    bool r = zck_close(zck);
    V_COVER(r && started0 && dc0 > 0 && dc0 < (size_t)in.any.chunk_min_size);     /* short last chunk: ended by force */
    V_COVER(r && started0 && dc0 == 0);
    V_COVER(r && !started0);
    V_COVER(r && in.any.no_write == 1);
    V_COVER(!r && g_res_ec == 0 && in.any.error_state == 0);
    V_COVER(!r && g_res_ec == 1 && g_res_hc == 0);
    V_COVER(!r && g_res_hc == 1 && g_res_wh == 0);
    V_COVER(!r && g_res_wh == 1 && g_res_cft == 0);
    V_COVER(!r && g_res_cft == 1);                                                  /* comp_close failed */
}
#else
void h_write_header(void) {
    IN_zc in = nondet_IN_zc();
    zckCtx *zck = mk_ctx(&in);
    V_ASSUME(in.hdr_live || zck->header_size == 0 || zck->no_write != 0);
    g_res_hc = 1;
    bool r = write_header(zck);
    V_COVER(r && in.any.no_write == 0 && in.any.header_size == 40);
    V_COVER(r && in.any.no_write != 0);
    V_COVER(!r && in.any.error_state == 0 && in.any.mode == ZCK_MODE_WRITE && zck->error_state == 2);
    V_COVER(!r && in.any.mode != ZCK_MODE_WRITE);
}
#endif

#ifdef VERIF_NATIVE
#include "replay_in.h"
#endif
