/* Proof units for the zstd codec hooks (src/lib/comp/zstd/zstd.c), reader side: the REAL hooks are
 * enforced against the very contracts the reader units assume for the function-pointer stand-ins
 * (CONTRACT_END_DCHUNK / CONTRACT_DECOMPRESS in contracts/comp.h).  C02: a chunk is accepted only if
 * zstd produced exactly the declared number of bytes.  libzstd itself by assumed contract. */
#include "spec/verif_zck.h"
#include "spec/ghost.h"
GHOST_DEFS
#include "contracts/hash.h"
#include "contracts/hashfn.h"
#include "contracts/comp.h"
#include "stubs/zstd.h"
GHOST_ZSTD_DEFS

static bool end_dchunk(zckCtx *zck, zckComp *comp, const bool use_dict, const size_t fd_size)
CONTRACT_END_DCHUNK
V_ASSIGNS(g_zstd_last, g_zstd_calls)
/* C02 (from the property: "inconsistent declared sizes" must be an error): success only if the frame
 * decoded to exactly the size the index declares */
V_ENSURES(!__CPROVER_return_value || (g_zstd_calls == V_OLD(g_zstd_calls) + 1 && g_zstd_last == fd_size)) /*@C02.zstd_end_dchunk.frame_decodes_to_exactly_the_declared_size*/
;
static bool decompress(zckCtx *zck, zckComp *comp, const bool use_dict)
CONTRACT_DECOMPRESS
;
#include "extracted_zalloc.c"
#include "src/lib/comp/zstd/zstd.c"

typedef struct { int err0; size_t data_size0, dc_size0, dc_loc0, fd_size; int use_dict, has_ddict, data_null; } IN_zs;
V_INPUT(IN_zs)

static zckCtx *mk_zs(IN_zs *in) {
    V_ASSUME(in->err0 >= 0 && in->err0 <= 2);
    zckCtx *zck = calloc(1, sizeof(*zck));
    V_ASSUME(zck != NULL);
    zck->error_state = in->err0; zck->mode = ZCK_MODE_READ; zck->comp.type = ZCK_COMP_ZSTD;
    V_ASSUME(in->dc_loc0 <= in->dc_size0 && in->dc_size0 <= 32 && in->data_size0 <= 32);
    if(in->dc_size0) { zck->comp.dc_data = malloc(in->dc_size0); V_ASSUME(zck->comp.dc_data != NULL); }
    zck->comp.dc_data_size = in->dc_size0; zck->comp.dc_data_loc = in->dc_loc0;
    if(in->data_size0) { zck->comp.data = malloc(in->data_size0); V_ASSUME(zck->comp.data != NULL); }
    zck->comp.data_size = in->data_size0;
    zck->comp.dctx = malloc(1);
    if(in->has_ddict) zck->comp.ddict_ctx = malloc(1);
    return zck;
}

void h_zstd_end_dchunk(void) {
    IN_zs in = nondet_IN_zs();
    zckCtx *zck = mk_zs(&in);
    V_ASSUME(in.fd_size <= 32);
    bool r = end_dchunk(zck, &zck->comp, in.use_dict != 0, in.fd_size);
    V_COVER(r && in.fd_size > 0 && in.dc_size0 > in.dc_loc0); V_COVER(!r && in.err0 == 0); V_COVER(r && in.use_dict && in.has_ddict);
}

void h_zstd_decompress(void) {
    IN_zs in = nondet_IN_zs();
    zckCtx *zck = mk_zs(&in);
    V_ASSUME(in.data_size0 > 0);
    bool r = decompress(zck, &zck->comp, in.use_dict != 0);
    V_COVER(r); V_COVER(!r);
}

#ifdef VERIF_NATIVE
#include "replay_in.h"
#endif
